#!/bin/bash
# seedeval.sh <SRC_DIR> <NAME> <PROP> [extra check ids...]
#   SRC_DIR : directory with patch.diff, demo.rs, demo_path.txt (from a seeding sub-agent)
#   NAME    : name under /verif/seeded/ (e.g. C05-m1)
#   PROP    : property the change is meant to break
# 1. confirms in a scratch worktree (/tmp/confirm-wt): patch applies; repository suite passes with
#    it; demo fails with it and passes without it.
# 2. applies the patch to /repo, runs ./check for PROP (quick, then thorough if quick is silent)
#    and any extra ids, reverts /repo.
# Writes /verif/seeded/NAME/{patch.diff,demo.rs,demo_path.txt,README.md,eval.txt}
set -u
SRC="$1"; NAME="$2"; PROP="$3"; shift 3; EXTRA="$*"
OUT=/verif/seeded/$NAME; mkdir -p $OUT
cp $SRC/patch.diff $SRC/demo.rs $SRC/demo_path.txt $OUT/ 2>/dev/null
[ -f $SRC/README.md ] && cp $SRC/README.md $OUT/README.md
EV=$OUT/eval.txt; : > $EV
WT=${SEED_WT:-/tmp/confirm-wt}; export CARGO_NET_OFFLINE=true
if [ ! -d $WT ]; then git -C /repo worktree add --detach $WT HEAD >/dev/null 2>&1; fi
git -C $WT checkout -q --detach $(git -C /repo rev-parse HEAD); git -C $WT checkout -q -- . ; git -C $WT clean -fdq
export CARGO_TARGET_DIR=${SEED_CT:-/tmp/confirm-target}
DEMO_PATH=$(grep -oE 'crates/[A-Za-z0-9_./-]+\.rs' $OUT/demo_path.txt | head -1)
DEMO_TEST=$(basename $DEMO_PATH .rs)
DEMO_CRATE=$(echo $DEMO_PATH | sed -E 's#crates/([^/]+)/.*#\1#')
DEMO_KIND=--test; echo $DEMO_PATH | grep -q "/examples/" && DEMO_KIND=--example
echo "demo: $DEMO_PATH crate=$DEMO_CRATE test=$DEMO_TEST" >> $EV
cd $WT
if ! git apply --check $OUT/patch.diff 2>>$EV; then echo "CONFIRM patch-does-not-apply" | tee -a $EV; exit 3; fi
# demo without patch
mkdir -p $(dirname $DEMO_PATH); cp $OUT/demo.rs $DEMO_PATH
DEMO_ENV=""; [ -f $SRC/demo_env.txt ] && DEMO_ENV="$(cat $SRC/demo_env.txt)" && cp $SRC/demo_env.txt $OUT/
env $DEMO_ENV cargo test --offline -p $DEMO_CRATE $DEMO_KIND $DEMO_TEST > /tmp/confirm-demo0.log 2>&1; d0=$?
echo "demo without patch: exit $d0 : $(grep -E '^test result' /tmp/confirm-demo0.log | tail -1)" | tee -a $EV
git apply $OUT/patch.diff
env $DEMO_ENV cargo test --offline -p $DEMO_CRATE $DEMO_KIND $DEMO_TEST > /tmp/confirm-demo1.log 2>&1; d1=$?
echo "demo with patch: exit $d1 : $(grep -E '^test result' /tmp/confirm-demo1.log | tail -1)" | tee -a $EV
rm -f $DEMO_PATH; rmdir $(dirname $DEMO_PATH) 2>/dev/null
suite=$(cargo test --workspace --no-fail-fast --offline 2>&1)
sp=$(echo "$suite" | grep -E "^test result" | awk '{p+=$4; f+=$6} END {print "passed="p" failed="f}')
echo "suite with patch: $sp" | tee -a $EV
echo "$suite" | grep -E "^test .* FAILED|^error(\[|:)" | head -5 >> $EV
git checkout -q -- . ; git clean -fdq
ok=1; [ $d0 -eq 0 ] || ok=0; [ $d1 -ne 0 ] || ok=0; echo "$sp" | grep -q "failed=0" || ok=0
echo "CONFIRMED=$ok" | tee -a $EV
[ $ok -eq 1 ] || exit 4
# run the checks against the patched tree (scratch worktree via the development override: /repo
# itself stays untouched so that other work can go on; same sources as `git -C /repo apply`)
cd $WT && git apply $OUT/patch.diff && cd /verif
export VERIF_REPO_OVERRIDE=$WT VERIF_TARGET_DIR=${SEED_VT:-/tmp/seed-vt} VERIF_OUT_DIR=${SEED_OUT:-/tmp/seed-out}
unset CARGO_TARGET_DIR
mkdir -p ${SEED_OUT:-/tmp/seed-out}/evidence
for id in $PROP $EXTRA; do
  for tier in quick thorough; do
    s=$(date +%s); ./check $id --tier $tier > /tmp/seedeval-$id-$tier.log 2>&1; rc=$?; e=$(date +%s)
    echo "check $id $tier: exit $rc ($((e-s)) s)" | tee -a $EV
    grep -E "^VIOLATION|violation-class|^MACHINERY" /tmp/seedeval-$id-$tier.log | head -6 >> $EV
    [ $rc -ne 0 ] && break
  done
done
git -C $WT checkout -q -- . ; git -C $WT clean -fdq
echo done >> $EV
