#!/usr/bin/env python3
"""Writes /verif/seeded/<name>/meta.json for every seeded change from the hand-written table below
(what the change is and what it needs in order to manifest), the confirmation record in eval.txt
(first evaluation, by tools/seedeval.sh) and the regression record in regress.txt (last evaluation of
all seeds against the final checks, by tools/seedregress.sh). Also prints the markdown table that
DESIGN.md section S.4 carries."""
import json, os, re, sys

ROOT = "/verif/seeded"
# name: (property, change, needs, strengthened)   strengthened = what was added to the checks after a miss ("" if caught at once)
T = {
 "C01-m1": ("C01", "ty.rs root_ty: no 'expected item type' error when the offending token is EOF; a lone `[` parses without errors and ast::Type::parse then panics on its `expect`", "input exactly one `[` (plus ignored tokens) through the compiler entry point Type::parse", ""),
 "C01-m2": ("C01", "parser/mod.rs: push_ignored() after the root rule of parse_selection_set / parse_type; pending tokens land beside the closed root and rowan's builder asserts", "recursion_limit(0) + standalone entry point + a pending ignored/invalid token right after the opening `{`/`[`", ""),
 "C02-m1": ("C02", "next_token: lexer-error text that Rust's trim() treats as white space is not queued as ERROR token", "a character that is white space for Unicode but not for GraphQL (NBSP, FF, VT, U+0085, U+2028, U+3000) outside strings/comments", "C02 space 'strings-unicode-space' (U+00A0, U+000C, U+2028 added to the lexical alphabet)"),
 "C02-m2": ("C02", "err_and_pop: the ERROR token push slipped inside `if accept_errors`, so unexpected tokens after a limit error are dropped", "recursion limit hit (small recursion_limit or > 500 levels) and a later unexpected token", "C02 spaces under recursion limits 0..=3 (token sequences, nesting family with trailing garbage, edits of nested documents)"),
 "C03-m1": ("C03", "lexer State::StringLiteralStart: line-terminator arm removed", "quoted string whose first character is a raw LF/CR and that has no later raw terminator", ""),
 "C03-m2": ("C03", "surrogate check of \\uXXXX rewritten as half-open range 0xD800..0xDFFF", "escape \\uDFFF exactly, no other surrogate escape in the string", "quick tier gains the escape space: `\"\\\\u` followed by every string ≤ 5 over the digits that spell the surrogate-block boundaries"),
 "C04-m1": ("C04", "compiler Parser::parse_common: reached figures take max with the previous value", "one Parser value used for two parses, the second shallower / shorter", "C04 history part (E-HIST: every sequence of <= 3|4 parse calls on one Parser value)"),
 "C04-m2": ("C04", "list_value: recursion counter incremented once per list instead of per item, so `[]` costs a level", "an empty list value as the deepest construct with the limit equal to the depth", ""),
 "C05-m1": ("C05", "variable_definition directives parsed with Constness::NotConst", "a variable reference inside a directive argument on a variable definition", ""),
 "C05-m2": ("C05", "directive_definition argument loop continues on Name only (not on a description string)", "directive definition whose non-first argument has a description", ""),
 "C06-m1": ("C06", "unescape_block_string is_whitespace uses char::is_whitespace", "block string where a Unicode-only white-space character starts a non-first line or is a line's only content", "C06 space 'block-unicode-space'"),
 "C06-m2": ("C06", "block string delimiter stripped with trim_end_matches (repeatedly)", "block string content ending in the escape \\\"\"\" directly before the closing delimiter", ""),
 "C07-m1": ("C07", "root_ty non-null branch loses expect_end_of_input()", "root type ending in `!` followed by another token", ""),
 "C07-m2": ("C07", "expect_end_of_input shortcut over a cloned lexer forgets the token already in current_token", "exactly one trailing non-ignored token", ""),
 "C08-m1": ("C08", "serialize_block_string skips lines that are white space only (`trim().is_empty()`)", "multi-line description with a non-empty all-white-space interior line, newlines enabled", "C08 multi-line string representative now has such a line; C09 caught it as it was"),
 "C08-m2": ("C08", "top_level separator only written when newlines are enabled", "no_indent() and a non-last definition ending in a Name token", ""),
 "C09-m1": ("C09", "serialize_block_string writes white-space-only lines without the indentation prefix", "white-space-only interior line inside a block string at a nested (indented) position", ""),
 "C09-m2": ("C09", "unescape_block_string is_whitespace uses is_ascii_whitespace (form feed counts as indentation)", "U+000C at the start of every non-blank line, or a first/last line made of U+000C only", "C09 alphabet extended with U+000C and U+00A0"),
 "C10-m1": ("C10", "Name::is_name_start/continue as byte ranges `_`..=`z` (includes the backtick)", "a name containing a backtick", ""),
 "C10-m2": ("C10", "From<f64> for FloatValue uses {:?} (exponent notation) plus the `.0` fix-up", "finite f64 outside [1e-4, 1e16) with a one-digit shortest form", ""),
 "C11-m1": ("C11", "get_line_column keeps an after_cr flag set until the next LF", "a lone CR followed later by a plain LF", ""),
 "C11-m2": ("C11", "get_line_column bounds check `offset >= len`", "a location touching the end of the file", ""),
 "C12-m1": ("C12", "implicit-schema detection skips root operations that are absent", "explicit `schema { query: Query }` plus an unrelated object type named Mutation/Subscription", "C12 focus menu 'schema-roots'"),
 "C12-m2": ("C12", "InterfaceType::iter_origins visits implements before directives", "interface extended first by a directive-only extension, then by one with implements + directive", "none needed: after fix 5db661e extensions() no longer orders by iter_origins, the change is behaviour-neutral (C12 focus menu 'interface-extensions' covers the shape)"),
 "C13-m1": ("C13", "orphan_type_extensions.swap_remove instead of shift_remove when a definition claims its queued extensions", "adopt_orphan_extensions() + three queued orphan types + a definition for a non-last one", "C13 adopt_orphan_extensions mode and the extension-relocation operator"),
 "C13-m2": ("C13", "executable builder's multiple_anonymous flag became a per-source local", "three anonymous operations, the third in a later source than the second", ""),
 "C14-m1": ("C14", "input-object cycle check follows non-null *list* links", "input cycle whose links are all outer-non-null and at least one is a non-null list", ""),
 "C14-m2": ("C14", "interface extensions de-duplicate `implements` silently", "interface + `extend interface` repeating an implements entry", "thorough tier caught it; C14 space operator 'dup-member' now also repeats implements / union members, so the quick tier does too"),
 "C15-m1": ("C15", "input cycle check only follows links that are required (non-null and without default)", "non-null input cycle in which a link has a default value", "thorough tier caught it; operator 'non-null-input-link-with-default' added, so the quick tier does too"),
 "C15-m2": ("C15", "pruning of unused built-in scalars skipped when a missing one is re-inserted", "validate; into_inner; drop the last Int reference and add a Float reference; validate", "C16 operation 'remove the base field' (the invariant is shared by C15 and C16; C16 reports it); C15 gains a history part of its own (edit / validate sequences <= 3|4 steps from four bases, invariants judged after the final validation)"),
 "C16-m1": ("C16", "validate_schema returns early when all built-in scalars are used, skipping re-insertion", "prune Int, Float, ID; into_inner; reference all three again; validate", ""),
 "C16-m2": ("C16", "BuiltInScalars::record_type_ref returns the set-insert result", "prune; into_inner; two references to the same pruned scalar; validate", ""),
 "C17-m1": ("C17", "group_by_common_parents: abstract-parent fields merged into the first concrete group only (append drains)", "one response name under two object type conditions and on the abstract parent, conflict with a non-first concrete type", "thorough tier caught it; base pair b16 added, so the quick tier does too"),
 "C17-m2": ("C17", "validated_fragments set moved from per-operation to per-document", "two operations spreading the same variable-using fragment, the later one without a valid declaration", ""),
 "C18-m1": ("C18", "root_fields / all_fields end the iteration at a repeated fragment spread", "fragment spread a second time with fields reached after it", ""),
 "C18-m2": ("C18", "validate_fragment_spread returns at once for an already validated fragment (skips the spread's own directives)", "same fragment spread twice in one operation, the later spread with a directive using an undeclared variable", "C17 quick reports it (verdict); C18 thorough reports it; base pair b20 (one fragment spread twice, the second spread with a directive argument variable): C18 quick reports the undefined variable"),
 "C19-m1": ("C19", "VariableDefinition serialized with directives before the default value", "variable definition with both a default and a directive", ""),
 "C19-m2": ("C19", "FieldSet top-level selections lose their separator under no_indent()", "FieldSet + no_indent() + two adjacent selections meeting name-to-name", ""),
 "C20-m1": ("C20", "without a schema, inline fragments with a type condition are dropped from the built document", "the only use of a variable / fragment sits inside `... on T { }`", ""),
 "C20-m2": ("C20", "inline fragment body validated against the enclosing type", "inline fragment narrowing an abstract type, a field only on the narrowed type, below it a schema-independent error", ""),
 "C21-m1": ("C21", "fragment cycle check shares its traversed set across fragments of an operation", "cycle reached only through a used fragment that is not on the cycle; check_max_depth then recurses forever", ""),
 "C21-m2": ("C21", "DiagnosticList::sort key (offset, file_id)", "located diagnostics in two source files with interleaving offsets", "C21 two-source SchemaBuilder step"),
 "C22-m1": ("C22", "SchemaBuilder::orphan_type_extensions IndexMap -> HashMap", "adopt_orphan_extensions() + two orphan types, observed across processes", "C22 workload w8 (adopted orphan extensions), compared across fresh processes"),
 "C22-m2": ("C22", "group_by_common_parents concrete_parents IndexMap -> HashMap", "several field-merge diagnostics at one location differing only in labels", "C22 workload w9 (same-location diagnostics); C14/C17 spaces added as workloads"),
 "C23-m1": ("C23", "DirectiveCoordinate::from_str strips every leading `@`", "input starting with two or more `@`", ""),
 "C23-m2": ("C23", "TypeAttributeCoordinate::lookup_ref resolves meta-fields through schema.type_field", "negative lookup whose attribute is a meta-field name", ""),
 "C24-m1": ("C24", "interface possibleTypes also lists implementing interfaces", "interface implemented by another interface", ""),
 "C24-m2": ("C24", "explicit `= null` default reported as no default", "argument / input field with a top-level `= null` default", ""),
 "C25-m1": ("C25", "memo path of a fragment spread no longer updates max_depth", "Inner spread once; Outer containing ...Inner spread; Outer spread again one list deeper", ""),
 "C25-m2": ("C25", "inline fragment walk starts from the running max_depth of preceding siblings", "inline fragment that is not the first selection, preceded by a sibling nesting lists", ""),
 "C26-m1": ("C26", "collect_fields: @include only consulted when there is no @skip", "@skip(if:false) @include(if:false) on one selection", ""),
 "C26-m2": ("C26", "null variable for a non-null argument with a default falls through to the default", "`a: Int! = 5` given `$x: Int` with {\"x\": null}", ""),
 "C27-m1": ("C27", "execute_field async: now_or_never() 'fast path' consumes the future and calls the resolver again", "a resolver future that is Pending on its first poll", ""),
 "C27-m2": ("C27", "Cooperative stream adapter yields Pending after 128 ready items without waking", "async list of >= 128 consecutive ready items under an executor that only re-polls after a wake", ""),
 "C28-m1": ("C28", "Int range check via unsigned_abs() <= i32::MAX", "the value -2147483648 in an Int position", ""),
 "C28-m2": ("C28", "explicit null for an input-object field treated as absent", "variable value {\"x\": null} for a field with a default", ""),
 "C29-m1": ("C29", "is_assignable_to (NonNullList, NonNullList) arm recurses with swapped receiver/argument", "two non-null lists whose item types differ in nullability", ""),
 "C29-m2": ("C29", "is_valid_implementation_field_type (Named, NonNullNamed) arm drops the subtype test", "nullable interface field type implemented by a non-null proper subtype", ""),
 "C30-m1": ("C30", "From<Name> for Arc<str> takes the Arc out of the ManuallyDrop without forgetting the name", "Arc::<str>::from(heap name)", ""),
 "C30-m2": ("C30", "hand-rolled Node::make_mut loses the location on its copy path", "make_mut on a node that is shared and carries a location", ""),
 "C31-m1": ("C31", "FileId::new: compare_exchange with Err treated like Ok", "a race between two allocations plus a third allocation (3 allocations over 2 threads)", ""),
 "C31-m2": ("C31", "FileId::new accept test rewritten as `id > 1 << 63` (lets 2^63 through)", "the counter sitting exactly on 2^63", ""),
 "C32-m1": ("C32", "reachable_fragment_names 'simplified' into one forward pass over the fragment definitions", "a spread chain of depth >= 3 starting at an operation (op -> F3 -> F2 -> F1); the shortest known input has 356 bytes", "not reached by enumeration: the enumerated families (short inputs, periodic inputs, <= 2 changed bytes) and the 20 000-input supplementary low-entropy sequence do not produce such a chain; reaching generator decisions that need a hundred specific bytes is outside a bounded enumeration of byte strings (DESIGN S.5); the demonstration input (a depth-3 fragment spread chain) joined the witness family as a regression input: C32 quick reports it; no enumerated family reaches such a chain (S.5)"),
 "C32-m2": ("C32", "interface.rs try_accept_candidate: cycle guard checks the wrong direction", "interface X, some Y implementing X, then an `extend interface X` whose pick is exactly Y (147-byte input)", "C32 supplementary low-entropy sequence (sampling, labelled) reaches it; the enumerated families do not"),
 "C33-m1": ("C33", "concrete_type may pick an implementing interface for an interface position", "interface implementing another interface + a choose_index answer landing on it", ""),

 # ---- round 2 (sub-agents were also told what round 1 had produced for the property) ----
 "C12-r2m1": ("C12", "SchemaDefinition::extensions(): the three root-operation lists merged into one list in kind order and passed before the directive list", "two `extend schema` blocks each adding a directive and a root operation, the earlier block carrying the later kind (subscription before mutation)", "C12 focus menu 'schema-roots': a second extension with directive + root operation (added before this seed was evaluated)"),
 "C12-r2m2": ("C12", "Schema::to_ast skips built-in types that have no directives", "an extension of a built-in non-scalar type (`extend type __Type { extra: Int }`) with no directive on that type", "C12 focus menu 'descriptions-and-built-ins': extensions of __Type / __TypeKind (added before this seed was evaluated)"),
 "C13-r2m1": ("C13", "SchemaDefinition::from_ast applies queued schema extensions before the definition's own root operations", "`extend schema { query: B }` before `schema { query: A }` naming the same root operation", "C13 menu item `extend schema{query:R}`"),
 "C13-r2m2": ("C13", "type_extension!: an extension equal to one already queued is not queued again", "two textually identical extensions of a type, both before its definition", ""),
 "C16-r2m1": ("C16", "validate_schema inserts missing built-in scalars first and returns early when it inserted any (no pruning in that pass)", "one edit drops the last reference to a defined built-in scalar and adds a reference to a pruned one; the leftover disappears only at the next validation", ""),
 "C16-r2m2": ("C16", "BuiltInScalars table holds plain ScalarType values; a restored scalar is a new location-less node (is_built_in() false)", "prune; into_inner; reference the scalar again; validate; then look at what was restored (wrong literal accepted, scalar no longer pruned)", ""),
 "C21-r2m1": ("C21", "input-object cycle check lost the branch that skips a name already on the path", "an input object not on a non-null cycle that reaches one through required fields", ""),
 "C21-r2m2": ("C21", "get_line_column indexes bytes[index + 1] without bounds check", "source text ending in a lone CR plus a diagnostic located at EOF, rendered as JSON", "C21 edits: every seed document cut after each token and ended by a lone CR"),
 "C24-r2m1": ("C24", "possibleTypes of an interface without implementers is null instead of []", "an interface nothing implements", ""),
 "C24-r2m2": ("C24", "__Directive.args ignores includeDeprecated and always drops deprecated arguments", "a directive definition with an argument marked @deprecated", ""),
 "C26-r2m1": ("C26", "Int result coercion uses a half-open range that excludes i32::MAX", "a resolver returning exactly 2147483647", ""),
 "C26-r2m2": ("C26", "collect_fields returns (instead of continuing) at an already visited fragment spread", "the same fragment reached twice in one selection set with more selections after the second spread", ""),
 "C17-r2m1": ("C17", "same_output_type_shape: `is_composite(a) || is_composite(b)` instead of `&&`", "same response name under two non-overlapping object type conditions, one a leaf and the other composite", "base pair b19 (a leaf and a composite field under disjoint type conditions, one alias apart) puts the case in the single-mutation space of the quick tier"),
 "C17-r2m2": ("C17", "is_variable_usage_allowed_at step 3.d checks assignability in the wrong direction", "nullable list variable with a default in a non-null list position whose item nullability differs", "S3 gains `lq(x: [Int!]!, y: [Int]! = [1])` and base pair b21 (nullable list variables in non-null list positions): C17 quick reports it"),
 "C14-r2m1": ("C14", "validate_implements_interfaces: the implemented name only has to be a defined type (contains_key) instead of an interface", "`implements` naming a defined object / union / scalar / enum / input type", ""),
 "C14-r2m2": ("C14", "is_valid_implementation_field_type: (List, NonNullList) alternative dropped", "interface field with a nullable list implemented by a non-null list at that level", ""),
 "C25-r2m1": ("C25", "fragment memo stores the absolute depth of the first spread", "fragment spread twice, the first spread below a list field", ""),
 "C25-r2m2": ("C25", "depth reached inside an inline fragment is not folded into max_depth", "named fragment whose list fields sit inside an inline fragment, spread twice", "quick tier gains sub-space one-fragment-c (main and fragment body both two levels deep)"),
 "C27-r2m1": ("C27", "list items pulled with ready_chunks(16), index derived from the chunk number", "async list stream pending between two items at a position that is not a multiple of 16, plus a field error at a later item (wrong errors[].path)", ""),
 "C27-r2m2": ("C27", "Normal mode: completing item i is joined with fetching item i+1", "list of objects, a resolver inside a non-last item pending once, an observable lazy item producer", "C27 compares the order of calls and list-item production with the synchronous run and explores over-bound requests by deviation bound"),
 "C28-r2m1": ("C28", "single value for a nested list type wrapped only once", "`[[Int]]` given `1`", ""),
 "C28-r2m2": ("C28", "unknown input-object key scan only runs if the object has more keys than the type has fields", "object with an undeclared key that omits at least as many declared fields", ""),
 "C22-r2m1": ("C22", "DiagnosticList::sort becomes sort_unstable_by_key", "more than 20 diagnostics with two different diagnostics at the same offset (e.g. a variable that is unused and of an undefined type)", "C22 workload w10 (sizes above the 20-element thresholds)"),
 "C22-r2m2": ("C22", "field-merge argument check iterates the lookup index (a HashMap above 20 arguments)", "two selections with the same response key, more than 20 arguments, two conflicting arguments", "C22 workload w10 (a field with 24 arguments merged with conflicting values)"),
 "C01-r2m1": ("C01", "ty.rs parse: `Some(_)` and `None` arms merged into `_ => Err(Some(p.pop()))`", "token limit exhausted between the `[` of a list type and the next significant token", ""),
 "C01-r2m2": ("C01", "object_field: early return for a missing value between the recursion counter's increment and decrement", "`{ f(arg: {a: b: 1}) }`: an object field's colon directly followed by `name :` (trips the unbalanced-counter assertion)", ""),
 "C05-r2m1": ("C05", "scalar_type_extension no longer requires directives", "`extend scalar Date` with nothing after the name", ""),
 "C05-r2m2": ("C05", "interface_type_extension parses directives before implements", "interface extension with both an implements list and directives", ""),
 "C08-r2m1": ("C08", "can_be_block_string counts only spaces (not tabs) as common indentation", "multi-line description whose every non-blank line starts with a tab", "C08 gains the strings family (two templates x every string <= 3 symbols over 10 + every paragraph of 2..3 menu lines): C08 quick reports it"),
 "C08-r2m2": ("C08", "\\uXXXX escape of control characters formatted in decimal", "quoted string containing U+000B or U+000E..U+001F", "C09 alphabet: U+001F (C09 reports it; C08 keeps two string representatives); C08 strings family (see C08-r2m1): C08 quick reports it"),
 "C11-r2m1": ("C11", "Name::location returns None when start_offset == 0", "a parsed name at byte offset 0 of its file (standalone Type::parse / FieldSet::parse)", "C11 standalone part (added before this seed was evaluated)"),
 "C11-r2m2": ("C11", "get_line_column_range fast path computes the end column from the byte length", "a located text without line terminator that contains a multi-byte character, range end inspected", "C11 line/column ranges of every node (added before this seed was evaluated)"),
 "C18-r2m1": ("C18", "Schema::type_field returns __typename for scalar, enum and input object types too", "fragment with a scalar / enum / input type condition selecting __typename", ""),
 "C18-r2m2": ("C18", "validate_inline_fragment drops the fallback to the parent type for fragments without type condition", "`... { }` or `... @include(if: $c) { }` with an undefined variable or a missing sub-selection below it", ""),
 "C04-r2m1": ("C04", "Parser::err_at_token pushes the error directly, bypassing the accept_errors check", "a recursion-limit error followed later by a type position whose next token is not a type", "none: the statement demands 'no error after the first limit error' for the token limit; after a recursion-limit error the unchanged tree already reports further (lexer) errors, so C04 counts such errors and does not judge them"),
 "C04-r2m2": ("C04", "field_set: a field set without outer braces no longer counts as a nesting level", "brace-less field set through parse_selection_set / parse_field_set with the recursion limit equal to depth - 1", ""),
 "C33-r2m1": ("C33", "__typename recognised by response key instead of field name", "`kind: __typename` (aliased)", ""),
 "C33-r2m2": ("C33", "nullability of a list field judged on its items", "non-null list of nullable items + a null ratio above 0", "C33 workload with `[Int]!`, `[T]!`, `[[Int]]!` fields (added before this seed was evaluated)"),
 "C23-r2m1": ("C23", "DirectiveArgumentCoordinate::from_str splits on `:)` and drops the rest", "`@d(a:)` followed by at least one more character (7 bytes)", ""),
 "C23-r2m2": ("C23", "FieldArgumentCoordinate::lookup_ref resolves the field directly and its wildcard arm swallows interfaces", "lookup of an argument of an interface field", ""),
 "C29-r2m1": ("C29", "is_variable_usage_allowed_at step 3.d compares list item types with == instead of is_assignable_to", "non-null list location, nullable list variable with a default, compatible but not identical item types", ""),
 "C29-r2m2": ("C29", "validate_implementation_field_types skips a field name already checked against an earlier interface", "two interfaces defining the same field with different types; the implementing field valid for the first, invalid for the later one", "C29 part (iii-b): one implementer, two interfaces, every triple of type references of nesting <= 1"),
 "C30-r2m1": ("C30", "Name::with_location repacks the file id with a hard-coded TAG_ARC", "a static name followed by with_location", ""),
 "C30-r2m2": ("C30", "Hash for Node<T> hashes the header (location) too", "two equal nodes that differ only in location, hashed", ""),
 "C20-r2m1": ("C20", "validate_directives: unknown directives count as non-repeatable without a schema", "a directive the schema declares repeatable, applied twice on one node", ""),
 "C20-r2m2": ("C20", "schema-less build of a field omits its directives", "a variable whose only uses are in directives applied to fields", ""),
 "C06-r2m1": ("C06", "unescape_block_string keeps a trailing whitespace-only line that is longer than the common indent", "multi-line block string whose trailing whitespace-only line is longer than the common indent", ""),
 "C06-r2m2": ("C06", "from_cst fast path copies the text of a block string value without backslash / line terminator", "a one-line block string *value* (not a description) made of spaces or tabs only", ""),
 "C19-r2m1": ("C19", "InlineFragment::to_ast always writes a type condition (the parent type)", "an inline fragment without a type condition", ""),
 "C19-r2m2": ("C19", "serialize_string_value escape search uses is_control() (matches two-byte C1 controls) and slices one byte", "a string value containing U+0080..U+009F", "C09 alphabet: U+0085 (C09 reports the panic); C19 gains the same strings family on one valid document: C19 quick reports the panic"),
 "C03-r2m1": ("C03", "lexer State::Comment ends only at LF", "a comment followed by CR (CRLF or bare CR)", ""),
 "C03-r2m2": ("C03", "State::LeadingZero arms reordered: the name-start reject arm shadows the exponent arm", "`0e5`, `-0E+12`: integer part exactly 0 directly followed by an exponent", ""),
 "C07-r2m1": ("C07", "field_set: end-of-input check only in the else branch of `if has_braces`", "a braced field set followed by another token: `{ a } b`", ""),
 "C07-r2m2": ("C07", "lexer State::Comment ends only at LF", "`Int # c\\rx`: a comment after the construct ended by a lone CR, extra token on the next line", "C07 joiner sweep: one extra token separated by comments / line terminators / commas / BOM"),
 "C10-r2m1": ("C10", "Name byte classes via a 128-entry table indexed with `byte & 0x7F`", "a non-ASCII character whose UTF-8 bytes alias onto name characters (U+00B0..B9, U+00F0..F9: `ñ`, `²`)", "C10 edge alphabet: `ñ`, `²` (added before this seed was evaluated)"),
 "C10-r2m2": ("C10", "FloatValue Deserialize::visit_string checks the Int grammar", "a deserializer that hands over an owned String (serde_json::from_value), value `3.5` or `3`", ""),
 "C02-r2m1": ("C02", "document(): early return after 'Unexpected <EOF>' skips the final push_ignored()", "a non-empty input without any definition (only white space, comments, commas, lexer-error fragments)", ""),
 "C02-r2m2": ("C02", "lexer ExponentIndicator error carries only the offending character; the cursor stays at the start of the number", "`1ex`: an exponent marker directly followed by a character that is neither digit nor sign", ""),
 "C09-r2m1": ("C09", "\\uXXXX escape of control characters formatted in decimal (same slip as C08-r2m2, written independently)", "quoted string containing U+000B or U+000E..U+001F", "C09 alphabet: U+001F"),
 "C09-r2m2": ("C09", "can_be_block_string: blank lines take part in the common indent (filter_map became map)", "three lines, every non-blank line indented, an empty interior line: ` a\\n\\n a`", "thorough tier caught it; C09 paragraph family (2..=4 lines from a line menu) added, so the quick tier does too"),
 "C33-m2": ("C33", "collect_fields: a fragment spread's fields replace nothing but are not merged into an already collected key", "same composite response key twice, the later occurrence from a named fragment with an extra sub-field", ""),
 # round 3 (C15, C31, C32 had no round 2; C02, C05, C24 have open findings nearby; C26, C28)
 "C02-r3m1": ("C02", "closing ] of a list type pushed without flushing the pending queue", "a list type whose ] is directly preceded by white space, a comma, a comment or a lexer-error fragment", ""),
 "C02-r3m2": ("C02", "lexer-error text met after a limit error is never queued for the tree", "recursion limit reached and a lexically invalid fragment later in the input", ""),
 "C32-r3m1": ("C32", "collect_fragment_spreads no longer looks inside inline fragments", "every spread of some fragment sits inside an inline fragment", ""),
 "C32-r3m2": ("C32", "implements graph topological order computed children first", "interface Z implements X generated before `extend interface X implements W`", ""),
 "C31-r3m1": ("C31", "FileId::new overflow guard loads the counter before fetch_add instead of checking the fetched value", "counter one below the wrap and a second thread between the load and the fetch_add", "model A gains across-the-wrap specifications (start closer to 2^63 than the number of allocations; oracle: no tagged or reserved id under every interleaving of fetch / reset / retry): C31 quick reports it"),
 "C31-r3m2": ("C31", "BuiltInScalars table filled from whichever schema is validated first", "the first validate() of the process runs on a schema that lacks a built-in scalar", "C31 gains the first-use-order part (every sequence of 1..2 first operations of a fresh process from a menu of 7, then a fixed probe workload, one process each): C31 quick reports it"),
 "C26-r3m1": ("C26", "complete_list_value decides item nullification by the list type, not the item type", "a list whose own nullability differs from its items' ([T!], [T]!) with a completion error in one item", ""),
 "C26-r3m2": ("C26", "complete_value runs only the first merged field's sub-selection", "the same composite response key selected more than once in one collected set with different sub-selections", ""),
 "C28-r3m1": ("C28", "coerce_variable_values: missing-value error for non-null variables hoisted ahead of defaults", "a non-null variable with a default, omitted from the variables map", ""),
 "C28-r3m2": ("C28", "coerce_variable_value list branch returns null for a null item without consulting the item type", "a JSON array containing null where the item type is non-null", ""),
 "C15-r3m1": ("C15", "duplicate root type look-up compares only with the previously recorded root", "three roots, query and subscription naming the same type with a different mutation type between them", ""),
 "C15-r3m2": ("C15", "implemented interface 'must be defined' check accepts any defined type", "an implements entry naming a defined type that is not an interface (object, union)", ""),
 "C05-r3m1": ("C05", "enum_value() no longer rejects true / false / null (also used by enum value definitions)", "an enum definition or extension declaring a value named true, false or null", ""),
 "C05-r3m2": ("C05", "lexer look-ahead after a lone 0 / -0 no longer refuses a name-start character", "a literal exactly 0 or -0 glued to a letter other than e/E or to _, where a Name may follow a value", "C05 gains the glued-neighbours space (every base / boundary document with one separator removed) and base document s-zero-literals: C05 quick reports it"),
 "C24-r3m1": ("C24", "defaultValue of a top-level String default printed with format!(\"\\\"{str}\\\"\") instead of the serializer", "a String default containing a quote, backslash, newline or control character", ""),
 "C24-r3m2": ("C24", "__Schema.subscriptionType resolves from schema_def.mutation", "a schema whose mutation and subscription roots differ (at least one defined)", ""),
}

def parse_eval(path):
    out = {"confirmed": None, "suite": None, "demo_without": None, "demo_with": None, "checks": []}
    if not os.path.exists(path):
        return out
    for l in open(path, errors="replace"):
        l = l.strip()
        if l.startswith("CONFIRMED="): out["confirmed"] = l.endswith("1")
        elif l.startswith("suite with patch:"): out["suite"] = l.split(":",1)[1].strip()
        elif l.startswith("demo without patch:"): out["demo_without"] = l.split(":",1)[1].strip()[:120]
        elif l.startswith("demo with patch:"): out["demo_with"] = l.split(":",1)[1].strip()[:120]
        else:
            m = re.match(r"check (C\d+) (quick|thorough): exit (\d+) \((\d+) s\)", l)
            if m: out["checks"].append({"check": m.group(1), "tier": m.group(2), "exit": int(m.group(3)), "seconds": int(m.group(4))})
    return out

def detected(checks):
    return [f"{c['check']} {c['tier']}" for c in checks if c["exit"] == 1]

rows = []
for name in sorted(os.listdir(ROOT)):
    d = os.path.join(ROOT, name)
    if not os.path.isdir(d) or name not in T and not name[:-1] in T:
        continue
    key = name if name in T else name[:-1]
    prop, change, needs, strengthened = T[key]
    ev = parse_eval(os.path.join(d, "eval.txt"))
    rg = parse_eval(os.path.join(d, "regress.txt"))
    meta = {
        "id": name, "property": prop, "change": change, "needs_to_manifest": needs,
        "origin": "written by a sub-agent that was given only the property text and a scratch worktree (nothing from /verif)",
        "files": ["patch.diff", "demo.rs", "demo_path.txt", "README.md"],
        "confirmation": {"how": "tools/seedeval.sh in a scratch worktree: patch applies; `cargo test --workspace --no-fail-fast --offline` passes with it; demo fails with it and passes without it",
                         "confirmed": ev["confirmed"], "suite_with_patch": ev["suite"], "demo_without_patch": ev["demo_without"], "demo_with_patch": ev["demo_with"]},
        "first_evaluation": {"checks_run": ev["checks"], "detected_by": detected(ev["checks"])},
        "strengthening_after_first_evaluation": strengthened,
        "final_evaluation": {"checks_run": rg["checks"], "detected_by": detected(rg["checks"])} if rg["checks"] else None,
    }
    json.dump(meta, open(os.path.join(d, "meta.json"), "w"), indent=1, ensure_ascii=False)
    first = ", ".join(detected(ev["checks"])) or "missed"
    final = ", ".join(detected(rg["checks"])) if rg["checks"] else "(not re-run)"
    rows.append(f"| {name} | {change} | {needs} | {first} | {final or 'missed'} | {strengthened or '-'} |")

print("| seed | change | needs | first run | final checks | strengthening |")
print("|---|---|---|---|---|---|")
print("\n".join(rows))
