#!/opt/veriftools/pyvenv/bin/python
import json, jsonschema, glob, sys
ok = True
m = json.load(open('/verif/MANIFEST.json'))
jsonschema.validate(m, json.load(open('/root/.vp/MANIFEST.schema.json')))
es = json.load(open('/root/.vp/EVIDENCE.schema.json'))
for c in m['checks']:
    p = '/verif/' + c['evidence_file']
    try:
        jsonschema.validate(json.load(open(p)), es)
    except Exception as e:
        ok = False; print('BAD', p, str(e)[:200])
print('manifest valid; evidence', 'ok' if ok else 'PROBLEMS')
sys.exit(0 if ok else 1)
