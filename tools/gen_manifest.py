#!/usr/bin/env python3
"""Regenerates /verif/MANIFEST.json from the table below (one row per property).
A property is claimed only when its check binary exists in harness/checks/src/bin/ (or
loomcheck for C31) AND it is marked built=True here; everything else is listed under
not_applicable with the reason."""
import json, os, sys

ROOT = "/verif"
BASELINE = ("cd /repo/$(cat /w/out/cargo_root.txt) && cargo nextest run --workspace --no-fail-fast "
            "--tool-config-file pb:/w/lib/nextest.toml --profile pb --test-threads 8 --offline  "
            "(fallback: cargo test --workspace --no-fail-fast --offline)")

# id: (built, engine, technique, level text, level note, design_ref)
T = {}
def row(id, built, engine, technique, text, note):
    T[id] = dict(built=built, engine=engine, technique=technique, text=text, note=note)

exec(open(os.path.join(ROOT, "tools", "manifest_rows.py")).read())

title = {}
for l in open(os.path.join(ROOT, "properties.jsonl")):
    p = json.loads(l); title[p["id"]] = p["title"]

checks, na = [], []
for pid in sorted(title):
    r = T.get(pid)
    if not r or not r["built"]:
        na.append({"property_id": pid, "reason": (r or {}).get("note") or "check not built yet in this revision (design in DESIGN.md §6); not claimed"})
        continue
    checks.append({
        "property_id": pid,
        "quick_cmd": f"./check {pid} --tier quick",
        "thorough_cmd": f"./check {pid} --tier thorough",
        "evidence_file": f"evidence/{pid}.json",
        "replay_cmd_template": f"./check {pid} --replay {{path}}",
        "engine": r["engine"],
        "level_claimed": {"category": "model_checking", "text": r["text"], "design_ref": f"DESIGN.md §6 {pid}"},
        "level_note": r["note"],
        "technique": r["technique"],
    })

hooks_commits = []
hp = os.path.join(ROOT, "tools", "hook_commits.txt")
if os.path.exists(hp):
    hooks_commits = [l.split()[0] for l in open(hp) if l.strip() and not l.startswith("#")]

m = {
    "version": 1,
    "setup_cmd": "cd /verif && ./setup.sh",
    "hooks": {
        "guard": "--cfg apollo_rs_verif",
        "enable": "rustflags = [\"--cfg\", \"apollo_rs_verif\"] in /verif/harness/.cargo/config.toml (every ./check build); hooks are inert until a check installs a backend",
        "baseline_off_cmd": BASELINE,
        "source_commits": hooks_commits,
        "add_only": True,
    },
    "engines": [
        {"name": "E-INPUT", "path": "harness/vcore/src/enumerate.rs", "kind_free_text": "bounded exhaustive input enumeration (strings / token sequences / derivations / k-edit mutants) of the real entry points against reference models in harness/refmodel", "serves_properties": [c["property_id"] for c in checks if c["engine"] == "E-INPUT"]},
        {"name": "E-HIST", "path": "harness/checks/src", "kind_free_text": "explicit-state BFS over operation histories replayed on fresh real objects, canonical-state dedup, invariant/differential oracle per state", "serves_properties": [c["property_id"] for c in checks if c["engine"] == "E-HIST"]},
        {"name": "E-CHOICE", "path": "harness/checks/src", "kind_free_text": "stateless enumeration of every environment answer sequence (random provider answers, poll readiness, hash iteration order, thread interleavings via loom) with the real code run to completion on each", "serves_properties": [c["property_id"] for c in checks if c["engine"] == "E-CHOICE"]},
    ],
    "checks": checks,
    "not_applicable": na,
    "notes": "All checks: ./check <ID> rebuilds harness + apollo crates from /repo's working tree (cargo fingerprints) with --cfg apollo_rs_verif, release profile with debug assertions. Exit 0 held / 1 VIOLATION / 2 MACHINERY-ERROR. known_findings.json lists genuine defects (open: printed as KNOWN-FINDING; fixed: suppress nothing).",
}
json.dump(m, open(os.path.join(ROOT, "MANIFEST.json"), "w"), indent=1)
print(f"claimed={len(checks)} not_applicable={len(na)}")
