#!/bin/bash
# regenerates seeded/*/meta.json and the table between the SEEDED-TABLE markers of DESIGN.md
cd /verif
python3 tools/seedmeta.py > /tmp/seedtable.md || exit 1
python3 - <<'P'
s=open('/verif/DESIGN.md').read()
t=open('/tmp/seedtable.md').read()
a=s.index('<!-- SEEDED-TABLE-BEGIN -->')+len('<!-- SEEDED-TABLE-BEGIN -->')
b=s.index('<!-- SEEDED-TABLE-END -->')
s=s[:a]+"\n\n('first run' = the check as it was when the seed arrived; 'final checks' = tools/seedregress.sh against the checks as committed; r2, r3 = second and third round, whose authors were told what earlier rounds had produced.)\n\n"+t+"\n"+s[b:]
open('/verif/DESIGN.md','w').write(s)
P
