#!/bin/bash
# Run the repository's own suite (guard OFF) in DIR (default /repo); print totals; exit 1 on any failure.
DIR="${1:-/repo}"
cd "$DIR" || exit 2
unset RUSTFLAGS
out=$(cargo test --workspace --no-fail-fast --offline 2>&1)
echo "$out" | grep -E "^test result" | awk '{p+=$4; f+=$6} END {print "passed="p" failed="f}'
echo "$out" | grep -E "^test .* FAILED|^error(\[|:)|panicked at" | head -20
if echo "$out" | grep -qE "^test result: FAILED|^error(\[|:)"; then exit 1; fi
exit 0
