# rows for gen_manifest.py: row(id, built, engine, technique, level text, level note)
row("C03", True, "E-INPUT",
    "bounded exhaustive input enumeration vs reference lexer (model checking of the real lexer over all strings up to a length bound)",
    "Every string over five small character alphabets (general, numeric, quoted-string bodies, block-string bodies, punctuators) up to a length bound is lexed by the real Lexer; tiling, maximal munch at every token offset, accept/reject and token sequence are compared with an independent reference lexer. Exhaustive within the bound, so any lexer state-machine slip reachable with a short input is found.",
    "Trusted: refmodel::lex as a transcription of spec §2.1 (unit-tested on the spec examples); error re-synchronisation policy is not compared; inputs outside the alphabets/lengths are not covered.")
