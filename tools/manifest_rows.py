# rows for gen_manifest.py: row(id, built, engine, technique, level text, level note)
EI = "bounded exhaustive input enumeration (explicit-state exploration of every input up to a size bound, real code run on each)"

row("C01", True, "E-INPUT",
    EI + "; oracle: no panic / abort / timeout, in watchdog-supervised child processes with a 2 MiB stack",
    "Every string over the lexical alphabet up to a length bound, every token sequence up to a length bound, a parametric deep-nesting family and a grid of token/recursion limits is run through every parser entry point (Lexer, Parser::parse / parse_selection_set / parse_type, and the compiler's Document / Schema / ExecutableDocument / Type / FieldSet parse functions). Each execution happens under catch_unwind in a child process with a bounded stack and a wall-clock watchdog; any panic, abort, stack overflow or hang is a violation.",
    "Trusted: the watchdog and 2 MiB stack bound as the definition of 'overflow'/'hang'; recursion limits above the default are only combined with nesting <= 500. Inputs outside the alphabets / lengths are not covered.")

row("C02", True, "E-INPUT",
    EI + "; oracle: syntax-tree text == input, tokens tile the input on char boundaries",
    "Every string over the lexical alphabet up to a length bound, every token sequence up to a length bound, every string that uses a character which is white space for Unicode but not for GraphQL, every 1-token (thorough: 2-token) edit of 58 documents that together use every grammar production, and token sequences / a nesting family / edits of nested documents under recursion limits 0..=3 are parsed by the real parser; the concatenated token text of the tree must equal the input byte for byte, ranges must tile it, and every error index must be a char boundary inside it.",
    "Trusted: rowan's to_string/text_range. The token limit is never set (the statement's precondition). One open known finding (token after `[` in a type dropped) is predicted exactly by a classifier; any other loss is a violation.")

row("C03", True, "E-INPUT",
    "bounded exhaustive input enumeration vs reference lexer (model checking of the real lexer over all strings up to a length bound)",
    "Every string over six small character alphabets (general, numeric, quoted-string bodies, the four hex digits of a \\u escape, block-string bodies, punctuators) up to a length bound is lexed by the real Lexer; tiling, maximal munch at every token offset, accept/reject and token sequence are compared with an independent reference lexer. Exhaustive within the bound, so any lexer state-machine slip reachable with a short input is found.",
    "Trusted: refmodel::lex as a transcription of spec §2.1 (unit-tested on the spec examples); error re-synchronisation policy is not compared; inputs outside the alphabets/lengths are not covered.")

row("C04", True, "E-INPUT",
    EI + " x every limit value; oracle: reference item count and reference nesting depth",
    "For every string over the lexical alphabet up to a length bound: every token limit 0..K+1 (K = items of the unlimited stream) — error iff limit < K, the tokens before the limit equal the unlimited prefix, nothing is reported after the limit error. For a family of nested documents (selection sets, list/object values, list types, mixed): every recursion limit 0..depth+2 through the parser and the three compiler entry points — error iff reference depth > limit, high-water mark == min(depth, limit+1). History part (E-HIST): one compiler Parser value, every sequence of <= 3|4 calls over 28 (entry point, text) items x 2 recursion limits; after every call the reached figures must be those of that call.",
    "Trusted: the definition of a nesting level (DESIGN A.7) and refmodel::nest; K is cross-checked against the reference lexer on lexically valid inputs.")

row("C05", True, "E-INPUT",
    EI + "; oracle: reference recogniser for the appendix-B document grammar",
    "Every token sequence over a 42-symbol token alphabet up to a length bound, every sequence within k single-token edits of grammatical base documents (together using every production) and of boundary documents one step outside the grammar, each also with an ignored token inserted at each gap and with the separator between two neighbouring tokens removed at each gap, is parsed by the real parser. Acceptance (no errors) and the (kind, name) list of top-level definitions are compared with an independent recogniser.",
    "Trusted: refmodel::recognise as a transcription of the October 2021 grammar (unit-tested on spec examples and both sides of each boundary). Known findings are deviation switches of the recogniser (six fixed in /repo, one open: a root operation type without its type); only inputs whose disagreement the switch reproduces exactly are attributed to them.")

row("C06", True, "E-INPUT",
    EI + "; oracle: reference StringValue / BlockStringValue semantics",
    "Every quoted-string body and every block-string body over escape/indentation/line-terminator alphabets (and one of characters that are white space only for Unicode) up to a length bound that the reference lexer accepts as one StringValue is decoded by the real code at four sites (CST String→String conversion, ast value, description, directive argument); the result must equal the spec's StringValue / BlockStringValue() result and must never panic.",
    "Trusted: refmodel::strings (spec §2.9.4, nine BlockStringValue steps; unit-tested on the spec example). Surrogate escapes are lexical errors and not evaluated.")

row("C07", True, "E-INPUT",
    EI + "; oracle: reference 'input is exactly one Type / one selection set'",
    "Every (core construct, prefix token sequence, suffix token sequence) over a token alphabet with the stated length shapes is given to Parser::parse_type / ast::Type::parse and Parser::parse_selection_set / FieldSet::parse. Whenever the reference says the input is not exactly one construct, the real entry point must report at least one error.",
    "One-directional as the statement is; panics are C01's subject. FieldSet::parse runs against a fixture schema where every name resolves so only syntax can fail.")

row("C08", True, "E-INPUT",
    EI + " x 18 serializer configurations; oracle: parse(serialize(d)) == d and equals the generated mini-AST",
    "Every derivation of a generative grammar of GraphQL documents up to a size bound (all definition kinds, all value kinds, directives, descriptions, variable definitions, nested selections) plus every sequence of 1..3 menu definitions, plus two templates carrying every string of a menu (all strings <= 3|4 symbols over a 10-symbol alphabet, all paragraphs of 2..3|4 menu lines) at every kind of string site, is printed, parsed by ast::Document::parse and re-serialized under 18 serializer configurations (indentation on/off, prefixes, initial levels, Display, to_string of parts); the re-parsed AST must equal the original and the harness's own mini-AST projection.",
    "Inside grammar-derived documents strings are limited to two representatives (the string space proper is C09); lists have 1..2 elements; documents 1..3 definitions.")

row("C09", True, "E-INPUT",
    EI + " x 10 string sites x 5 configurations; oracle: value identity through serialize→parse",
    "Every string over an alphabet of quotes, backslash, controls (U+0000, U+0008, U+001F), DEL, U+2028, form feed, NEL (a two-byte C1 control), newlines, tab, spaces and letters up to a length bound is placed at 10 sites (string value, 8 description sites, deprecation reason) of programmatically built schemas/documents, serialized under 5 configurations and re-parsed; the recovered value must be identical.",
    "Decoding on the way back is apollo's own (its spec agreement is C06). A boundary family covers the 70-character block-string threshold.")

row("C10", True, "E-INPUT",
    EI + "; oracle: hand matchers for Name / IntValue / FloatValue / Type and conversion round trips",
    "Every string over name and numeric alphabets up to a length bound against Name::new / is_valid_syntax / serde and IntValue / FloatValue constructors and serde; an i32 and f64 lattice (thorough: every i32) through From, Display, try_to_i32 / try_to_f64 and a document parse; every type reference up to a nesting bound through Display, parse, serde, inner_named_type, item_type and the nullability wrappers.",
    "Trusted: Rust f64 Display/FromStr and serde_json. The *_unchecked constructors are outside the statement.")

row("C11", True, "E-INPUT",
    EI + " (separator / payload assignments with bounded deviations); oracle: reference line/column and name-span model",
    "For each base document and each undefined-name variant, every assignment of separators (spaces, tabs, BOM, commas, comments, every line-terminator form, VT/FF/NEL/LS/PS, multi-byte and astral characters) to token gaps and of texts to string tokens with at most k non-default choice points is parsed as Schema / ExecutableDocument. Every Name's span must cover exactly its text, every node's span must start at its first token, line_column / line_column_range at every char-boundary offset must equal the reference (LineTerminator = LF, CRLF, CR; column = 1 + scalar values), the line/column *range* of every node and name must equal the reference at both ends, and diagnostics' JSON positions must agree. Standalone part: Type::parse and FieldSet::parse over cores x leading / inner / trailing separators (a name at byte offset 0 must still be located).",
    "Names synthesised by apollo (implicit schema definition) are skipped. Commas at four look-ahead positions that the parser does not skip are kept out (C05's findings).")

row("C12", True, "E-HIST",
    "explicit-state breadth-first search over definition/extension histories replayed on fresh real SchemaBuilders, canonical-state dedup; oracle: serialize→parse identity including order",
    "Every sequence of up to max_depth items of a 26-item menu of type-system definitions and extensions (all six kinds, schema definition/extension, directives) is built into a Schema by the real builder; the schema is serialized, re-parsed and must be equal including the order of fields, values, members, interfaces, directives and extensions; Five themed focus menus (interface / object extensions carrying all component kinds, explicit schema roots next to default-named types, union / enum / input directives, descriptions at every site, redefined built-in directives) are explored one level deeper under the same oracle.",
    "The extension-order defect this check found is fixed in /repo (5db661e); its predictive classifier is inert.")

row("C13", True, "E-HIST",
    "explicit-state enumeration of histories x every split into sources x every relocation of a definition among its extensions, each replayed on a fresh real builder; differential oracle",
    "Every sequence of up to max_depth menu items (schema part) and executable items is built (a) as one source, (b) under every contiguous split into several sources added in order, (c) with each definition relocated among its own extensions, (d) with each extension that precedes the definition of its type moved behind it, and (a)-(d) again under SchemaBuilder::adopt_orphan_extensions(). Resulting schema / executable document and the multiset of diagnostic messages must agree.",
    "Diagnostics compared by message (locations legitimately differ). Relocations never jump over another definition. ignore_builtin_redefinitions mode not explored.")

row("C14", True, "E-INPUT",
    EI + " (mutation operators x sites over base schemas, tiny-scope schemas); oracle: reference type-system validator",
    "Every schema obtained from 10+ base schemas by each of 45 mutation operators at each site (thorough: pairs of mutations) and every schema of a tiny scope is validated by Schema::parse_and_validate; the verdict (valid / invalid) must equal that of an independent transcription of the spec §3 rules, and every reference rule must fire somewhere in the space.",
    "Trusted: refmodel::typesys (graphql-js is not installed). Three documented apollo choices are oracle parameters.")

row("C15", True, "E-INPUT",
    EI + " (C14's schema space) + E-HIST (every edit/validate sequence up to a depth bound on real Schema values); oracle: direct invariants on every accepted schema",
    "Every schema of C14's space that Schema::parse_and_validate accepts is checked against each invariant of the statement on the public fields of Valid<Schema>: every referenced type exists and has the right input/output kind, interface fields are present with covariant types and compatible arguments, union members are objects, root types are distinct objects, no type/field/argument/value name is duplicated or reserved, built-in scalars present iff referenced. History part: from four valid bases every sequence of <= 3|4 steps over 14 edits of the unwrapped schema (add/remove fields referencing each built-in scalar, an undefined type) and `validate` + into_inner; the schema accepted by the final validation is judged against the same invariants (schemas reached by mutating until they validate).",
    "Rides on C14's alphabet; IsValidImplementationFieldType is refmodel::compat.")

row("C16", True, "E-HIST",
    "explicit-state breadth-first search over validate / into_inner / mutate histories on real Schema and ExecutableDocument objects with canonical-state dedup; oracle: idempotence + reference built-in scalar set",
    "From each base schema, every history of up to max_depth operations (validate, unwrap, add a field / argument / input field / directive argument of each built-in scalar type, remove an added field, remove the base field) is executed on real objects; in every distinct state re-validation must leave the serialized schema, type order and diagnostics unchanged, and the set of built-in scalars present must equal the set referenced. 45 valid (schema, document) pairs are re-validated after unwrap with the same demand.",
    "The position at which a re-added scalar lands is C22's subject.")

row("C17", True, "E-INPUT",
    EI + " (mutation operators x sites over base (schema, document) pairs, tiny-scope operations); oracle: reference executable validator",
    "Every document obtained from base (schema, document) pairs by each of 60 mutation operators at each site and variant (thorough: pairs of mutations) and every operation of a tiny scope is validated by ExecutableDocument::parse_and_validate; the verdict must equal that of an independent transcription of the spec §5 rules.",
    "Trusted: refmodel::execval (135-row calibration table, spec examples). Open known findings are deviation switches; a failing case is attributed only if apollo's verdict equals the model's with exactly those switches on.")

row("C18", True, "E-INPUT",
    EI + " (C17's pair space); oracle: typing walk against a reference schema view + reference traversal for all_fields/root_fields",
    "For every pair of C17's space, valid or not: every selection set's type, every field's definition, every fragment's type condition and every operation's root type in the built ExecutableDocument must exist in (and equal) the schema's; all_fields()/root_fields() must equal a reference traversal; a validated document must contain no undefined variable/fragment.",
    "For invalid documents only what apollo kept is checked.")

row("C19", True, "E-INPUT",
    EI + " (C17's pair space + field sets x 3 configurations); oracle: round-trip identity",
    "Every valid pair of C17's space: serialize → parse → equal ExecutableDocument, also via to_ast → Document → to_executable; same for every FieldSet; plus one valid document carrying every string of a menu (all strings <= 3|4 symbols over a 10-symbol alphabet, paragraphs of 2..3|4 lines) at each of its string sites; under three serializer configurations.",
    "Equality is apollo's PartialEq (sources ignored).")

row("C20", True, "E-INPUT",
    EI + " (C17's pair space); oracle: standalone validation must accept whatever validates against a schema, and may only report schema-independent problems",
    "For every pair of C17's space: (a) if the document validates against its schema, ast::Document::validate_standalone_executable must accept it; (b) each diagnostic of a failing standalone validation must map to a problem that is an error under every schema and that the document has.",
    "The defect this check found (built-in directives undefined without a schema) is fixed in /repo (999115c).")

row("C21", True, "E-INPUT",
    EI + " (parametric adversarial families around every internal limit, single-token edits), child processes; oracle: no panic, limit diagnostics present, diagnostics sorted",
    "Eleven parametric families (nested selections, fragment chains and cycles, directive chains, input-object cycles, interface chains, deep values/types, wide documents, huge names…) at every size around each internal limit (32/100/128/500) plus every single-token edit of seed documents and every seed document cut after each token and ended by a lone CR are run through parse → build → validate → serialize → introspect → execute pipelines under catch_unwind in watchdog-supervised children; no panic/abort/hang, a recursion-limit diagnostic when the limit is exceeded, DiagnosticList sorted by location (also for a schema built from two source files with interleaving diagnostics), Display/Debug/JSON rendering total.",
    "Limit diagnostics demanded only for acyclic chains longer than the code's constant for that family.")

row("C22", True, "E-CHOICE",
    "exhaustive enumeration of hash-seed schedules (environment answers of the hash seam) with the real code run to completion on each, plus K fresh processes; oracle: byte-identical outputs",
    "Every workload (schemas that prune/re-add built-in scalars, documents with many diagnostics, several diagnostics at one location, adopted orphan extensions, introspection, smith generation) is run under every schedule of a family of per-instance hash seeds installed through ahash's RandomSource seam, so that every hash collection of apollo-compiler iterates in many different orders; type-map order, SDL, introspection JSON, diagnostics (text and JSON) and smith output must be byte-identical to schedule 0. The whole schema space of C14 and the (schema, document) space of C17 are additional workloads, each case under 5|9 per-thread seed schedules. Fresh processes with natural seeds are compared by digest (workloads and both spaces).",
    "Seam self-test asserts the installed source is actually consulted and changes iteration order. apollo-smith's std HashMap is varied only by the cross-process part.")

row("C23", True, "E-INPUT",
    EI + "; oracle: hand matcher for the five coordinate forms + linear-scan lookup",
    "Every string over coordinate alphabets up to a length bound against SchemaCoordinate / the five specific coordinate types' FromStr (accept iff one of the five forms with valid names; Display is the identity on accepted strings; parse∘Display identity on every constructed value); every coordinate over the name universe looked up in three schemas must find exactly the element a linear scan finds, or the right not-found error.",
    "Lookup schemas are three fixed valid schemas, not an enumeration.")

row("C24", True, "E-INPUT",
    EI + " (schema variations x 4 query variants); oracle: reference introspection (transcribed graphql-js)",
    "Every base schema and every listed variation (descriptions, deprecation, defaults of every type, interfaces, unions, enums, specifiedBy, repeatable directives, extensions) is introspected by the real introspection::partial_execute / execute under four query variants (full standard query, includeDeprecated on/off, __type lookups); the response must equal the reference response after normalising orders the statement leaves open.",
    "Trusted: refmodel::introspect (graphql-js not installed). One open known finding (defaultValue printed verbatim) is modelled by a switch.")

row("C25", True, "E-INPUT",
    EI + " (all introspection selections with fragments up to a node bound); oracle: depth of the fragment-expanded document",
    "Every introspection document built from nesting chains of the four list fields (fields, interfaces, possibleTypes, inputFields) and ofType, with up to 2 named fragments and inline fragments, spread at every position up to a node bound, is checked by the real introspection depth check; the verdict must equal the reference depth rule on the fully expanded document, and must be the same for a document and its inline expansion.",
    "Only the verdict is compared.")

row("C26", True, "E-INPUT",
    EI + " (operations x variable maps x resolver worlds with bounded deviations); oracle: reference executor (spec §6)",
    "Every generated valid operation × every coerced variable map × every resolver world with at most k non-default behaviours (resolver error, null, wrong shape, list item error/null, abstract type choice) is executed by the real execute_sync; data, error paths, null propagation, @skip/@include, fragment type conditions, field merging order, serial mutation and __typename must equal the reference executor's.",
    "Trusted: refmodel::exec (51 calibration cases + spec examples). Messages/locations not compared.")

row("C27", True, "E-CHOICE",
    "stateless exhaustive enumeration of every poll-readiness / wake-timing schedule of the real async executor under a controlled single-task executor; oracle: sync response + call log",
    "For every request within the bound, every assignment of {ready, pending + immediate wake, pending + deferred wake} to every poll of every resolver future and list-stream item (bounded pendings per future) drives the real execute_async to completion under a harness executor that polls only after a wake; the response must equal execute_sync's, every resolver is called at most once, a mutation root field starts only after the previous one completed, and a never-woken pending poll must be reported as a lost wake-up (no busy polling). The order of resolver calls AND of list-item production must equal the synchronous run's. Lists of 127..300 items at every list position, and requests with more choice points than the bound, are explored by deviation bound (every schedule with at most 1 | 2 non-default answers).",
    "Executor model: one task, no spurious polls.")

row("C28", True, "E-INPUT",
    EI + " (full product type x wrapper x default x JSON value); oracle: reference CoerceVariableValues",
    "The full product of named types (Int, Float, String, Boolean, ID, enum, input objects incl. nested/oneOf-free, custom scalar) × list/non-null wrappers × default values × a JSON value menu (and two-variable products) is coerced by the real coerce_variable_values; Ok/Err and the coerced map must equal the reference model.",
    "Trusted: refmodel::coerce. Two open known findings (defaults not coerced) are switches.")

row("C29", True, "E-INPUT",
    EI + " (all ordered type-reference pairs up to a nesting bound x defaults x positions); oracle: spec predicates",
    "Every ordered pair of type references up to a nesting bound: Type::is_assignable_to vs AreTypesCompatible; the variable-usage rule observed through validation of minimal documents vs IsVariableUsageAllowed (× variable default × location default); interface implementation field types observed through schema validation vs IsValidImplementationFieldType (× object/interface/union subtyping), also for an implementer of two interfaces that define the same field (every triple of references of nesting <= 1).",
    "Crate-private predicates are observed through verdicts of minimal documents in which every other rule holds by construction.")

row("C32", True, "E-INPUT",
    EI + " (all byte strings up to a length bound as the Unstructured entropy); oracle: generated document parses and validates; generation twice gives identical text",
    "Every byte string of length <= 2 over all 256 bytes, up to a larger bound over 6 representative bytes, every unit of <= 2|3 bytes repeated to 64..4096 bytes, and every all-zero input of 64|128 bytes with at most two bytes changed is fed as entropy to apollo-smith's DocumentBuilder in each mode (type-system, executable against base schemas); the generated text must parse and validate with the real compiler and a second generation from the same bytes must be identical.",
    "Base schemas stay inside what DocumentBuilder implements (no union/custom-scalar output fields; no self-referential input objects). arbitrary's IncorrectFormat counts as 'no document from this input'; documents beyond the parser's / validator's own recursion limits are not judged. Four fixed witness inputs form a regression family (three from an independent random search: two open findings, one fixed by 0b18ccc; one from a seeded change's demonstration: a depth-3 fragment spread chain); defects that need long specific inputs are outside the enumerated families.")

row("C33", True, "E-CHOICE",
    "stateless exhaustive enumeration of every RandomProvider answer sequence (complete tree, or all sequences with <= k deviations from the default answer) with the real ResponseBuilder run on each; oracle: shape checker + real execution",
    "For each (schema, operation) workload and builder configuration, every answer sequence of the RandomProvider seam (bool / index / length answers) is enumerated — the whole choice tree where small, otherwise every sequence with at most k non-default answers — and ResponseBuilder::build runs on each; the response must have exactly the operation's shape for the concrete types chosen (key sets, list nesting per declared type, null only where nullable, enum values from the enum, __typename consistent) and be accepted when served back through execute_sync.",
    "The nested-list defect this check found is fixed in /repo (546a0f9).")

row("C30", True, "E-HIST",
    "explicit-state breadth-first search over operation histories replayed on fresh real Name / Node objects, canonical-state dedup on a reference pool; oracle: reference counts, read-backs, sharing and allocator balance after every step",
    "Name machine: 3 name slots, 2 witness Arc<str>s, up to 2 held handles, 49 operations (new, new_static, from_arc_unchecked, try_from, clone, From<&Name>, drop, with_location x2, to_cloned_arc kept / dropped, From<Name> for Arc<str>, drop handle); breadth-first to depth 5|7 over canonical reference-pool states, every (state, enabled operation) replayed on fresh real objects. After every step: text, location, static/heap tag of every slot, Arc::strong_count of every backing string (= live heap names + live handles), sharing between slots, equality / ordering / hashing ignoring locations. Node machine: 3 Node<String> slots, 36 operations (new, new_parsed, from, clone, drop, make_mut + write, get_mut + write, same_location) to depth 6|9: value, location, ptr_eq == sharing class, get_mut().is_some() == uniquely owned, make_mut leaves clones untouched. At the end of every history everything is dropped: witness counts are 1 and the per-thread counting allocator is back at its baseline. Every representative name history of depth <= 3|4 is replayed under every assignment of its operations to two OS threads (values cross threads).",
    "The exploration runs in a worker process: a worker killed by a memory error is localised to a history (one child process per history) and reported as a violation. Interleavings inside Arc::clone / drop (std::sync::Arc, triomphe::Arc) are not intercepted: trusted base; the two-thread replays hand the pool over between operations. Memory errors are detected through counts, sharing and allocator balance, not by instrumenting loads.")
row("C31", True, "E-CHOICE",
    "loom (DPOR) exhaustive exploration of every interleaving of the real FileId::new on 2-4 threads through the cfg-guarded atomic seam (hook H1), unbounded and preemption-bounded; plus exhaustive enumeration of first-use orders of the lazily initialised statics (one fresh process per order) and of the id packing lattice",
    "Model A: the real FileId::new runs on 2-3 (thorough: up to 4) loom threads, 1-3 allocations each, with parser::NEXT backed by a loom atomic through hook H1; loom enumerates every interleaving (complete DPOR for the 2-thread and 3x1 models, preemption bound 2|3 otherwise), from the counter's initial value, from just below 2^63 (up to the wrap: all ids pairwise distinct, unreserved and untagged) and from closer to 2^63 than the number of allocations (across the wrap: no id tagged or reserved under every interleaving of the fetch / reset / retry path). Model B: loom threads each parse + validate + introspect against a shared Arc<Valid<Schema>>; every interleaving must give the sequential results. First-use order: every sequence of 1..2 distinct first operations (menu of 7: validate ordinary / hand-trimmed / scalar-free schemas, parse only, introspect, validate a document) is run in a fresh process each, followed by a fixed probe workload whose rendering must equal that of a process that runs the probe first (which call builds the lazily initialised tables is an environment choice). Packing: every id with <= 3 bits set below bit 63 and every run of ones (41.7 k ids; thorough adds complements and 4-bit combinations) is allocated by the real parser and observed through heap-tagged and static-tagged Names (location, as_static_str, to_cloned_arc, clone, equality).",
    "std OnceLock / Arc and triomphe::Arc internals are not intercepted (trusted base): model B warms every lazily initialised static up before exploring, so it decides interference through the id counter only; a free-running 8-thread first-use repetition is run as a labelled sampling supplement. FileId::reset (test-only) is not in the concurrent alphabet.")
