#!/bin/bash
# seedregress.sh [names...]: re-run the final checks against every confirmed seeded change
# (default: all of /verif/seeded). For each: apply patch.diff to a scratch worktree at /repo's HEAD,
# run the property's check (quick, then thorough if quick is silent) plus the cross-checks below
# through the development override, write seeded/<name>/regress.txt. /repo is not touched.
set -u
WT=${SEED_WT:-/tmp/confirm-wt}; VT=${SEED_VT:-/tmp/seed-vt}; OUT=${SEED_OUT:-/tmp/seed-out}
declare -A EXTRA=( [C15-m2]="C16" [C18-m2]="C17" [C08-m1]="C09" [C17-r2m2]="C29" [C08-r2m1]="C09" [C08-r2m2]="C09" [C19-r2m2]="C09" )
export CARGO_NET_OFFLINE=true
[ -d $WT ] || git -C /repo worktree add --detach $WT HEAD >/dev/null 2>&1
names="$*"; [ -z "$names" ] && names=$(ls /verif/seeded)
for name in $names; do
  d=/verif/seeded/$name; [ -f $d/patch.diff ] || continue
  grep -q "CONFIRMED=1" $d/eval.txt 2>/dev/null || continue
  prop=${name%%-*}
  R=$d/regress.txt; : > $R
  git -C $WT checkout -q --detach $(git -C /repo rev-parse HEAD); git -C $WT checkout -q -- . ; git -C $WT clean -fdq
  echo "regress against /repo $(git -C /repo rev-parse --short HEAD), /verif $(git -C /verif rev-parse --short HEAD)" >> $R
  if ! git -C $WT apply $d/patch.diff 2>>$R; then echo "PATCH-DOES-NOT-APPLY (the repository changed under it)" | tee -a $R; continue; fi
  key=${name%x}
  for id in $prop ${EXTRA[$key]:-}; do
    for tier in quick thorough; do
      s=$(date +%s)
      VERIF_REPO_OVERRIDE=$WT VERIF_TARGET_DIR=$VT VERIF_OUT_DIR=$OUT /verif/check $id --tier $tier > $OUT/seedregress-$id-$tier.log 2>&1; rc=$?
      e=$(date +%s)
      echo "check $id $tier: exit $rc ($((e-s)) s)" | tee -a $R
      grep -E "^VIOLATION|violation-class|^MACHINERY" $OUT/seedregress-$id-$tier.log | head -4 | cut -c1-500 >> $R
      [ $rc -ne 0 ] && break
    done
  done
  git -C $WT checkout -q -- . ; git -C $WT clean -fdq
  echo "$name: $(grep -E '^check' $R | tr '\n' ';')"
done
