#!/bin/bash
# MANIFEST.setup_cmd: build the whole framework offline from files on disk.
set -e
export CARGO_NET_OFFLINE=true
unset RUSTFLAGS CARGO_ENCODED_RUSTFLAGS CARGO_BUILD_RUSTFLAGS CARGO_TARGET_DIR
cd /verif/harness
cargo build --release --offline -p checks --bins
if [ -d /verif/harness/loomcheck ]; then
  (cd /verif/harness/loomcheck && cargo build --release --offline)
fi
