//! Shared machinery of the checks: argument handling, deterministic index-sharded
//! exhaustive sweeps, statistics, known-findings, evidence and replay files.
//!
//! Contract with MANIFEST.json (see DESIGN.md §2):
//!   exit 0  property held on everything explored (known findings are printed as
//!           `KNOWN-FINDING: property=<id> <what fails>`),
//!   exit 1  `VIOLATION property=<id> replay=<path>` was printed,
//!   exit 2  `MACHINERY-ERROR ...` (never a verdict).

use rayon::prelude::*;
use serde_json::{json, Value};
use std::collections::BTreeMap;
use std::path::{Path, PathBuf};
use std::time::Instant;

pub mod enumerate;

pub const VERIF_ROOT: &str = "/verif";

#[derive(Clone, Copy, PartialEq, Eq, Debug)]
pub enum Tier {
    Quick,
    Thorough,
}

impl Tier {
    pub fn name(self) -> &'static str {
        match self {
            Tier::Quick => "quick",
            Tier::Thorough => "thorough",
        }
    }
    /// Pick a bound by tier.
    pub fn pick<T>(self, quick: T, thorough: T) -> T {
        match self {
            Tier::Quick => quick,
            Tier::Thorough => thorough,
        }
    }
}

#[derive(Clone, Debug)]
pub struct Args {
    pub tier: Tier,
    pub replay: Option<PathBuf>,
    pub seed: i64,
    /// free-form extra arguments (`--shard i/n`, `--child`, ...)
    pub rest: Vec<String>,
}

pub fn parse_args() -> Args {
    let mut tier = match std::env::var("VERIF_TIER").ok().as_deref() {
        Some("thorough") => Tier::Thorough,
        _ => Tier::Quick,
    };
    let seed = std::env::var("VERIF_SEED")
        .ok()
        .and_then(|s| s.parse::<i64>().ok())
        .unwrap_or(0);
    let mut replay = None;
    let mut rest = Vec::new();
    let mut it = std::env::args().skip(1);
    while let Some(a) = it.next() {
        match a.as_str() {
            "--tier" => match it.next().as_deref() {
                Some("quick") => tier = Tier::Quick,
                Some("thorough") => tier = Tier::Thorough,
                other => machinery_error(&format!("bad --tier {other:?}")),
            },
            "--replay" => match it.next() {
                Some(p) => replay = Some(PathBuf::from(p)),
                None => machinery_error("--replay needs a path"),
            },
            _ => rest.push(a),
        }
    }
    Args {
        tier,
        replay,
        seed,
        rest,
    }
}

pub fn machinery_error(msg: &str) -> ! {
    println!("MACHINERY-ERROR {msg}");
    eprintln!("MACHINERY-ERROR {msg}");
    std::process::exit(2)
}

// ---------------------------------------------------------------------------------
// Known findings
// ---------------------------------------------------------------------------------

/// `/verif/known_findings.json`: committed, never written at run time.
/// `{"findings":[{"property":"C17","id":"C17-x","status":"open"|"fixed", "what":"...", ...}]}`
#[derive(Clone, Debug, Default)]
pub struct KnownFindings {
    /// id -> human description, for entries of this property with status "open"
    pub open: BTreeMap<String, String>,
    /// ids with status "fixed" (suppress nothing; used only for notes)
    pub fixed: BTreeMap<String, String>,
}

impl KnownFindings {
    pub fn load(property: &str) -> KnownFindings {
        let path = Path::new(VERIF_ROOT).join("known_findings.json");
        let mut kf = KnownFindings::default();
        let Ok(text) = std::fs::read_to_string(&path) else {
            return kf;
        };
        let v: Value = match serde_json::from_str(&text) {
            Ok(v) => v,
            Err(e) => machinery_error(&format!("known_findings.json does not parse: {e}")),
        };
        for f in v["findings"].as_array().cloned().unwrap_or_default() {
            if f["property"].as_str() != Some(property) {
                continue;
            }
            let id = f["id"].as_str().unwrap_or("").to_string();
            let what = f["what"].as_str().unwrap_or("").to_string();
            match f["status"].as_str() {
                Some("open") => {
                    kf.open.insert(id, what);
                }
                Some("fixed") => {
                    kf.fixed.insert(id, what);
                }
                _ => {}
            }
        }
        kf
    }
    /// A deviation switch / classifier is active only if its finding is listed as open.
    pub fn is_open(&self, id: &str) -> bool {
        self.open.contains_key(id)
    }
}

// ---------------------------------------------------------------------------------
// Per-case outcome and mergeable statistics
// ---------------------------------------------------------------------------------

#[derive(Clone, Debug)]
pub struct Failure {
    /// Failures are grouped by signature; per signature the smallest case is kept.
    pub signature: String,
    /// Self-contained description of the case; written to the replay file.
    pub case: Value,
    pub detail: String,
    /// Ordering key for "smallest" (length first, then text).
    pub size: u64,
}

#[derive(Clone, Debug, Default)]
pub struct Stats {
    /// distinct cases explored (inputs / histories / schedules)
    pub states: u64,
    /// executions of real code
    pub transitions: u64,
    /// distinct non-trivial cases by the check's stated rule
    pub nontrivial: u64,
    /// outcome label -> count (vacuity detector: one label from many runs means nothing collided)
    pub outcomes: BTreeMap<String, u64>,
    /// per signature: (count, smallest failure)
    pub failures: BTreeMap<String, (u64, Failure)>,
    /// known finding id -> (count, smallest witness text, size)
    pub known: BTreeMap<String, (u64, String, u64)>,
    /// a few explored cases written out
    pub samples: Vec<Value>,
    /// free counters
    pub counters: BTreeMap<String, u64>,
}

pub const MAX_SAMPLES: usize = 12;

impl Stats {
    pub fn outcome(&mut self, label: &str) {
        *self.outcomes.entry(label.to_string()).or_insert(0) += 1;
    }
    pub fn count(&mut self, label: &str, n: u64) {
        *self.counters.entry(label.to_string()).or_insert(0) += n;
    }
    pub fn sample(&mut self, v: Value) {
        if self.samples.len() < MAX_SAMPLES {
            self.samples.push(v);
        }
    }
    pub fn fail(&mut self, f: Failure) {
        match self.failures.get_mut(&f.signature) {
            Some((n, old)) => {
                *n += 1;
                if (f.size, f.case.to_string()) < (old.size, old.case.to_string()) {
                    *old = f;
                }
            }
            None => {
                self.failures.insert(f.signature.clone(), (1, f));
            }
        }
    }
    pub fn fail_simple(&mut self, signature: &str, case: Value, detail: String, size: u64) {
        self.fail(Failure {
            signature: signature.to_string(),
            case,
            detail,
            size,
        })
    }
    pub fn known(&mut self, id: &str, witness: &str) {
        let size = witness.len() as u64;
        match self.known.get_mut(id) {
            Some((n, w, s)) => {
                *n += 1;
                if (size, witness) < (*s, w.as_str()) {
                    *w = witness.to_string();
                    *s = size;
                }
            }
            None => {
                self.known.insert(id.to_string(), (1, witness.to_string(), size));
            }
        }
    }
    pub fn merge(mut self, other: Stats) -> Stats {
        self.states += other.states;
        self.transitions += other.transitions;
        self.nontrivial += other.nontrivial;
        for (k, v) in other.outcomes {
            *self.outcomes.entry(k).or_insert(0) += v;
        }
        for (k, v) in other.counters {
            *self.counters.entry(k).or_insert(0) += v;
        }
        for (_, (n, f)) in other.failures {
            match self.failures.get_mut(&f.signature) {
                Some((m, old)) => {
                    *m += n;
                    if (f.size, f.case.to_string()) < (old.size, old.case.to_string()) {
                        *old = f;
                    }
                }
                None => {
                    self.failures.insert(f.signature.clone(), (n, f));
                }
            }
        }
        for (k, (n, w, s)) in other.known {
            match self.known.get_mut(&k) {
                Some((m, ow, os)) => {
                    *m += n;
                    if (s, w.as_str()) < (*os, ow.as_str()) {
                        *ow = w;
                        *os = s;
                    }
                }
                None => {
                    self.known.insert(k, (n, w, s));
                }
            }
        }
        for s in other.samples {
            if self.samples.len() < MAX_SAMPLES {
                self.samples.push(s);
            }
        }
        self
    }
}

/// Deterministic parallel sweep over the index range `0..n`: the range is cut into fixed
/// chunks, each chunk is explored into its own `Stats`, and the chunk results are merged in
/// index order, so counts, samples and the retained counter-examples do not depend on the
/// number of cores or on scheduling.
pub fn par_sweep<F>(n: u64, chunk: u64, f: F) -> Stats
where
    F: Fn(u64, &mut Stats) + Sync,
{
    let chunk = chunk.max(1);
    let nchunks = n.div_ceil(chunk);
    let parts: Vec<Stats> = (0..nchunks)
        .into_par_iter()
        .map(|c| {
            let mut st = Stats::default();
            let lo = c * chunk;
            let hi = (lo + chunk).min(n);
            for i in lo..hi {
                f(i, &mut st);
            }
            st
        })
        .collect();
    parts.into_iter().fold(Stats::default(), Stats::merge)
}

/// Same, over a slice of prepared work items.
pub fn par_items<T: Sync, F>(items: &[T], f: F) -> Stats
where
    F: Fn(&T, &mut Stats) + Sync,
{
    let parts: Vec<Stats> = items
        .par_iter()
        .map(|it| {
            let mut st = Stats::default();
            f(it, &mut st);
            st
        })
        .collect();
    parts.into_iter().fold(Stats::default(), Stats::merge)
}

/// Run `f` catching panics; the panic message is returned as `Err`.
pub fn catch<R>(f: impl FnOnce() -> R) -> Result<R, String> {
    match std::panic::catch_unwind(std::panic::AssertUnwindSafe(f)) {
        Ok(r) => Ok(r),
        Err(e) => Err(if let Some(s) = e.downcast_ref::<&str>() {
            s.to_string()
        } else if let Some(s) = e.downcast_ref::<String>() {
            s.clone()
        } else {
            "non-string panic payload".to_string()
        }),
    }
}

/// Silence the default panic hook (sweeps that expect panics would otherwise flood stderr).
pub fn quiet_panics() {
    std::panic::set_hook(Box::new(|_| {}));
}

// ---------------------------------------------------------------------------------
// The check driver
// ---------------------------------------------------------------------------------

pub struct Check {
    pub property: &'static str,
    pub args: Args,
    pub known: KnownFindings,
    pub start: Instant,
    pub stats: Stats,
    pub exhaustive: bool,
    pub bounds: Value,
    pub rule: String,
    pub assumptions: Vec<String>,
    pub notes: Vec<String>,
}

impl Check {
    pub fn new(property: &'static str) -> Check {
        let args = parse_args();
        Check {
            property,
            known: KnownFindings::load(property),
            args,
            start: Instant::now(),
            stats: Stats::default(),
            exhaustive: true,
            bounds: json!({}),
            rule: String::new(),
            assumptions: Vec::new(),
            notes: Vec::new(),
        }
    }
    pub fn tier(&self) -> Tier {
        self.args.tier
    }
    pub fn absorb(&mut self, s: Stats) {
        let cur = std::mem::take(&mut self.stats);
        self.stats = cur.merge(s);
    }
    pub fn note(&mut self, s: impl Into<String>) {
        let s = s.into();
        println!("NOTE {s}");
        self.notes.push(s);
    }

    /// Handle `--replay <file>`: returns the case stored in the file, if replay was requested.
    pub fn replay_case(&self) -> Option<Value> {
        let p = self.args.replay.as_ref()?;
        let text = std::fs::read_to_string(p)
            .unwrap_or_else(|e| machinery_error(&format!("cannot read replay {p:?}: {e}")));
        let v: Value = serde_json::from_str(&text)
            .unwrap_or_else(|e| machinery_error(&format!("replay {p:?} does not parse: {e}")));
        if v["property"].as_str() != Some(self.property) {
            machinery_error(&format!(
                "replay file is for property {:?}, this is {}",
                v["property"], self.property
            ));
        }
        Some(v["case"].clone())
    }

    /// Finish a replay run: `stats` holds the outcome of the single case.
    pub fn finish_replay(self) -> ! {
        if self.stats.failures.is_empty() {
            println!(
                "REPLAY property={} result=pass known={:?}",
                self.property,
                self.stats.known.keys().collect::<Vec<_>>()
            );
            std::process::exit(0)
        }
        for (sig, (_, f)) in &self.stats.failures {
            println!(
                "REPLAY property={} result=violation signature={sig} detail={}",
                self.property, f.detail
            );
        }
        std::process::exit(1)
    }

    /// Write evidence and replay files, print the verdict lines, exit.
    ///
    /// `confirm` re-runs one failing case (from its stored `case`) and returns whether it still
    /// fails; every failure is confirmed twice before it is reported (DESIGN §2.1) — a failure
    /// that does not reproduce is a machinery error, never a verdict.
    pub fn finish(self, confirm: &dyn Fn(&Value) -> bool) -> ! {
        let wall = self.start.elapsed().as_secs_f64();
        let prop = self.property;
        let mut replay_paths = Vec::new();
        // VERIF_OUT_DIR: development only (mutant trials must not overwrite the committed evidence)
        let out_root = std::env::var("VERIF_OUT_DIR").map(PathBuf::from).unwrap_or_else(|_| PathBuf::from(VERIF_ROOT));
        let dir = out_root.join("replays").join(prop);
        if !self.stats.failures.is_empty() {
            let _ = std::fs::create_dir_all(&dir);
        }
        let mut flaky = Vec::new();
        for (i, (sig, (n, f))) in self.stats.failures.iter().enumerate() {
            let a = confirm(&f.case);
            let b = confirm(&f.case);
            if !(a && b) {
                flaky.push(sig.clone());
                continue;
            }
            let path = dir.join(format!("{}-{:02}.json", self.args.tier.name(), i));
            let doc = json!({
                "property": prop,
                "signature": sig,
                "count": n,
                "detail": f.detail,
                "case": f.case,
            });
            std::fs::write(&path, serde_json::to_string_pretty(&doc).unwrap())
                .unwrap_or_else(|e| machinery_error(&format!("cannot write replay: {e}")));
            replay_paths.push((sig.clone(), *n, f.detail.clone(), path));
        }

        let distinct_outcomes = self.stats.outcomes.len();
        let known_json: Vec<Value> = self
            .stats
            .known
            .iter()
            .map(|(id, (n, w, _))| json!({"id": id, "cases": n, "smallest_witness": w}))
            .collect();
        let viol_json: Vec<Value> = replay_paths
            .iter()
            .map(|(sig, n, d, p)| json!({"signature": sig, "cases": n, "detail": d, "replay": p}))
            .collect();
        let mut samples = self.stats.samples.clone();
        if samples.is_empty() {
            samples.push(json!("(no sample recorded)"));
        }
        let evidence = json!({
            "property_id": prop,
            "tier": self.args.tier.name(),
            "seed": self.args.seed,
            "level": "model_checking",
            "coverage": {
                "states": self.stats.states.max(1),
                "transitions": self.stats.transitions.max(1),
                "traces_validated_against_impl": self.stats.transitions,
                "evaluations": self.stats.transitions.max(1),
                "distinct_nontrivial": self.stats.nontrivial,
                "rule": self.rule,
                "samples": samples,
                "exhaustive": self.exhaustive,
                "bounds": self.bounds,
                "distinct_outcomes": distinct_outcomes,
                "outcomes": self.stats.outcomes,
                "counters": self.stats.counters,
                "known_findings_witnessed": known_json,
                "violation_classes": viol_json,
                "notes": self.notes,
            },
            "assumptions": self.assumptions,
            "wall_s": (wall * 1000.0).round() / 1000.0,
            "violations": replay_paths.len(),
        });
        let evdir = out_root.join("evidence");
        let _ = std::fs::create_dir_all(&evdir);
        let evpath = evdir.join(format!("{prop}.json"));
        std::fs::write(&evpath, serde_json::to_string_pretty(&evidence).unwrap() + "\n")
            .unwrap_or_else(|e| machinery_error(&format!("cannot write evidence: {e}")));

        println!(
            "SUMMARY property={prop} tier={} states={} transitions={} nontrivial={} outcomes={} exhaustive={} wall_s={:.1}",
            self.args.tier.name(),
            self.stats.states,
            self.stats.transitions,
            self.stats.nontrivial,
            distinct_outcomes,
            self.exhaustive,
            wall
        );
        for (k, v) in &self.stats.outcomes {
            println!("  outcome {k}: {v}");
        }
        for (k, v) in &self.stats.counters {
            println!("  counter {k}: {v}");
        }
        for (id, (n, w, _)) in &self.stats.known {
            let what = self.known.open.get(id).cloned().unwrap_or_default();
            println!("KNOWN-FINDING: property={prop} {id}: {what} [{n} cases, smallest witness: {w:?}]");
        }
        for id in self.known.open.keys() {
            if !self.stats.known.contains_key(id) {
                println!("NOTE stale-finding property={prop} {id} was listed but not witnessed in this run");
            }
        }
        if !flaky.is_empty() {
            machinery_error(&format!(
                "failures did not reproduce on re-execution (nondeterminism in the harness): {flaky:?}"
            ));
        }
        if replay_paths.is_empty() {
            std::process::exit(0)
        }
        for (sig, n, d, p) in &replay_paths {
            println!("  violation-class {sig} ({n} cases): {d}");
            println!("VIOLATION property={prop} replay={}", p.display());
        }
        std::process::exit(1)
    }
}

/// Truncate long strings for messages.
pub fn short(s: &str) -> String {
    if s.chars().count() <= 200 {
        s.to_string()
    } else {
        let t: String = s.chars().take(200).collect();
        format!("{t}…[{} bytes]", s.len())
    }
}
