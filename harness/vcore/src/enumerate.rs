//! E-INPUT enumerators: every sequence over a finite alphabet up to a length bound, addressed
//! by index (length first, then lexicographic in alphabet order) so that sweeps can be
//! index-sharded deterministically.

/// Number of sequences of length `0..=max_len` over `k` symbols.
pub fn count_upto(k: u64, max_len: u32) -> u64 {
    let mut total = 0u64;
    let mut p = 1u64;
    for _ in 0..=max_len {
        total = total.checked_add(p).expect("sequence space overflows u64");
        p = p.checked_mul(k).unwrap_or(u64::MAX / 2);
    }
    total
}

/// Number of sequences of exactly `len` symbols.
pub fn count_exact(k: u64, len: u32) -> u64 {
    k.checked_pow(len).expect("sequence space overflows u64")
}

/// The `idx`-th sequence (as symbol indices) in length-then-lexicographic order.
pub fn nth_upto(k: u64, mut idx: u64, out: &mut Vec<usize>) {
    out.clear();
    let mut len = 0u32;
    let mut p = 1u64;
    while idx >= p {
        idx -= p;
        p *= k;
        len += 1;
    }
    out.resize(len as usize, 0);
    for pos in (0..len as usize).rev() {
        out[pos] = (idx % k) as usize;
        idx /= k;
    }
}

/// The `idx`-th sequence of exactly `len` symbols.
pub fn nth_exact(k: u64, len: u32, mut idx: u64, out: &mut Vec<usize>) {
    out.clear();
    out.resize(len as usize, 0);
    for pos in (0..len as usize).rev() {
        out[pos] = (idx % k) as usize;
        idx /= k;
    }
}

/// Concatenate the chosen symbols.
pub fn render(alphabet: &[&str], seq: &[usize], out: &mut String) {
    out.clear();
    for &i in seq {
        out.push_str(alphabet[i]);
    }
}

/// Join the chosen symbols with a separator.
pub fn render_sep(alphabet: &[&str], seq: &[usize], sep: &str, out: &mut String) {
    out.clear();
    for (n, &i) in seq.iter().enumerate() {
        if n > 0 {
            out.push_str(sep);
        }
        out.push_str(alphabet[i]);
    }
}

/// All permutations of `0..n` in lexicographic order.
pub fn permutations(n: usize) -> Vec<Vec<usize>> {
    fn rec(cur: &mut Vec<usize>, used: &mut Vec<bool>, n: usize, out: &mut Vec<Vec<usize>>) {
        if cur.len() == n {
            out.push(cur.clone());
            return;
        }
        for i in 0..n {
            if !used[i] {
                used[i] = true;
                cur.push(i);
                rec(cur, used, n, out);
                cur.pop();
                used[i] = false;
            }
        }
    }
    let mut out = Vec::new();
    rec(&mut Vec::new(), &mut vec![false; n], n, &mut out);
    out
}

#[cfg(test)]
mod tests {
    use super::*;
    #[test]
    fn order_and_count() {
        assert_eq!(count_upto(2, 2), 7);
        let mut v = Vec::new();
        let all: Vec<Vec<usize>> = (0..7)
            .map(|i| {
                nth_upto(2, i, &mut v);
                v.clone()
            })
            .collect();
        assert_eq!(
            all,
            vec![
                vec![],
                vec![0],
                vec![1],
                vec![0, 0],
                vec![0, 1],
                vec![1, 0],
                vec![1, 1]
            ]
        );
        assert_eq!(permutations(3).len(), 6);
    }
}
