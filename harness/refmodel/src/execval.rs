//! Reference executable-document validator (DESIGN.md §6 C17, appendix A.4).
//!
//! One function per graphql-js v16 `specifiedRules` rule, transcribed from the October 2021
//! specification §5.1–§5.8, over the harness's own mini-AST. Written "boring": quadratic where
//! the specification is quadratic (`OverlappingFieldsCanBeMerged` is the pairwise
//! `FieldsInSetCanMerge` + `SameResponseShape`), no caches, no shared code with apollo.
//!
//! Self-contained: the schema view (extension merging, built-in scalars / directives,
//! introspection types and meta-fields, possible types) and the small text reader used to
//! write tables as text (`text`) live in this file.
//!
//! Documented apollo-compiler differences are explicit parameters (`Params`); the genuine
//! defects of the pinned tree are *deviation switches* (`Deviations`, DESIGN §2.2), all off by
//! default; each records in `Report::fired` whether it changed a sub-decision.

use crate::ast::*;
use std::collections::{BTreeMap, BTreeSet};

// =================================================================================
// Parameters, deviation switches, results
// =================================================================================

/// `C17-list-arg-length`: argument equality for field merging compares list values over their
/// common prefix only (`same_value` zips).
pub const DEV_LIST_PREFIX: u32 = 1 << 0;
/// `C17-subscription-counts-selections`: a subscription is rejected when it has more than one
/// root field *selection* (fragments entered once), not more than one response key.
pub const DEV_SUBSCRIPTION_SELECTIONS: u32 = 1 << 1;
/// `C17-duplicate-input-fields-unchecked`: no `UniqueInputFieldNames`; of several same-named
/// fields of an input-object literal only the first is looked at.
pub const DEV_DUP_INPUT_FIELDS: u32 = 1 << 2;
/// `C17-nested-variable-position-by-named-type`: a variable inside a list / object literal is
/// accepted iff its inner named type equals the inner named type of the position.
pub const DEV_NESTED_VARIABLE: u32 = 1 << 3;
/// `C17-null-default-counts-as-default`: `$v: T = null` counts as having a non-null default.
pub const DEV_NULL_DEFAULT: u32 = 1 << 4;
/// `C17-variable-in-custom-scalar-object-unchecked`: a variable inside an object literal given
/// for a custom scalar is never looked up (undefined variables there go unnoticed).
pub const DEV_SCALAR_OBJECT_VARIABLE: u32 = 1 << 5;

pub const ALL_DEVIATIONS: &[(u32, &str)] = &[
    (DEV_LIST_PREFIX, "C17-list-arg-length"),
    (DEV_SUBSCRIPTION_SELECTIONS, "C17-subscription-counts-selections"),
    (DEV_DUP_INPUT_FIELDS, "C17-duplicate-input-fields-unchecked"),
    (DEV_NESTED_VARIABLE, "C17-nested-variable-position-by-named-type"),
    (DEV_NULL_DEFAULT, "C17-null-default-counts-as-default"),
    (DEV_SCALAR_OBJECT_VARIABLE, "C17-variable-in-custom-scalar-object-unchecked"),
];

#[derive(Debug, Clone, Copy, PartialEq, Eq)]
pub struct Params {
    /// apollo: an operation whose root operation type is not defined by the schema is an error.
    pub undefined_root_type_is_error: bool,
    /// apollo: `@skip` / `@include` on a root-level selection of a subscription is an error.
    pub subscription_root_conditionals_are_error: bool,
    /// bit set of `DEV_*`
    pub deviations: u32,
}

impl Default for Params {
    fn default() -> Self {
        Params {
            undefined_root_type_is_error: true,
            subscription_root_conditionals_are_error: true,
            deviations: 0,
        }
    }
}

impl Params {
    pub fn with_deviations(mask: u32) -> Params {
        Params { deviations: mask, ..Params::default() }
    }
    fn dev(&self, bit: u32) -> bool {
        self.deviations & bit != 0
    }
}

#[derive(Debug, Clone, PartialEq, Eq, PartialOrd, Ord)]
pub struct Violation {
    pub rule: &'static str,
    pub subject: String,
}

#[derive(Debug, Clone, Default)]
pub struct Report {
    pub violations: Vec<Violation>,
    /// deviation switches that changed at least one sub-decision on this document
    pub fired: u32,
}

impl Report {
    pub fn is_valid(&self) -> bool {
        self.violations.is_empty()
    }
    /// sorted, de-duplicated rule names
    pub fn rules(&self) -> Vec<&'static str> {
        let s: BTreeSet<&'static str> = self.violations.iter().map(|v| v.rule).collect();
        s.into_iter().collect()
    }
}

pub const RULES: &[&str] = &[
    "ExecutableDefinitions",
    "UniqueOperationNames",
    "LoneAnonymousOperation",
    "SingleFieldSubscriptions",
    "KnownTypeNames",
    "FragmentsOnCompositeTypes",
    "VariablesAreInputTypes",
    "ScalarLeafs",
    "FieldsOnCorrectType",
    "UniqueFragmentNames",
    "KnownFragmentNames",
    "NoUnusedFragments",
    "PossibleFragmentSpreads",
    "NoFragmentCycles",
    "UniqueVariableNames",
    "NoUndefinedVariables",
    "NoUnusedVariables",
    "KnownDirectives",
    "UniqueDirectivesPerLocation",
    "KnownArgumentNames",
    "UniqueArgumentNames",
    "ValuesOfCorrectType",
    "ProvidedRequiredArguments",
    "VariablesInAllowedPosition",
    "OverlappingFieldsCanBeMerged",
    "UniqueInputFieldNames",
];
/// the two parameterised apollo differences are reported under their own names
pub const RULE_UNDEFINED_ROOT: &str = "UndefinedRootOperationType";
pub const RULE_SUBSCRIPTION_CONDITIONAL: &str = "SubscriptionRootConditional";

// =================================================================================
// Schema view
// =================================================================================

pub const BUILTIN_SDL: &str = r#"
scalar Int
scalar Float
scalar String
scalar Boolean
scalar ID
directive @skip(if: Boolean!) on FIELD | FRAGMENT_SPREAD | INLINE_FRAGMENT
directive @include(if: Boolean!) on FIELD | FRAGMENT_SPREAD | INLINE_FRAGMENT
directive @deprecated(reason: String = "No longer supported") on FIELD_DEFINITION | ARGUMENT_DEFINITION | INPUT_FIELD_DEFINITION | ENUM_VALUE
directive @specifiedBy(url: String!) on SCALAR
type __Schema { description: String types: [__Type!]! queryType: __Type! mutationType: __Type subscriptionType: __Type directives: [__Directive!]! }
type __Type { kind: __TypeKind! name: String description: String fields(includeDeprecated: Boolean = false): [__Field!] interfaces: [__Type!] possibleTypes: [__Type!] enumValues(includeDeprecated: Boolean = false): [__EnumValue!] inputFields(includeDeprecated: Boolean = false): [__InputValue!] ofType: __Type specifiedByURL: String }
enum __TypeKind { SCALAR OBJECT INTERFACE UNION ENUM INPUT_OBJECT LIST NON_NULL }
type __Field { name: String! description: String args(includeDeprecated: Boolean = false): [__InputValue!]! type: __Type! isDeprecated: Boolean! deprecationReason: String }
type __InputValue { name: String! description: String type: __Type! defaultValue: String isDeprecated: Boolean! deprecationReason: String }
type __EnumValue { name: String! description: String isDeprecated: Boolean! deprecationReason: String }
type __Directive { name: String! description: String locations: [__DirectiveLocation!]! args(includeDeprecated: Boolean = false): [__InputValue!]! isRepeatable: Boolean! }
enum __DirectiveLocation { QUERY MUTATION SUBSCRIPTION FIELD FRAGMENT_DEFINITION FRAGMENT_SPREAD INLINE_FRAGMENT VARIABLE_DEFINITION SCHEMA SCALAR OBJECT FIELD_DEFINITION ARGUMENT_DEFINITION INTERFACE UNION ENUM ENUM_VALUE INPUT_OBJECT INPUT_FIELD_DEFINITION }
"#;

#[derive(Debug, Clone)]
pub struct TypeInfo {
    pub name: Name,
    pub kind: TypeKind,
    pub builtin: bool,
    pub implements: Vec<Name>,
    pub fields: Vec<FieldDef>,
    pub members: Vec<Name>,
    pub values: Vec<Name>,
    pub input_fields: Vec<InputValueDef>,
}

/// What the validator needs to know about a (valid) schema: definitions merged with their
/// extensions, plus the built-in scalars, directives and introspection types.
#[derive(Debug, Clone)]
pub struct SchemaView {
    pub types: BTreeMap<Name, TypeInfo>,
    pub directives: BTreeMap<Name, DirectiveDef>,
    pub query: Option<Name>,
    pub mutation: Option<Name>,
    pub subscription: Option<Name>,
    typename_field: FieldDef,
    schema_field: FieldDef,
    type_field: FieldDef,
}

impl SchemaView {
    /// The view of `schema_doc` (type-system definitions and extensions; executable definitions
    /// in it are ignored).
    pub fn new(schema_doc: &Document) -> SchemaView {
        static BUILTIN: std::sync::OnceLock<Document> = std::sync::OnceLock::new();
        let builtin = BUILTIN.get_or_init(|| text::must(BUILTIN_SDL));
        let mut v = SchemaView {
            types: BTreeMap::new(),
            directives: BTreeMap::new(),
            query: None,
            mutation: None,
            subscription: None,
            typename_field: FieldDef::new("__typename", Ty::named("String").non_null()),
            schema_field: FieldDef::new("__schema", Ty::named("__Schema").non_null()),
            type_field: {
                let mut f = FieldDef::new("__type", Ty::named("__Type"));
                f.args.push(InputValueDef::new("name", Ty::named("String").non_null()));
                f
            },
        };
        v.absorb(builtin, true);
        v.absorb(schema_doc, false);
        // root operation types: explicit `schema` definition / extensions, else default names
        let mut explicit = false;
        for d in &schema_doc.defs {
            if let Definition::Schema(s) = d {
                if !s.extend {
                    explicit = true;
                }
                for (k, n) in &s.roots {
                    let slot = match k {
                        OpKind::Query => &mut v.query,
                        OpKind::Mutation => &mut v.mutation,
                        OpKind::Subscription => &mut v.subscription,
                    };
                    if slot.is_none() {
                        *slot = Some(n.clone());
                    }
                }
            }
        }
        if !explicit {
            let object = |n: &str| v.types.get(n).map(|t| t.kind == TypeKind::Object).unwrap_or(false);
            if v.query.is_none() && object("Query") {
                v.query = Some("Query".into());
            }
            if v.mutation.is_none() && object("Mutation") {
                v.mutation = Some("Mutation".into());
            }
            if v.subscription.is_none() && object("Subscription") {
                v.subscription = Some("Subscription".into());
            }
        }
        v
    }

    /// Only the built-in definitions (used by the schema-independent rule subset).
    pub fn builtin_only() -> SchemaView {
        SchemaView::new(&Document::default())
    }
    /// shared instance of `builtin_only()`
    pub fn builtin_shared() -> &'static SchemaView {
        static VIEW: std::sync::OnceLock<SchemaView> = std::sync::OnceLock::new();
        VIEW.get_or_init(SchemaView::builtin_only)
    }

    fn absorb(&mut self, doc: &Document, builtin: bool) {
        // definitions first, then extensions (an extension may precede its definition)
        for pass in 0..2 {
            for d in &doc.defs {
                match d {
                    Definition::Type(t) if (pass == 1) == t.extend => {
                        let e = self.types.entry(t.name.clone()).or_insert_with(|| TypeInfo {
                            name: t.name.clone(),
                            kind: t.kind,
                            builtin,
                            implements: vec![],
                            fields: vec![],
                            members: vec![],
                            values: vec![],
                            input_fields: vec![],
                        });
                        for i in &t.implements {
                            if !e.implements.contains(i) {
                                e.implements.push(i.clone());
                            }
                        }
                        for f in &t.fields {
                            if !e.fields.iter().any(|g| g.name == f.name) {
                                e.fields.push(f.clone());
                            }
                        }
                        for m in &t.members {
                            if !e.members.contains(m) {
                                e.members.push(m.clone());
                            }
                        }
                        for x in &t.values {
                            if !e.values.contains(&x.name) {
                                e.values.push(x.name.clone());
                            }
                        }
                        for f in &t.input_fields {
                            if !e.input_fields.iter().any(|g| g.name == f.name) {
                                e.input_fields.push(f.clone());
                            }
                        }
                    }
                    Definition::Directive(dd) if pass == 0 => {
                        self.directives.insert(dd.name.clone(), dd.clone());
                    }
                    _ => {}
                }
            }
        }
    }

    pub fn root(&self, kind: OpKind) -> Option<&str> {
        match kind {
            OpKind::Query => self.query.as_deref(),
            OpKind::Mutation => self.mutation.as_deref(),
            OpKind::Subscription => self.subscription.as_deref(),
        }
    }
    pub fn ty(&self, name: &str) -> Option<&TypeInfo> {
        self.types.get(name)
    }
    pub fn kind(&self, name: &str) -> Option<TypeKind> {
        self.types.get(name).map(|t| t.kind)
    }
    pub fn is_composite(&self, name: &str) -> bool {
        matches!(self.kind(name), Some(TypeKind::Object | TypeKind::Interface | TypeKind::Union))
    }
    pub fn is_leaf(&self, name: &str) -> bool {
        matches!(self.kind(name), Some(TypeKind::Scalar | TypeKind::Enum))
    }
    pub fn is_input(&self, name: &str) -> bool {
        matches!(self.kind(name), Some(TypeKind::Scalar | TypeKind::Enum | TypeKind::Input))
    }
    pub fn is_object(&self, name: &str) -> bool {
        self.kind(name) == Some(TypeKind::Object)
    }
    pub fn is_custom_scalar(&self, name: &str) -> bool {
        self.types.get(name).map(|t| t.kind == TypeKind::Scalar && !t.builtin).unwrap_or(false)
    }
    /// Field `name` of composite type `parent`, meta-fields included (`__typename` on every
    /// composite type, `__schema` / `__type` on the query root type only).
    pub fn field(&self, parent: &str, name: &str) -> Option<&FieldDef> {
        let t = self.types.get(parent)?;
        if matches!(t.kind, TypeKind::Object | TypeKind::Interface) {
            if let Some(f) = t.fields.iter().find(|f| f.name == name) {
                return Some(f);
            }
        }
        if !self.is_composite(parent) {
            return None;
        }
        if name == "__typename" {
            return Some(&self.typename_field);
        }
        if self.query.as_deref() == Some(parent) {
            if name == "__schema" {
                return Some(&self.schema_field);
            }
            if name == "__type" {
                return Some(&self.type_field);
            }
        }
        None
    }
    /// `GetPossibleTypes(type)` (spec §5.5.2.3.4)
    pub fn possible_types(&self, name: &str) -> BTreeSet<Name> {
        let mut out = BTreeSet::new();
        match self.types.get(name) {
            Some(t) if t.kind == TypeKind::Object => {
                out.insert(t.name.clone());
            }
            Some(t) if t.kind == TypeKind::Interface => {
                for o in self.types.values() {
                    if o.kind == TypeKind::Object && o.implements.iter().any(|i| *i == t.name) {
                        out.insert(o.name.clone());
                    }
                }
            }
            Some(t) if t.kind == TypeKind::Union => {
                out.extend(t.members.iter().cloned());
            }
            _ => {}
        }
        out
    }
    fn input_field(&self, ty: &str, field: &str) -> Option<&InputValueDef> {
        let t = self.types.get(ty)?;
        if t.kind != TypeKind::Input {
            return None;
        }
        t.input_fields.iter().find(|f| f.name == field)
    }
}

// =================================================================================
// Typed view of an executable document (what graphql-js's TypeInfo provides)
// =================================================================================

struct FieldNode<'a> {
    f: &'a Field,
    parent: Option<&'a str>,
    def: Option<&'a FieldDef>,
}
struct SetNode<'a> {
    sel: &'a [Selection],
    parent: Option<&'a str>,
}
struct InlineNode<'a> {
    on: Option<&'a str>,
    parent: Option<&'a str>,
}
struct SpreadNode<'a> {
    name: &'a str,
    parent: Option<&'a str>,
    owner: usize,
}
struct DirSite<'a> {
    dirs: &'a [Directive],
    loc: &'static str,
    owner: usize,
    /// directives of a variable definition: their arguments are constants
    on_variable: bool,
}
struct ArgSite<'a> {
    value: &'a Value,
    /// expected type, when the argument is defined
    ty: Option<&'a Ty>,
    has_default: bool,
    owner: usize,
    constant: bool,
}
#[derive(Debug, Clone)]
struct Usage<'a> {
    name: &'a str,
    /// expected type of the position (None: unknown, nothing to check)
    ty: Option<Ty>,
    loc_default: bool,
    /// inside a list or object literal
    nested: bool,
    /// inside a later duplicate of an input-object field
    shadowed: bool,
    /// inside an object literal given for a custom scalar
    in_scalar_object: bool,
}

struct Typed<'a> {
    s: &'a SchemaView,
    doc: &'a Document,
    fields: Vec<FieldNode<'a>>,
    sets: Vec<SetNode<'a>>,
    inlines: Vec<InlineNode<'a>>,
    spreads: Vec<SpreadNode<'a>>,
    dirs: Vec<DirSite<'a>>,
    args: Vec<ArgSite<'a>>,
    /// first definition of each fragment name
    frags: BTreeMap<&'a str, &'a Fragment>,
    /// definition index of the first definition of each fragment name
    frag_index: BTreeMap<&'a str, usize>,
}

impl<'a> Typed<'a> {
    fn build(s: &'a SchemaView, doc: &'a Document) -> Typed<'a> {
        let mut t = Typed {
            s,
            doc,
            fields: vec![],
            sets: vec![],
            inlines: vec![],
            spreads: vec![],
            dirs: vec![],
            args: vec![],
            frags: BTreeMap::new(),
            frag_index: BTreeMap::new(),
        };
        for (i, d) in doc.defs.iter().enumerate() {
            match d {
                Definition::Operation(op) => {
                    let loc = match op.kind {
                        OpKind::Query => "QUERY",
                        OpKind::Mutation => "MUTATION",
                        OpKind::Subscription => "SUBSCRIPTION",
                    };
                    t.dirs.push(DirSite { dirs: &op.directives, loc, owner: i, on_variable: false });
                    for v in &op.vars {
                        t.dirs.push(DirSite { dirs: &v.directives, loc: "VARIABLE_DEFINITION", owner: i, on_variable: true });
                    }
                    let root = s.root(op.kind);
                    t.walk(&op.selection, root, i);
                }
                Definition::Fragment(f) => {
                    t.frags.entry(&f.name).or_insert(f);
                    t.frag_index.entry(&f.name).or_insert(i);
                    t.dirs.push(DirSite { dirs: &f.directives, loc: "FRAGMENT_DEFINITION", owner: i, on_variable: false });
                    let parent = if s.is_composite(&f.on) { Some(f.on.as_str()) } else { None };
                    t.walk(&f.selection, parent, i);
                }
                _ => {}
            }
        }
        // argument sites of directives
        let mut extra = vec![];
        for site in &t.dirs {
            for d in site.dirs {
                let ddef = s.directives.get(&d.name);
                for (an, av) in &d.args {
                    let adef = ddef.and_then(|dd| dd.args.iter().find(|a| a.name == *an));
                    extra.push(ArgSite {
                        value: av,
                        ty: adef.map(|a| &a.ty),
                        has_default: adef.map(|a| a.default.is_some()).unwrap_or(false),
                        owner: site.owner,
                        constant: site.on_variable,
                    });
                }
            }
        }
        t.args.extend(extra);
        t
    }

    fn walk(&mut self, sel: &'a [Selection], parent: Option<&'a str>, owner: usize) {
        let s = self.s;
        self.sets.push(SetNode { sel, parent });
        for x in sel {
            match x {
                Selection::Field(f) => {
                    let def = parent.and_then(|p| s.field(p, &f.name));
                    self.fields.push(FieldNode { f, parent, def });
                    self.dirs.push(DirSite { dirs: &f.directives, loc: "FIELD", owner, on_variable: false });
                    for (an, av) in &f.args {
                        let adef = def.and_then(|d| d.args.iter().find(|a| a.name == *an));
                        self.args.push(ArgSite {
                            value: av,
                            ty: adef.map(|a| &a.ty),
                            has_default: adef.map(|a| a.default.is_some()).unwrap_or(false),
                            owner,
                            constant: false,
                        });
                    }
                    if !f.selection.is_empty() {
                        let child = def.map(|d| d.ty.inner_name()).filter(|n| s.is_composite(n));
                        self.walk(&f.selection, child, owner);
                    }
                }
                Selection::Spread { name, directives } => {
                    self.spreads.push(SpreadNode { name, parent, owner });
                    self.dirs.push(DirSite { dirs: directives, loc: "FRAGMENT_SPREAD", owner, on_variable: false });
                }
                Selection::Inline { on, directives, selection } => {
                    self.inlines.push(InlineNode { on: on.as_deref(), parent });
                    self.dirs.push(DirSite { dirs: directives, loc: "INLINE_FRAGMENT", owner, on_variable: false });
                    let child = match on {
                        Some(t) => {
                            if s.is_composite(t) {
                                Some(t.as_str())
                            } else {
                                None
                            }
                        }
                        None => parent,
                    };
                    self.walk(selection, child, owner);
                }
            }
        }
    }

    /// variable usages inside one value, with the expected type of each position
    /// (graphql-js `TypeInfo` rules for lists and object fields)
    fn usages_in(&self, v: &'a Value, ty: Option<&Ty>, loc_default: bool, nested: bool, shadowed: bool, in_scalar_object: bool, out: &mut Vec<Usage<'a>>) {
        match v {
            Value::Var(n) => out.push(Usage { name: n, ty: ty.cloned(), loc_default, nested, shadowed, in_scalar_object }),
            Value::List(items) => {
                let item_ty = ty.map(|t| match t.nullable() {
                    Ty::List(i) => (**i).clone(),
                    other => other.clone(),
                });
                for it in items {
                    self.usages_in(it, item_ty.as_ref(), false, true, shadowed, in_scalar_object, out);
                }
            }
            Value::Object(fields) => {
                let named = ty.map(|t| t.inner_name());
                let scalar_object = in_scalar_object || named.map(|n| self.s.is_custom_scalar(n)).unwrap_or(false);
                let mut seen: Vec<&str> = vec![];
                for (k, fv) in fields {
                    let fdef = named.and_then(|n| self.s.input_field(n, k));
                    let dup = seen.contains(&k.as_str());
                    seen.push(k);
                    self.usages_in(
                        fv,
                        fdef.map(|f| &f.ty),
                        fdef.map(|f| f.default.is_some()).unwrap_or(false),
                        true,
                        shadowed || dup,
                        scalar_object,
                        out,
                    );
                }
            }
            _ => {}
        }
    }

    /// variable usages written directly in definition `owner`
    fn usages_of_def(&self, owner: usize) -> Vec<Usage<'a>> {
        let mut out = vec![];
        for a in &self.args {
            if a.owner == owner && !a.constant {
                self.usages_in(a.value, a.ty, a.has_default, false, false, false, &mut out);
            }
        }
        out
    }

    /// definition indices of the fragments reachable from definition `owner` through spreads
    /// (transitively, each once)
    fn reachable_fragments(&self, owner: usize) -> Vec<usize> {
        let mut seen: BTreeSet<usize> = BTreeSet::new();
        let mut order = vec![];
        let mut stack = vec![owner];
        while let Some(o) = stack.pop() {
            for sp in self.spreads.iter().filter(|sp| sp.owner == o) {
                if let Some(&fi) = self.frag_index.get(sp.name) {
                    if seen.insert(fi) {
                        order.push(fi);
                        stack.push(fi);
                    }
                }
            }
        }
        order
    }

    /// recursive variable usages of an operation (graphql-js `getRecursiveVariableUsages`)
    fn recursive_usages(&self, op_index: usize) -> Vec<Usage<'a>> {
        let mut out = self.usages_of_def(op_index);
        for fi in self.reachable_fragments(op_index) {
            out.extend(self.usages_of_def(fi));
        }
        out
    }

    fn has_fragment_cycle(&self) -> bool {
        self.frag_index.values().any(|&fi| self.reachable_fragments(fi).contains(&fi))
    }
}

struct Cx<'a> {
    t: Typed<'a>,
    p: Params,
    out: Vec<Violation>,
    fired: u32,
}

impl<'a> Cx<'a> {
    fn report(&mut self, rule: &'static str, subject: impl Into<String>) {
        self.out.push(Violation { rule, subject: subject.into() });
    }
    fn ops(&self) -> Vec<(usize, &'a Operation)> {
        self.t
            .doc
            .defs
            .iter()
            .enumerate()
            .filter_map(|(i, d)| match d {
                Definition::Operation(o) => Some((i, o)),
                _ => None,
            })
            .collect()
    }
}

fn op_label(op: &Operation) -> String {
    match &op.name {
        Some(n) => format!("{} {}", op.kind.keyword(), n),
        None => format!("anonymous {}", op.kind.keyword()),
    }
}

// =================================================================================
// The rules (graphql-js v16 `specifiedRules`, in that order)
// =================================================================================

/// §5.1.1 Executable Definitions
fn executable_definitions(cx: &mut Cx) {
    for d in &cx.t.doc.defs {
        if !matches!(d, Definition::Operation(_) | Definition::Fragment(_)) {
            let (k, n) = d.kind_and_name();
            cx.out.push(Violation { rule: "ExecutableDefinitions", subject: format!("{k} {}", n.unwrap_or_default()) });
        }
    }
}

/// §5.2.1.1 Operation Name Uniqueness
fn unique_operation_names(cx: &mut Cx) {
    let mut seen = BTreeSet::new();
    for (_, op) in cx.ops() {
        if let Some(n) = &op.name {
            if !seen.insert(n.as_str()) {
                cx.report("UniqueOperationNames", n.clone());
            }
        }
    }
}

/// §5.2.2.1 Lone Anonymous Operation
fn lone_anonymous_operation(cx: &mut Cx) {
    let ops = cx.ops();
    if ops.len() > 1 && ops.iter().any(|(_, o)| o.name.is_none()) {
        cx.report("LoneAnonymousOperation", "anonymous operation next to other operations");
    }
}

/// Root-level selections of an operation: every selection of the root selection set, of the
/// inline fragments in it and of the named fragments spread in it (each named fragment entered
/// once), not descending into fields.
fn root_level_selections<'a>(t: &Typed<'a>, sel: &'a [Selection], visited: &mut BTreeSet<&'a str>, out: &mut Vec<&'a Selection>) {
    for x in sel {
        out.push(x);
        match x {
            Selection::Field(_) => {}
            Selection::Inline { selection, .. } => root_level_selections(t, selection, visited, out),
            Selection::Spread { name, .. } => {
                if visited.insert(name.as_str()) {
                    if let Some(f) = t.frags.get(name.as_str()) {
                        root_level_selections(t, &f.selection, visited, out);
                    }
                }
            }
        }
    }
}

/// §5.2.3.1 Single root field (counts response keys after fragment expansion; introspection
/// fields are not allowed at the root of a subscription)
fn single_field_subscriptions(cx: &mut Cx) {
    for (_, op) in cx.ops() {
        if op.kind != OpKind::Subscription {
            continue;
        }
        if cx.t.s.root(OpKind::Subscription).is_none() {
            continue; // graphql-js: nothing to check without a subscription type
        }
        let mut sels = vec![];
        root_level_selections(&cx.t, &op.selection, &mut BTreeSet::new(), &mut sels);
        let fields: Vec<&Field> = sels
            .iter()
            .filter_map(|s| match s {
                Selection::Field(f) => Some(f),
                _ => None,
            })
            .collect();
        let keys: BTreeSet<&str> = fields.iter().map(|f| f.key()).collect();
        let strict_multiple = keys.len() > 1;
        let multiple = if cx.p.dev(DEV_SUBSCRIPTION_SELECTIONS) {
            let m = fields.len() > 1;
            if m != strict_multiple {
                cx.fired |= DEV_SUBSCRIPTION_SELECTIONS;
            }
            m
        } else {
            strict_multiple
        };
        if multiple {
            cx.report("SingleFieldSubscriptions", format!("{}: more than one root field", op_label(op)));
        }
        for f in &fields {
            if f.name.starts_with("__") {
                cx.report("SingleFieldSubscriptions", format!("{}: introspection root field {}", op_label(op), f.name));
            }
        }
        if cx.p.subscription_root_conditionals_are_error {
            for s in &sels {
                let dirs = match s {
                    Selection::Field(f) => &f.directives,
                    Selection::Spread { directives, .. } => directives,
                    Selection::Inline { directives, .. } => directives,
                };
                if dirs.iter().any(|d| d.name == "skip" || d.name == "include") {
                    cx.report(RULE_SUBSCRIPTION_CONDITIONAL, op_label(op));
                }
            }
        }
    }
}

/// apollo difference (parameter): an operation whose root operation type the schema does not
/// define is an error.
fn undefined_root_operation_type(cx: &mut Cx) {
    if !cx.p.undefined_root_type_is_error {
        return;
    }
    for (_, op) in cx.ops() {
        if cx.t.s.root(op.kind).is_none() {
            cx.report(RULE_UNDEFINED_ROOT, op_label(op));
        }
    }
}

fn for_each_selection<'a>(sel: &'a [Selection], f: &mut dyn FnMut(&'a Selection)) {
    for x in sel {
        f(x);
        match x {
            Selection::Field(fl) => for_each_selection(&fl.selection, f),
            Selection::Inline { selection, .. } => for_each_selection(selection, f),
            Selection::Spread { .. } => {}
        }
    }
}

/// §5.5.1.2 / §5.8.2 type names used in the document exist
fn known_type_names(cx: &mut Cx) {
    let s = cx.t.s;
    let mut names: Vec<&str> = vec![];
    for d in &cx.t.doc.defs {
        match d {
            Definition::Operation(op) => {
                for v in &op.vars {
                    names.push(v.ty.inner_name());
                }
            }
            Definition::Fragment(f) => names.push(&f.on),
            _ => {}
        }
    }
    for i in &cx.t.inlines {
        if let Some(on) = i.on {
            names.push(on);
        }
    }
    for n in names {
        if s.ty(n).is_none() {
            cx.report("KnownTypeNames", n);
        }
    }
}

/// §5.5.1.3 Fragments On Composite Types
fn fragments_on_composite_types(cx: &mut Cx) {
    let s = cx.t.s;
    let mut conds: Vec<&str> = cx.t.doc.fragments().map(|f| f.on.as_str()).collect();
    conds.extend(cx.t.inlines.iter().filter_map(|i| i.on));
    for c in conds {
        if s.ty(c).is_some() && !s.is_composite(c) {
            cx.report("FragmentsOnCompositeTypes", c);
        }
    }
}

/// §5.8.2 Variables Are Input Types
fn variables_are_input_types(cx: &mut Cx) {
    let s = cx.t.s;
    for (_, op) in cx.ops() {
        for v in &op.vars {
            let n = v.ty.inner_name();
            if s.ty(n).is_some() && !s.is_input(n) {
                cx.report("VariablesAreInputTypes", format!("${}: {}", v.name, v.ty));
            }
        }
    }
}

/// §5.3.3 Leaf Field Selections
fn scalar_leafs(cx: &mut Cx) {
    let s = cx.t.s;
    let mut found = vec![];
    for n in &cx.t.fields {
        if let Some(def) = n.def {
            let inner = def.ty.inner_name();
            if s.is_leaf(inner) && !n.f.selection.is_empty() {
                found.push(format!("{}: selection on leaf type {}", n.f.name, inner));
            } else if s.is_composite(inner) && n.f.selection.is_empty() {
                found.push(format!("{}: no selection on composite type {}", n.f.name, inner));
            }
        }
    }
    for f in found {
        cx.report("ScalarLeafs", f);
    }
}

/// §5.3.1 Field Selections
fn fields_on_correct_type(cx: &mut Cx) {
    let mut found = vec![];
    for n in &cx.t.fields {
        if let (Some(p), None) = (n.parent, n.def) {
            found.push(format!("{}.{}", p, n.f.name));
        }
    }
    for f in found {
        cx.report("FieldsOnCorrectType", f);
    }
}

/// §5.5.1.1 Fragment Name Uniqueness
fn unique_fragment_names(cx: &mut Cx) {
    let mut seen = BTreeSet::new();
    let names: Vec<&str> = cx.t.doc.fragments().map(|f| f.name.as_str()).collect();
    for n in names {
        if !seen.insert(n) {
            cx.report("UniqueFragmentNames", n);
        }
    }
}

/// §5.5.2.1 Fragment spread target defined
fn known_fragment_names(cx: &mut Cx) {
    let missing: Vec<&str> = cx.t.spreads.iter().filter(|sp| !cx.t.frags.contains_key(sp.name)).map(|sp| sp.name).collect();
    for n in missing {
        cx.report("KnownFragmentNames", n);
    }
}

/// §5.5.1.4 Fragments Must Be Used
fn no_unused_fragments(cx: &mut Cx) {
    let mut used: BTreeSet<usize> = BTreeSet::new();
    for (i, _) in cx.ops() {
        used.extend(cx.t.reachable_fragments(i));
    }
    let used_names: BTreeSet<&str> = cx.t.frag_index.iter().filter(|(_, i)| used.contains(i)).map(|(n, _)| *n).collect();
    let unused: Vec<&str> = cx.t.doc.fragments().map(|f| f.name.as_str()).filter(|n| !used_names.contains(n)).collect();
    for n in unused {
        cx.report("NoUnusedFragments", n);
    }
}

/// §5.5.2.3 Fragment spread is possible
fn possible_fragment_spreads(cx: &mut Cx) {
    let s = cx.t.s;
    let overlap = |a: &str, b: &str| a == b || s.possible_types(a).intersection(&s.possible_types(b)).next().is_some();
    let mut found = vec![];
    for i in &cx.t.inlines {
        if let (Some(on), Some(parent)) = (i.on, i.parent) {
            if s.is_composite(on) && !overlap(on, parent) {
                found.push(format!("... on {on} inside {parent}"));
            }
        }
    }
    for sp in &cx.t.spreads {
        if let (Some(f), Some(parent)) = (cx.t.frags.get(sp.name), sp.parent) {
            if s.is_composite(&f.on) && !overlap(&f.on, parent) {
                found.push(format!("...{} (on {}) inside {}", sp.name, f.on, parent));
            }
        }
    }
    for f in found {
        cx.report("PossibleFragmentSpreads", f);
    }
}

/// §5.5.2.2 Fragment spreads must not form cycles
fn no_fragment_cycles(cx: &mut Cx) {
    let cyc: Vec<&str> = cx
        .t
        .frag_index
        .iter()
        .filter(|(_, &fi)| cx.t.reachable_fragments(fi).contains(&fi))
        .map(|(n, _)| *n)
        .collect();
    for n in cyc {
        cx.report("NoFragmentCycles", n);
    }
}

/// §5.8.1 Variable Uniqueness
fn unique_variable_names(cx: &mut Cx) {
    for (_, op) in cx.ops() {
        let mut seen = BTreeSet::new();
        for v in &op.vars {
            if !seen.insert(v.name.as_str()) {
                cx.report("UniqueVariableNames", format!("${}", v.name));
            }
        }
    }
}

/// §5.8.3 All Variable Uses Defined
fn no_undefined_variables(cx: &mut Cx) {
    for (i, op) in cx.ops() {
        let defined: BTreeSet<&str> = op.vars.iter().map(|v| v.name.as_str()).collect();
        for u in cx.t.recursive_usages(i) {
            if defined.contains(u.name) {
                continue;
            }
            if u.shadowed && cx.p.dev(DEV_DUP_INPUT_FIELDS) {
                cx.fired |= DEV_DUP_INPUT_FIELDS;
                continue;
            }
            if u.in_scalar_object && cx.p.dev(DEV_SCALAR_OBJECT_VARIABLE) {
                cx.fired |= DEV_SCALAR_OBJECT_VARIABLE;
                continue;
            }
            cx.report("NoUndefinedVariables", format!("${} in {}", u.name, op_label(op)));
        }
    }
}

/// §5.8.4 All Variables Used
fn no_unused_variables(cx: &mut Cx) {
    for (i, op) in cx.ops() {
        let used: BTreeSet<&str> = cx.t.recursive_usages(i).iter().map(|u| u.name).collect();
        for v in &op.vars {
            if !used.contains(v.name.as_str()) {
                cx.report("NoUnusedVariables", format!("${} in {}", v.name, op_label(op)));
            }
        }
    }
}

/// §5.7.1 Directives Are Defined, §5.7.2 Directives Are In Valid Locations
fn known_directives(cx: &mut Cx) {
    let s = cx.t.s;
    let mut found = vec![];
    for site in &cx.t.dirs {
        for d in site.dirs {
            match s.directives.get(&d.name) {
                None => found.push(format!("@{} is not defined", d.name)),
                Some(dd) => {
                    if !dd.locations.iter().any(|l| l == site.loc) {
                        found.push(format!("@{} not allowed on {}", d.name, site.loc));
                    }
                }
            }
        }
    }
    for f in found {
        cx.report("KnownDirectives", f);
    }
}

/// §5.7.3 Directives Are Unique Per Location
fn unique_directives_per_location(cx: &mut Cx) {
    let s = cx.t.s;
    let mut found = vec![];
    for site in &cx.t.dirs {
        let mut seen = BTreeSet::new();
        for d in site.dirs {
            if let Some(dd) = s.directives.get(&d.name) {
                if !dd.repeatable && !seen.insert(d.name.as_str()) {
                    found.push(format!("@{} repeated on {}", d.name, site.loc));
                }
            }
        }
    }
    for f in found {
        cx.report("UniqueDirectivesPerLocation", f);
    }
}

/// §5.4.1 Argument Names (fields and directives)
fn known_argument_names(cx: &mut Cx) {
    let s = cx.t.s;
    let mut found = vec![];
    for n in &cx.t.fields {
        if let Some(def) = n.def {
            for (an, _) in &n.f.args {
                if !def.args.iter().any(|a| a.name == *an) {
                    found.push(format!("{}({}:)", n.f.name, an));
                }
            }
        }
    }
    for site in &cx.t.dirs {
        for d in site.dirs {
            if let Some(dd) = s.directives.get(&d.name) {
                for (an, _) in &d.args {
                    if !dd.args.iter().any(|a| a.name == *an) {
                        found.push(format!("@{}({}:)", d.name, an));
                    }
                }
            }
        }
    }
    for f in found {
        cx.report("KnownArgumentNames", f);
    }
}

/// §5.4.2 Argument Uniqueness
fn unique_argument_names(cx: &mut Cx) {
    let mut found = vec![];
    let mut check = |owner: String, args: &[(Name, Value)]| {
        let mut seen = BTreeSet::new();
        for (an, _) in args {
            if !seen.insert(an.as_str()) {
                found.push(format!("{owner}({an}:)"));
            }
        }
    };
    for n in &cx.t.fields {
        check(n.f.name.clone(), &n.f.args);
    }
    for site in &cx.t.dirs {
        for d in site.dirs {
            check(format!("@{}", d.name), &d.args);
        }
    }
    for f in found {
        cx.report("UniqueArgumentNames", f);
    }
}

fn int_in_range(text: &str) -> bool {
    match text.parse::<i64>() {
        Ok(v) => v >= i32::MIN as i64 && v <= i32::MAX as i64,
        Err(_) => false,
    }
}

/// `isValidValueNode` + the `ListValue` / `ObjectValue` / `NullValue` visitors of
/// graphql-js `ValuesOfCorrectTypeRule`, as one recursive function over (value, expected type).
fn check_value(cx: &mut Cx, v: &Value, ty: &Ty, out: &mut Vec<String>) {
    let s = cx.t.s;
    let named = ty.inner_name();
    let Some(info) = s.ty(named) else { return };
    let custom = info.kind == TypeKind::Scalar && !info.builtin;
    let bad = |out: &mut Vec<String>| out.push(format!("{} for {}", value_to_string(v), ty));
    match v {
        Value::Var(_) => {}
        Value::Null => {
            if ty.is_non_null() {
                bad(out);
            }
        }
        Value::List(items) => match ty.nullable() {
            Ty::List(item) => {
                for it in items {
                    check_value(cx, it, item, out);
                }
            }
            _ => {
                // a list literal for a non-list type: only a custom scalar takes it
                if !custom {
                    bad(out);
                }
            }
        },
        Value::Object(fields) => {
            if info.kind == TypeKind::Input {
                for (k, _) in fields {
                    if !info.input_fields.iter().any(|f| f.name == *k) {
                        out.push(format!("unknown input field {}.{}", named, k));
                    }
                }
                for fd in &info.input_fields {
                    let required = fd.ty.is_non_null() && fd.default.is_none();
                    if required && !fields.iter().any(|(k, _)| *k == fd.name) {
                        out.push(format!("required input field {}.{} missing", named, fd.name));
                    }
                }
                let mut seen: Vec<&str> = vec![];
                for (k, fv) in fields {
                    let dup = seen.contains(&k.as_str());
                    seen.push(k);
                    let Some(fd) = info.input_fields.iter().find(|f| f.name == *k) else { continue };
                    if dup && cx.p.dev(DEV_DUP_INPUT_FIELDS) {
                        // apollo looks at the first of several same-named fields only, except that
                        // a `null` in any of them counts for the required-field test
                        let mut tmp = vec![];
                        check_value(cx, fv, &fd.ty, &mut tmp);
                        let required = fd.ty.is_non_null() && fd.default.is_none();
                        if required && *fv == Value::Null {
                            out.push(format!("required input field {}.{} is null", named, fd.name));
                        } else if !tmp.is_empty() {
                            cx.fired |= DEV_DUP_INPUT_FIELDS;
                        }
                        continue;
                    }
                    check_value(cx, fv, &fd.ty, out);
                }
            } else if !custom {
                bad(out);
            }
        }
        Value::Int(t) => match named {
            "Int" => {
                if !int_in_range(t) {
                    bad(out);
                }
            }
            "Float" | "ID" => {}
            _ => {
                if !custom {
                    bad(out);
                }
            }
        },
        Value::Float(_) => {
            if !(named == "Float" || custom) {
                bad(out);
            }
        }
        Value::Str(_) => {
            if !(named == "String" || named == "ID" || custom) {
                bad(out);
            }
        }
        Value::Bool(_) => {
            if !(named == "Boolean" || custom) {
                bad(out);
            }
        }
        Value::Enum(n) => {
            if info.kind == TypeKind::Enum {
                if !info.values.contains(n) {
                    bad(out);
                }
            } else if !custom {
                bad(out);
            }
        }
    }
}

/// §5.6.1 Values of Correct Type (argument values and variable default values)
fn values_of_correct_type(cx: &mut Cx) {
    let mut found = vec![];
    let sites: Vec<(&Value, Ty)> = cx.t.args.iter().filter_map(|a| a.ty.map(|t| (a.value, t.clone()))).collect();
    for (v, ty) in sites {
        check_value(cx, v, &ty, &mut found);
    }
    for (_, op) in cx.ops() {
        for var in &op.vars {
            if let Some(d) = &var.default {
                if cx.t.s.is_input(var.ty.inner_name()) {
                    check_value(cx, d, &var.ty, &mut found);
                }
            }
        }
    }
    for f in found {
        cx.report("ValuesOfCorrectType", f);
    }
}

/// §5.4.2.1 Required Arguments (fields and directives); a `null` literal for a required
/// argument is `ValuesOfCorrectType`'s business
fn provided_required_arguments(cx: &mut Cx) {
    let s = cx.t.s;
    let mut found = vec![];
    let required = |a: &InputValueDef| a.ty.is_non_null() && a.default.is_none();
    for n in &cx.t.fields {
        if let Some(def) = n.def {
            for a in def.args.iter().filter(|a| required(a)) {
                if !n.f.args.iter().any(|(k, _)| *k == a.name) {
                    found.push(format!("{}({}:) missing", n.f.name, a.name));
                }
            }
        }
    }
    for site in &cx.t.dirs {
        for d in site.dirs {
            if let Some(dd) = s.directives.get(&d.name) {
                for a in dd.args.iter().filter(|a| required(a)) {
                    if !d.args.iter().any(|(k, _)| *k == a.name) {
                        found.push(format!("@{}({}:) missing", d.name, a.name));
                    }
                }
            }
        }
    }
    for f in found {
        cx.report("ProvidedRequiredArguments", f);
    }
}

/// `AreTypesCompatible(variableType, locationType)` (spec §5.8.5) = graphql-js `isTypeSubTypeOf`
/// restricted to input types.
pub fn are_types_compatible(var: &Ty, loc: &Ty) -> bool {
    match (var, loc) {
        (Ty::NonNull(v), Ty::NonNull(l)) => are_types_compatible(v, l),
        (_, Ty::NonNull(_)) => false,
        (Ty::NonNull(v), l) => are_types_compatible(v, l),
        (Ty::List(v), Ty::List(l)) => are_types_compatible(v, l),
        (Ty::List(_), _) | (_, Ty::List(_)) => false,
        (Ty::Named(a), Ty::Named(b)) => a == b,
    }
}

/// `IsVariableUsageAllowed(variableDefinition, variableUsage)` (spec §5.8.5)
pub fn is_variable_usage_allowed(var_ty: &Ty, var_default: Option<&Value>, loc_ty: &Ty, loc_has_default: bool, null_default_counts: bool) -> bool {
    if loc_ty.is_non_null() && !var_ty.is_non_null() {
        let has_non_null_default = match var_default {
            None => false,
            Some(Value::Null) => null_default_counts,
            Some(_) => true,
        };
        if !has_non_null_default && !loc_has_default {
            return false;
        }
        return are_types_compatible(var_ty, loc_ty.nullable());
    }
    are_types_compatible(var_ty, loc_ty)
}

/// §5.8.5 All Variable Usages Are Allowed — at every usage, including inside list and object
/// literals, with the expected type of that position
fn variables_in_allowed_position(cx: &mut Cx) {
    for (i, op) in cx.ops() {
        for u in cx.t.recursive_usages(i) {
            let Some(loc_ty) = &u.ty else { continue };
            let Some(var) = op.vars.iter().find(|v| v.name == u.name) else { continue };
            if cx.t.s.ty(var.ty.inner_name()).is_none() {
                continue; // unknown variable type: KnownTypeNames
            }
            let strict = is_variable_usage_allowed(&var.ty, var.default.as_ref(), loc_ty, u.loc_default, false);
            let mut allowed = strict;
            if u.shadowed && cx.p.dev(DEV_DUP_INPUT_FIELDS) {
                if !strict {
                    cx.fired |= DEV_DUP_INPUT_FIELDS;
                }
                continue;
            }
            if u.nested && cx.p.dev(DEV_NESTED_VARIABLE) {
                allowed = var.ty.inner_name() == loc_ty.inner_name();
                if allowed != strict {
                    cx.fired |= DEV_NESTED_VARIABLE;
                }
            } else if cx.p.dev(DEV_NULL_DEFAULT) {
                allowed = is_variable_usage_allowed(&var.ty, var.default.as_ref(), loc_ty, u.loc_default, true);
                if allowed != strict {
                    cx.fired |= DEV_NULL_DEFAULT;
                }
            }
            if !allowed {
                cx.report("VariablesInAllowedPosition", format!("${}: {} used as {}", u.name, var.ty, loc_ty));
            }
        }
    }
}

// ---- field merging ----------------------------------------------------------------

#[derive(Clone)]
struct Collected<'a> {
    parent: Option<&'a str>,
    field: &'a Field,
    def: Option<&'a FieldDef>,
}

/// the fields of a selection set "including visiting fragments and inline fragments"
fn collect_fields<'a>(t: &Typed<'a>, sel: &'a [Selection], parent: Option<&'a str>, visited: &mut BTreeSet<&'a str>, out: &mut Vec<Collected<'a>>) {
    let s = t.s;
    for x in sel {
        match x {
            Selection::Field(f) => out.push(Collected { parent, field: f, def: parent.and_then(|p| s.field(p, &f.name)) }),
            Selection::Inline { on, selection, .. } => {
                let p = match on {
                    Some(n) => {
                        if s.is_composite(n) {
                            Some(n.as_str())
                        } else {
                            None
                        }
                    }
                    None => parent,
                };
                collect_fields(t, selection, p, visited, out);
            }
            Selection::Spread { name, .. } => {
                if visited.insert(name.as_str()) {
                    if let Some(f) = t.frags.get(name.as_str()) {
                        let p = if s.is_composite(&f.on) { Some(f.on.as_str()) } else { None };
                        collect_fields(t, &f.selection, p, visited, out);
                    }
                }
            }
        }
    }
}

/// the merged set of the sub-selections of two fields
fn merged_subfields<'a>(t: &Typed<'a>, a: &Collected<'a>, b: &Collected<'a>) -> Vec<Collected<'a>> {
    let mut out = vec![];
    let mut visited = BTreeSet::new();
    for c in [a, b] {
        let child = c.def.map(|d| d.ty.inner_name()).filter(|n| t.s.is_composite(n));
        collect_fields(t, &c.field.selection, child, &mut visited, &mut out);
    }
    out
}

/// `SameResponseShape(fieldA, fieldB)` (spec §5.3.2)
fn same_response_shape(t: &Typed, a: &Collected, b: &Collected) -> bool {
    let (Some(da), Some(db)) = (a.def, b.def) else { return true };
    let (mut ta, mut tb) = (&da.ty, &db.ty);
    loop {
        match (ta, tb) {
            (Ty::NonNull(x), Ty::NonNull(y)) => {
                ta = x;
                tb = y;
            }
            (Ty::NonNull(_), _) | (_, Ty::NonNull(_)) => return false,
            (Ty::List(x), Ty::List(y)) => {
                ta = x;
                tb = y;
            }
            (Ty::List(_), _) | (_, Ty::List(_)) => return false,
            (Ty::Named(x), Ty::Named(y)) => {
                if t.s.is_leaf(x) || t.s.is_leaf(y) {
                    return x == y;
                }
                if !t.s.is_composite(x) || !t.s.is_composite(y) {
                    return false;
                }
                break;
            }
        }
    }
    let merged = merged_subfields(t, a, b);
    for i in 0..merged.len() {
        for j in (i + 1)..merged.len() {
            if merged[i].field.key() == merged[j].field.key() && !same_response_shape(t, &merged[i], &merged[j]) {
                return false;
            }
        }
    }
    true
}

fn values_equal(cx: &mut Cx, a: &Value, b: &Value) -> bool {
    match (a, b) {
        (Value::List(x), Value::List(y)) => {
            let n = x.len().min(y.len());
            let prefix_equal = (0..n).all(|i| values_equal(cx, &x[i], &y[i]));
            if x.len() != y.len() {
                if prefix_equal && cx.p.dev(DEV_LIST_PREFIX) {
                    cx.fired |= DEV_LIST_PREFIX;
                    return true;
                }
                return false;
            }
            prefix_equal
        }
        (Value::Object(x), Value::Object(y)) => {
            // unordered maps (duplicate keys are another rule's business)
            let strict = x.len() == y.len()
                && x.iter().all(|(k, v)| match y.iter().find(|(k2, _)| k2 == k) {
                    Some((_, v2)) => values_equal(cx, v, v2),
                    None => false,
                });
            let has_dup = |o: &Vec<(Name, Value)>| (0..o.len()).any(|i| o[..i].iter().any(|(k, _)| *k == o[i].0));
            if cx.p.dev(DEV_DUP_INPUT_FIELDS) && (has_dup(x) || has_dup(y)) {
                // apollo (which assumes there are no duplicates): same number of entries, and every
                // entry of the LATER field's object equals the first same-named entry of the
                // earlier field's object
                let apollo = x.len() == y.len()
                    && y.iter().all(|(k, v)| match x.iter().find(|(k2, _)| k2 == k) {
                        Some((_, v2)) => values_equal(cx, v2, v),
                        None => false,
                    });
                if apollo != strict {
                    cx.fired |= DEV_DUP_INPUT_FIELDS;
                }
                return apollo;
            }
            strict
        }
        (x, y) => x == y,
    }
}

fn same_arguments(cx: &mut Cx, a: &Field, b: &Field) -> bool {
    // identical sets of arguments (by name, values equal); duplicates: first occurrence
    let names_a: BTreeSet<&str> = a.args.iter().map(|(k, _)| k.as_str()).collect();
    let names_b: BTreeSet<&str> = b.args.iter().map(|(k, _)| k.as_str()).collect();
    if names_a != names_b {
        return false;
    }
    for n in names_a {
        let va = &a.args.iter().find(|(k, _)| k == n).unwrap().1;
        let vb = &b.args.iter().find(|(k, _)| k == n).unwrap().1;
        if !values_equal(cx, va, vb) {
            return false;
        }
    }
    true
}

/// `FieldsInSetCanMerge(set)` (spec §5.3.2), pairwise
fn fields_in_set_can_merge(cx: &mut Cx, set: &[Collected], depth: usize) -> Result<(), String> {
    if depth > 64 {
        return Ok(());
    }
    for i in 0..set.len() {
        for j in (i + 1)..set.len() {
            let (a, b) = (&set[i], &set[j]);
            if a.field.key() != b.field.key() {
                continue;
            }
            if !same_response_shape(&cx.t, a, b) {
                return Err(format!("{}: different response shapes", a.field.key()));
            }
            let exclusive = match (a.parent, b.parent) {
                (Some(pa), Some(pb)) => pa != pb && cx.t.s.is_object(pa) && cx.t.s.is_object(pb),
                _ => false,
            };
            if !exclusive {
                if a.field.name != b.field.name {
                    return Err(format!("{}: {} and {} are different fields", a.field.key(), a.field.name, b.field.name));
                }
                if !same_arguments(cx, a.field, b.field) {
                    return Err(format!("{}: different arguments", a.field.key()));
                }
                let merged = merged_subfields(&cx.t, a, b);
                fields_in_set_can_merge(cx, &merged, depth + 1)?;
            }
        }
    }
    Ok(())
}

/// §5.3.2 Field Selection Merging: every selection set of the document
fn overlapping_fields_can_be_merged(cx: &mut Cx) {
    if cx.t.has_fragment_cycle() {
        return; // NoFragmentCycles reports; the spec algorithm does not terminate on cycles
    }
    let sets: Vec<(&[Selection], Option<&str>)> = cx.t.sets.iter().map(|n| (n.sel, n.parent)).collect();
    let mut reported = BTreeSet::new();
    for (sel, parent) in sets {
        let mut set = vec![];
        collect_fields(&cx.t, sel, parent, &mut BTreeSet::new(), &mut set);
        if let Err(e) = fields_in_set_can_merge(cx, &set, 0) {
            if reported.insert(e.clone()) {
                cx.report("OverlappingFieldsCanBeMerged", e);
            }
        }
    }
}

fn duplicate_input_fields(v: &Value, out: &mut Vec<String>) {
    match v {
        Value::List(items) => items.iter().for_each(|i| duplicate_input_fields(i, out)),
        Value::Object(fields) => {
            let mut seen = BTreeSet::new();
            for (k, fv) in fields {
                if !seen.insert(k.as_str()) {
                    out.push(k.clone());
                }
                duplicate_input_fields(fv, out);
            }
        }
        _ => {}
    }
}

/// §5.6.3 Input Object Field Uniqueness (every object literal of the document)
fn unique_input_field_names(cx: &mut Cx) {
    let mut found = vec![];
    for a in &cx.t.args {
        duplicate_input_fields(a.value, &mut found);
    }
    for (_, op) in cx.ops() {
        for v in &op.vars {
            if let Some(d) = &v.default {
                duplicate_input_fields(d, &mut found);
            }
        }
    }
    if !found.is_empty() && cx.p.dev(DEV_DUP_INPUT_FIELDS) {
        cx.fired |= DEV_DUP_INPUT_FIELDS;
        return;
    }
    for f in found {
        cx.report("UniqueInputFieldNames", f);
    }
}

// =================================================================================
// Entry points
// =================================================================================

/// All rules on `doc` against the schema view.
pub fn validate_with(view: &SchemaView, doc: &Document, params: &Params) -> Report {
    let mut cx = Cx { t: Typed::build(view, doc), p: *params, out: vec![], fired: 0 };
    executable_definitions(&mut cx);
    unique_operation_names(&mut cx);
    lone_anonymous_operation(&mut cx);
    single_field_subscriptions(&mut cx);
    undefined_root_operation_type(&mut cx);
    known_type_names(&mut cx);
    fragments_on_composite_types(&mut cx);
    variables_are_input_types(&mut cx);
    scalar_leafs(&mut cx);
    fields_on_correct_type(&mut cx);
    unique_fragment_names(&mut cx);
    known_fragment_names(&mut cx);
    no_unused_fragments(&mut cx);
    possible_fragment_spreads(&mut cx);
    no_fragment_cycles(&mut cx);
    unique_variable_names(&mut cx);
    no_undefined_variables(&mut cx);
    no_unused_variables(&mut cx);
    known_directives(&mut cx);
    unique_directives_per_location(&mut cx);
    known_argument_names(&mut cx);
    unique_argument_names(&mut cx);
    values_of_correct_type(&mut cx);
    provided_required_arguments(&mut cx);
    variables_in_allowed_position(&mut cx);
    overlapping_fields_can_be_merged(&mut cx);
    unique_input_field_names(&mut cx);
    Report { violations: cx.out, fired: cx.fired }
}

/// `validate(schema_doc, exec_doc, params)`: the violations of the specification's executable
/// validation rules (empty = valid).
pub fn validate(schema_doc: &Document, exec_doc: &Document, params: &Params) -> Vec<Violation> {
    validate_with(&SchemaView::new(schema_doc), exec_doc, params).violations
}

/// The subset of the rules that needs no type information: problems that are errors under
/// every possible schema (C20). Type-system definitions, duplicate operation / fragment /
/// variable / argument / input-field names, ambiguous anonymous operation, undefined / unused
/// fragments, fragment cycles, undefined / unused variables, a repeated built-in directive, a
/// subscription with several root response keys.
pub fn schema_independent_problems(doc: &Document) -> Vec<Violation> {
    let view = SchemaView::builtin_shared();
    let mut cx = Cx { t: Typed::build(view, doc), p: Params::default(), out: vec![], fired: 0 };
    executable_definitions(&mut cx);
    unique_operation_names(&mut cx);
    lone_anonymous_operation(&mut cx);
    unique_fragment_names(&mut cx);
    known_fragment_names(&mut cx);
    no_unused_fragments(&mut cx);
    no_fragment_cycles(&mut cx);
    unique_variable_names(&mut cx);
    no_undefined_variables(&mut cx);
    no_unused_variables(&mut cx);
    unique_directives_per_location(&mut cx);
    unique_argument_names(&mut cx);
    unique_input_field_names(&mut cx);
    // response keys at the root of a subscription need no schema either
    for (_, op) in cx.ops() {
        if op.kind == OpKind::Subscription {
            let mut sels = vec![];
            root_level_selections(&cx.t, &op.selection, &mut BTreeSet::new(), &mut sels);
            let keys: BTreeSet<&str> = sels
                .iter()
                .filter_map(|s| match s {
                    Selection::Field(f) => Some(f.key()),
                    _ => None,
                })
                .collect();
            if keys.len() > 1 {
                cx.report("SingleFieldSubscriptions", op_label(op));
            }
        }
    }
    cx.out
}

/// Does the document apply any directive anywhere?
pub fn applies_a_directive(doc: &Document) -> bool {
    let mut any = false;
    for d in &doc.defs {
        match d {
            Definition::Operation(op) => {
                any |= !op.directives.is_empty() || op.vars.iter().any(|v| !v.directives.is_empty());
                for_each_selection(&op.selection, &mut |s| any |= !selection_directives(s).is_empty());
            }
            Definition::Fragment(f) => {
                any |= !f.directives.is_empty();
                for_each_selection(&f.selection, &mut |s| any |= !selection_directives(s).is_empty());
            }
            _ => {}
        }
    }
    any
}

pub fn selection_directives(s: &Selection) -> &[Directive] {
    match s {
        Selection::Field(f) => &f.directives,
        Selection::Spread { directives, .. } => directives,
        Selection::Inline { directives, .. } => directives,
    }
}

// ---- reference traversals (C18) ------------------------------------------------------

fn first_fragments(doc: &Document) -> BTreeMap<&str, &Fragment> {
    let mut m = BTreeMap::new();
    for f in doc.fragments() {
        m.entry(f.name.as_str()).or_insert(f);
    }
    m
}

/// Root fields of an operation in document order: fields of the root selection set, of inline
/// fragments and of named fragments (each named fragment entered once, at its first spread),
/// depth first; sub-selections of fields are not entered.
pub fn root_fields<'a>(doc: &'a Document, op: &'a Operation) -> Vec<&'a Field> {
    fn go<'a>(frs: &BTreeMap<&'a str, &'a Fragment>, sel: &'a [Selection], seen: &mut BTreeSet<&'a str>, out: &mut Vec<&'a Field>) {
        for s in sel {
            match s {
                Selection::Field(f) => out.push(f),
                Selection::Inline { selection, .. } => go(frs, selection, seen, out),
                Selection::Spread { name, .. } => {
                    if let Some(f) = frs.get(name.as_str()) {
                        if seen.insert(name.as_str()) {
                            go(frs, &f.selection, seen, out);
                        }
                    }
                }
            }
        }
    }
    let frs = first_fragments(doc);
    let mut out = vec![];
    go(&frs, &op.selection, &mut BTreeSet::new(), &mut out);
    out
}

/// All fields reachable from an operation, pre-order, each named fragment entered once.
pub fn all_fields<'a>(doc: &'a Document, op: &'a Operation) -> Vec<&'a Field> {
    fn go<'a>(frs: &BTreeMap<&'a str, &'a Fragment>, sel: &'a [Selection], seen: &mut BTreeSet<&'a str>, out: &mut Vec<&'a Field>) {
        for s in sel {
            match s {
                Selection::Field(f) => {
                    out.push(f);
                    go(frs, &f.selection, seen, out);
                }
                Selection::Inline { selection, .. } => go(frs, selection, seen, out),
                Selection::Spread { name, .. } => {
                    if let Some(f) = frs.get(name.as_str()) {
                        if seen.insert(name.as_str()) {
                            go(frs, &f.selection, seen, out);
                        }
                    }
                }
            }
        }
    }
    let frs = first_fragments(doc);
    let mut out = vec![];
    go(&frs, &op.selection, &mut BTreeSet::new(), &mut out);
    out
}

/// Is the fragment spread graph of the document acyclic? (harness DFS for C18)
pub fn spreads_acyclic(doc: &Document) -> bool {
    !Typed::build(SchemaView::builtin_shared(), doc).has_fragment_cycle()
}

// =================================================================================
// Text reader (tables written as text). Not an oracle: every document that reaches apollo is
// `Document::print()` of the value read here, and `parse(print(d)) == d` is unit-tested.
// =================================================================================

pub mod text {
    use crate::ast::*;
    use crate::lex::{self, Kind, Token};
    use crate::strings;

    struct P<'a> {
        toks: Vec<Token<'a>>,
        pos: usize,
    }

    type R<T> = Result<T, String>;

    impl<'a> P<'a> {
        fn peek(&self) -> Option<&'a str> {
            self.toks.get(self.pos).map(|t| t.text)
        }
        fn peek_kind(&self) -> Option<Kind> {
            self.toks.get(self.pos).map(|t| t.kind)
        }
        fn bump(&mut self) -> Option<&'a str> {
            let t = self.peek();
            if t.is_some() {
                self.pos += 1;
            }
            t
        }
        fn at_punct(&self, s: &str) -> bool {
            self.peek_kind() == Some(Kind::Punct) && self.peek() == Some(s)
        }
        fn at_name(&self, s: &str) -> bool {
            self.peek_kind() == Some(Kind::Name) && self.peek() == Some(s)
        }
        fn eat(&mut self, s: &str) -> bool {
            if self.at_punct(s) {
                self.pos += 1;
                true
            } else {
                false
            }
        }
        fn eat_name(&mut self, s: &str) -> bool {
            if self.at_name(s) {
                self.pos += 1;
                true
            } else {
                false
            }
        }
        fn expect(&mut self, s: &str) -> R<()> {
            if self.eat(s) {
                Ok(())
            } else {
                Err(format!("expected {s:?} at token {} ({:?})", self.pos, self.peek()))
            }
        }
        fn name(&mut self) -> R<String> {
            if self.peek_kind() == Some(Kind::Name) {
                Ok(self.bump().unwrap().to_string())
            } else {
                Err(format!("expected a name at token {} ({:?})", self.pos, self.peek()))
            }
        }

        fn ty(&mut self) -> R<Ty> {
            let mut t = if self.eat("[") {
                let inner = self.ty()?;
                self.expect("]")?;
                Ty::List(Box::new(inner))
            } else {
                Ty::Named(self.name()?)
            };
            if self.eat("!") {
                t = Ty::NonNull(Box::new(t));
            }
            Ok(t)
        }

        fn value(&mut self) -> R<Value> {
            let Some(k) = self.peek_kind() else {
                return Err("value expected at end of input".into());
            };
            match k {
                Kind::Int => Ok(Value::Int(self.bump().unwrap().to_string())),
                Kind::Float => Ok(Value::Float(self.bump().unwrap().to_string())),
                Kind::Str => {
                    let lit = self.bump().unwrap();
                    strings::literal_value(lit).map(Value::Str).ok_or_else(|| format!("bad string literal {lit:?}"))
                }
                Kind::Name => {
                    let n = self.bump().unwrap();
                    Ok(match n {
                        "true" => Value::Bool(true),
                        "false" => Value::Bool(false),
                        "null" => Value::Null,
                        _ => Value::Enum(n.to_string()),
                    })
                }
                Kind::Punct => {
                    if self.eat("$") {
                        Ok(Value::Var(self.name()?))
                    } else if self.eat("[") {
                        let mut items = vec![];
                        while !self.eat("]") {
                            items.push(self.value()?);
                        }
                        Ok(Value::List(items))
                    } else if self.eat("{") {
                        let mut fields = vec![];
                        while !self.eat("}") {
                            let n = self.name()?;
                            self.expect(":")?;
                            fields.push((n, self.value()?));
                        }
                        Ok(Value::Object(fields))
                    } else {
                        Err(format!("value expected at token {} ({:?})", self.pos, self.peek()))
                    }
                }
                _ => Err("value expected".into()),
            }
        }

        fn args(&mut self) -> R<Vec<(Name, Value)>> {
            let mut out = vec![];
            if self.eat("(") {
                while !self.eat(")") {
                    let n = self.name()?;
                    self.expect(":")?;
                    out.push((n, self.value()?));
                }
            }
            Ok(out)
        }

        fn directives(&mut self) -> R<Vec<Directive>> {
            let mut out = vec![];
            while self.eat("@") {
                let name = self.name()?;
                let args = self.args()?;
                out.push(Directive { name, args });
            }
            Ok(out)
        }

        fn selection_set(&mut self) -> R<Vec<Selection>> {
            self.expect("{")?;
            let mut out = vec![];
            while !self.eat("}") {
                if self.peek().is_none() {
                    return Err("unterminated selection set".into());
                }
                if self.eat("...") {
                    if self.at_name("on") {
                        self.pos += 1;
                        let on = self.name()?;
                        let directives = self.directives()?;
                        let selection = self.selection_set()?;
                        out.push(Selection::Inline { on: Some(on), directives, selection });
                    } else if self.peek_kind() == Some(Kind::Name) {
                        let name = self.name()?;
                        let directives = self.directives()?;
                        out.push(Selection::Spread { name, directives });
                    } else {
                        let directives = self.directives()?;
                        let selection = self.selection_set()?;
                        out.push(Selection::Inline { on: None, directives, selection });
                    }
                } else {
                    let first = self.name()?;
                    let (alias, name) = if self.eat(":") { (Some(first), self.name()?) } else { (None, first) };
                    let args = self.args()?;
                    let directives = self.directives()?;
                    let selection = if self.at_punct("{") { self.selection_set()? } else { vec![] };
                    out.push(Selection::Field(Field { alias, name, args, directives, selection }));
                }
            }
            Ok(out)
        }

        fn description(&mut self) -> R<Option<String>> {
            if self.peek_kind() == Some(Kind::Str) {
                let lit = self.bump().unwrap();
                Ok(Some(strings::literal_value(lit).ok_or("bad description")?))
            } else {
                Ok(None)
            }
        }

        fn input_value_def(&mut self) -> R<InputValueDef> {
            let description = self.description()?;
            let name = self.name()?;
            self.expect(":")?;
            let ty = self.ty()?;
            let default = if self.eat("=") { Some(self.value()?) } else { None };
            let directives = self.directives()?;
            Ok(InputValueDef { description, name, ty, default, directives })
        }

        fn args_def(&mut self) -> R<Vec<InputValueDef>> {
            let mut out = vec![];
            if self.eat("(") {
                while !self.eat(")") {
                    out.push(self.input_value_def()?);
                }
            }
            Ok(out)
        }

        fn operation(&mut self) -> R<Operation> {
            if self.at_punct("{") {
                let selection = self.selection_set()?;
                return Ok(Operation { kind: OpKind::Query, name: None, vars: vec![], directives: vec![], selection, shorthand: true });
            }
            let kind = match self.bump() {
                Some("query") => OpKind::Query,
                Some("mutation") => OpKind::Mutation,
                Some("subscription") => OpKind::Subscription,
                t => return Err(format!("operation keyword expected, found {t:?}")),
            };
            let name = if self.peek_kind() == Some(Kind::Name) { Some(self.name()?) } else { None };
            let mut vars = vec![];
            if self.eat("(") {
                while !self.eat(")") {
                    self.expect("$")?;
                    let name = self.name()?;
                    self.expect(":")?;
                    let ty = self.ty()?;
                    let default = if self.eat("=") { Some(self.value()?) } else { None };
                    let directives = self.directives()?;
                    vars.push(VarDef { name, ty, default, directives });
                }
            }
            let directives = self.directives()?;
            let selection = self.selection_set()?;
            Ok(Operation { kind, name, vars, directives, selection, shorthand: false })
        }

        fn type_def(&mut self, extend: bool, description: Option<String>) -> R<TypeDef> {
            let kind = match self.bump() {
                Some("scalar") => TypeKind::Scalar,
                Some("type") => TypeKind::Object,
                Some("interface") => TypeKind::Interface,
                Some("union") => TypeKind::Union,
                Some("enum") => TypeKind::Enum,
                Some("input") => TypeKind::Input,
                t => return Err(format!("type keyword expected, found {t:?}")),
            };
            let name = self.name()?;
            let mut t = TypeDef::new(kind, &name);
            t.extend = extend;
            t.description = description;
            if matches!(kind, TypeKind::Object | TypeKind::Interface) && self.eat_name("implements") {
                self.eat("&");
                t.implements.push(self.name()?);
                while self.eat("&") {
                    t.implements.push(self.name()?);
                }
            }
            t.directives = self.directives()?;
            match kind {
                TypeKind::Scalar => {}
                TypeKind::Object | TypeKind::Interface => {
                    if self.eat("{") {
                        while !self.eat("}") {
                            let description = self.description()?;
                            let name = self.name()?;
                            let args = self.args_def()?;
                            self.expect(":")?;
                            let ty = self.ty()?;
                            let directives = self.directives()?;
                            t.fields.push(FieldDef { description, name, args, ty, directives });
                        }
                    }
                }
                TypeKind::Union => {
                    if self.eat("=") {
                        self.eat("|");
                        t.members.push(self.name()?);
                        while self.eat("|") {
                            t.members.push(self.name()?);
                        }
                    }
                }
                TypeKind::Enum => {
                    if self.eat("{") {
                        while !self.eat("}") {
                            let description = self.description()?;
                            let name = self.name()?;
                            let directives = self.directives()?;
                            t.values.push(EnumValueDef { description, name, directives });
                        }
                    }
                }
                TypeKind::Input => {
                    if self.eat("{") {
                        while !self.eat("}") {
                            t.input_fields.push(self.input_value_def()?);
                        }
                    }
                }
            }
            Ok(t)
        }

        fn schema_def(&mut self, extend: bool, description: Option<String>) -> R<SchemaDef> {
            self.pos += 1; // `schema`
            let directives = self.directives()?;
            let mut roots = vec![];
            if self.eat("{") {
                while !self.eat("}") {
                    let k = match self.bump() {
                        Some("query") => OpKind::Query,
                        Some("mutation") => OpKind::Mutation,
                        Some("subscription") => OpKind::Subscription,
                        t => return Err(format!("operation type expected, found {t:?}")),
                    };
                    self.expect(":")?;
                    roots.push((k, self.name()?));
                }
            }
            Ok(SchemaDef { extend, description, directives, roots })
        }

        fn definition(&mut self) -> R<Definition> {
            if self.at_punct("{") {
                return Ok(Definition::Operation(self.operation()?));
            }
            let description = self.description()?;
            let extend = self.eat_name("extend");
            if self.peek_kind() != Some(Kind::Name) {
                return Err(format!("definition expected at token {}, found {:?}", self.pos, self.peek()));
            }
            match self.peek() {
                Some("query" | "mutation" | "subscription") if !extend && description.is_none() => Ok(Definition::Operation(self.operation()?)),
                Some("fragment") if !extend && description.is_none() => {
                    self.pos += 1;
                    let name = self.name()?;
                    if !self.eat_name("on") {
                        return Err("`on` expected in fragment definition".into());
                    }
                    let on = self.name()?;
                    let directives = self.directives()?;
                    let selection = self.selection_set()?;
                    Ok(Definition::Fragment(Fragment { name, on, directives, selection }))
                }
                Some("schema") => Ok(Definition::Schema(self.schema_def(extend, description)?)),
                Some("directive") if !extend => {
                    self.pos += 1;
                    self.expect("@")?;
                    let name = self.name()?;
                    let args = self.args_def()?;
                    let repeatable = self.eat_name("repeatable");
                    if !self.eat_name("on") {
                        return Err("`on` expected in directive definition".into());
                    }
                    self.eat("|");
                    let mut locations = vec![self.name()?];
                    while self.eat("|") {
                        locations.push(self.name()?);
                    }
                    Ok(Definition::Directive(DirectiveDef { description, name, args, repeatable, locations }))
                }
                Some("scalar" | "type" | "interface" | "union" | "enum" | "input") => Ok(Definition::Type(self.type_def(extend, description)?)),
                t => Err(format!("definition expected at token {}, found {t:?}", self.pos)),
            }
        }
    }

    fn tokens(text: &str) -> R<Vec<Token<'_>>> {
        let toks = lex::tokenize(text, lex::Params::default()).ok_or("lexical error")?;
        Ok(toks.into_iter().filter(|t| !t.is_ignored()).collect())
    }

    /// Parse a whole document (type-system and/or executable definitions).
    pub fn parse(text: &str) -> Result<Document, String> {
        let mut p = P { toks: tokens(text)?, pos: 0 };
        let mut defs = vec![];
        while p.peek().is_some() {
            defs.push(p.definition()?);
        }
        Ok(Document { defs })
    }

    /// Parse a selection set with or without the outer braces (field-set syntax).
    pub fn parse_selections(text: &str) -> Result<Vec<Selection>, String> {
        let wrapped = if text.trim_start().starts_with('{') { text.to_string() } else { format!("{{ {text} }}") };
        let mut p = P { toks: tokens(&wrapped)?, pos: 0 };
        let s = p.selection_set()?;
        if p.peek().is_some() {
            return Err("trailing tokens".into());
        }
        Ok(s)
    }

    /// `parse` for texts written in the harness itself.
    pub fn must(text: &str) -> Document {
        match parse(text) {
            Ok(d) => d,
            Err(e) => panic!("harness text does not parse: {e}\n{text}"),
        }
    }
}

#[cfg(test)]
mod tests;
