//! Reference executor (DESIGN.md A.5; properties C26, C27).
//!
//! A direct transcription of the October 2021 specification, section 6:
//! `ExecuteRequest` -> `ExecuteSelectionSet` (`CollectFields` with a visited-fragment set per
//! selection set, `@skip` checked before `@include`, `DoesFragmentTypeApply`) -> `ExecuteField`
//! (`CoerceArgumentValues`; a coercion error is a field error) -> `CompleteValue` -> error
//! handling by null propagation to the nearest nullable ancestor.
//!
//! It works on the mini-AST only and is executed against a *resolver world*: plain data that
//! says, per response-tree position, what the resolver returns there (`Res`).
//!
//! Where the specification leaves a choice to the service, apollo-compiler's documented choice
//! is a named parameter in `Params` (all on in `Params::apollo()`); each one says where in
//! apollo-compiler the choice is documented.

use crate::ast::*;
use serde_json::{json, Map, Value as Json};
use std::collections::{BTreeMap, BTreeSet};

// ---------------------------------------------------------------------------------
// Paths
// ---------------------------------------------------------------------------------

#[derive(Clone, Debug, PartialEq, Eq, PartialOrd, Ord, Hash)]
pub enum Seg {
    Key(String),
    Index(usize),
}

pub type Path = Vec<Seg>;

pub fn path_json(p: &[Seg]) -> Json {
    Json::Array(
        p.iter()
            .map(|s| match s {
                Seg::Key(k) => json!(k),
                Seg::Index(i) => json!(i),
            })
            .collect(),
    )
}

pub fn path_from_json(v: &Json) -> Path {
    v.as_array()
        .map(|a| {
            a.iter()
                .map(|s| match s {
                    Json::String(k) => Seg::Key(k.clone()),
                    other => Seg::Index(other.as_u64().unwrap_or(0) as usize),
                })
                .collect()
        })
        .unwrap_or_default()
}

pub fn path_string(p: &[Seg]) -> String {
    path_json(p).to_string()
}

// ---------------------------------------------------------------------------------
// Parameters: apollo-compiler's documented choices
// ---------------------------------------------------------------------------------

#[derive(Clone, Copy, Debug, PartialEq, Eq)]
pub struct Params {
    /// An error produced by the *list iterator* for an item (`ResolvedValue::List` yields
    /// `Err(FieldError)`) is recorded at `[.., index]` and fails the whole list (the list becomes
    /// null, or propagates if it is non-null), even when the item type is nullable.
    /// Source: `result_coercion.rs complete_list_value` (`inner_result.map_err(..)?`), pinned by
    /// the crate's unit test `test_error_path` (`f: [Int]`, `[42, Err]` -> `"f": null`, path
    /// `["f", 1]`). Off: the error nulls the item only (item-level field error).
    pub item_resolver_error_fails_list: bool,
    /// Int needs a JSON integer in i32 range, Float needs a JSON float (an integer is an error),
    /// String / Boolean exact, ID a string or an integer.
    /// Source: `complete_leaf_value`, comment "GraphQL services may coerce non-integer internal
    /// values to integers when reasonable without losing information — We choose not to, to keep
    /// with Rust's strong typing". Off: integral floats are accepted for Int, integers for Float.
    pub no_numeric_result_coercion: bool,
    /// For custom scalars any JSON value served as a *leaf* passes through as-is, including
    /// arrays and objects. Source: doc comment of `ResolvedValue::Leaf`, and the `_ =>` arm of
    /// `complete_leaf_value`. Off: arrays and objects are rejected for custom scalars.
    pub custom_scalar_passthrough: bool,
    /// An enum result must be a JSON string that names a value of the enum.
    /// Source: `complete_leaf_value` (`enum_def.values.contains_key(str)`). Off: any string.
    pub enum_result_must_be_defined_name: bool,
    /// The concrete type of an interface / union result is the `type_name()` of the resolved
    /// object; an unknown type, a non-member, a non-implementer are field errors at the field's
    /// path. Source: `complete_value`, doc comment of `ObjectValue::type_name`.
    /// Off: an unknown or inapplicable type name is not checked (not used by any check).
    pub abstract_type_resolution_by_type_name: bool,
    /// An object where a scalar / enum is expected, a leaf where an object / interface / union is
    /// expected, and an object whose type name differs from the expected object type are field
    /// errors at the position's path. Source: `complete_value`, `complete_leaf_value`.
    pub object_for_leaf_and_leaf_for_object_are_errors: bool,
    /// A list served where the type is not a list, and a leaf or object served where the type is
    /// a list, are field errors at the position's path.
    /// Source: `complete_list_value` ("Non-list type .. resolved to a list"), `complete_value`
    /// ("list type .. resolved to an object").
    pub list_shape_mismatch_is_error: bool,
    /// `__schema` and `__type` on the query root are field errors unless introspection was
    /// enabled on the `Execution` builder (default: disabled).
    /// Source: doc comment of `Execution::enable_schema_introspection`.
    pub introspection_disabled_is_field_error: bool,
    /// When a field error propagates out of a selection set (a non-null field failed), the
    /// remaining fields of that selection set are not executed, and when a list fails because of
    /// a non-null item the remaining items are not completed; so their errors are not recorded.
    /// The specification allows it ("the errors list must not be further affected", siblings may
    /// be cancelled); graphql-js's synchronous path behaves the same.
    /// Source: `execute_selection_set` (`execute_field(..).await?` inside the `for` loop) and
    /// `complete_list_value` (`return try_nullify(..)` inside the `while` loop).
    /// Off: all siblings are executed before the null propagates.
    pub propagation_skips_remaining_siblings: bool,
    /// DEVIATION SWITCH (known finding `C26-input-object-absent-variable`), off in the strict
    /// model: an input-object literal field whose value is a variable without a runtime value is
    /// coerced to an explicit `null` entry (an error if the field is non-null) instead of being
    /// treated as "not provided" (no entry, or the field's default value) as the table of spec
    /// section 3.10 "Input Coercion" requires (`{ a: $var, b: 123 }` with `{}` -> `{ b: 123 }`).
    pub deviation_absent_variable_in_input_object_is_null: bool,
}

impl Params {
    pub fn apollo() -> Params {
        Params {
            item_resolver_error_fails_list: true,
            no_numeric_result_coercion: true,
            custom_scalar_passthrough: true,
            enum_result_must_be_defined_name: true,
            abstract_type_resolution_by_type_name: true,
            object_for_leaf_and_leaf_for_object_are_errors: true,
            list_shape_mismatch_is_error: true,
            introspection_disabled_is_field_error: true,
            propagation_skips_remaining_siblings: true,
            deviation_absent_variable_in_input_object_is_null: false,
        }
    }
}

// ---------------------------------------------------------------------------------
// Schema view
// ---------------------------------------------------------------------------------

#[derive(Clone, Copy, Debug, PartialEq, Eq)]
pub enum NamedKind {
    BuiltinScalar,
    CustomScalar,
    Enum,
    Object,
    Interface,
    Union,
    Input,
    Undefined,
}

/// The type definitions of a schema document (no extensions), in document order.
#[derive(Clone, Debug)]
pub struct ExecSchema {
    pub types: Vec<TypeDef>,
    index: BTreeMap<String, usize>,
    pub query: String,
    pub mutation: Option<String>,
}

pub const BUILTIN_SCALARS: [&str; 5] = ["Int", "Float", "String", "Boolean", "ID"];

impl ExecSchema {
    pub fn from_document(doc: &Document) -> ExecSchema {
        let mut types = Vec::new();
        let mut index = BTreeMap::new();
        let mut query = "Query".to_string();
        let mut mutation = None;
        let mut explicit = false;
        for d in &doc.defs {
            match d {
                Definition::Type(t) => {
                    assert!(!t.extend, "exec: type extensions are not in the alphabet");
                    index.insert(t.name.clone(), types.len());
                    types.push(t.clone());
                }
                Definition::Schema(s) => {
                    explicit = true;
                    for (k, n) in &s.roots {
                        match k {
                            OpKind::Query => query = n.clone(),
                            OpKind::Mutation => mutation = Some(n.clone()),
                            OpKind::Subscription => {}
                        }
                    }
                }
                _ => {}
            }
        }
        if !explicit && index.contains_key("Mutation") {
            mutation = Some("Mutation".to_string());
        }
        ExecSchema { types, index, query, mutation }
    }
    pub fn get(&self, name: &str) -> Option<&TypeDef> {
        self.index.get(name).map(|&i| &self.types[i])
    }
    pub fn kind(&self, name: &str) -> NamedKind {
        if BUILTIN_SCALARS.contains(&name) {
            return NamedKind::BuiltinScalar;
        }
        match self.get(name).map(|t| t.kind) {
            Some(TypeKind::Scalar) => NamedKind::CustomScalar,
            Some(TypeKind::Enum) => NamedKind::Enum,
            Some(TypeKind::Object) => NamedKind::Object,
            Some(TypeKind::Interface) => NamedKind::Interface,
            Some(TypeKind::Union) => NamedKind::Union,
            Some(TypeKind::Input) => NamedKind::Input,
            None => NamedKind::Undefined,
        }
    }
    pub fn field_def(&self, ty: &str, field: &str) -> Option<&FieldDef> {
        self.get(ty)?.fields.iter().find(|f| f.name == field)
    }
    /// Object types, in document order.
    pub fn object_types(&self) -> Vec<&str> {
        self.types.iter().filter(|t| t.kind == TypeKind::Object).map(|t| t.name.as_str()).collect()
    }
    /// Possible object types of an abstract type (document order for interfaces, member order
    /// for unions); the type itself for an object type.
    pub fn possible_types(&self, name: &str) -> Vec<&str> {
        match self.get(name) {
            Some(t) if t.kind == TypeKind::Object => vec![t.name.as_str()],
            Some(t) if t.kind == TypeKind::Union => t.members.iter().map(|m| m.as_str()).collect(),
            Some(t) if t.kind == TypeKind::Interface => self
                .types
                .iter()
                .filter(|o| o.kind == TypeKind::Object && o.implements.iter().any(|i| *i == t.name))
                .map(|o| o.name.as_str())
                .collect(),
            _ => vec![],
        }
    }
    /// spec 6.3.2 DoesFragmentTypeApply(objectType, fragmentType)
    pub fn does_fragment_type_apply(&self, object_type: &str, fragment_type: &str) -> bool {
        match self.kind(fragment_type) {
            NamedKind::Object => object_type == fragment_type,
            NamedKind::Interface => self
                .get(object_type)
                .is_some_and(|o| o.implements.iter().any(|i| i == fragment_type)),
            NamedKind::Union => self
                .get(fragment_type)
                .is_some_and(|u| u.members.iter().any(|m| m == object_type)),
            _ => false,
        }
    }
}

// ---------------------------------------------------------------------------------
// Resolver worlds
// ---------------------------------------------------------------------------------

/// What a resolver (or a list iterator, for an item) hands to the executor at one position.
#[derive(Clone, Debug, PartialEq)]
pub enum Res {
    /// a leaf JSON value (null included; arrays and objects are leaves too: custom scalars)
    Leaf(Json),
    /// the resolver (or the list iterator) fails
    Error,
    /// an object claiming the concrete type `type_name`; `state` is opaque world data handed
    /// back when a field of that object is resolved
    Object { type_name: String, state: Json },
    /// a list of items (position = list position + index)
    List(Vec<Res>),
}

pub trait World {
    /// opaque state of the root object
    fn root_state(&self) -> Json {
        Json::Null
    }
    /// The value of field `field` (selected at response position `pos`, with coerced arguments
    /// `args`) of an object of concrete type `parent_type` whose opaque state is `parent_state`.
    fn resolve(&self, parent_type: &str, parent_state: &Json, field: &str, pos: &[Seg], args: &Json) -> Res;
}

/// A world written as a JSON tree keyed by *field name* (the calibration table's format):
/// `{"__error":..}` = resolver error, object = object (concrete type `__typename`, default: the
/// field's declared named type), array = list, everything else = leaf. A field whose declared
/// named type is a custom scalar is served as a leaf whatever its JSON shape. A missing key is a
/// resolver error ("unknown field").
pub struct JsonWorld<'a> {
    pub schema: &'a ExecSchema,
    pub root: Json,
}

impl JsonWorld<'_> {
    fn to_res(&self, v: &Json, declared: &str) -> Res {
        if self.schema.kind(declared) == NamedKind::CustomScalar {
            return Res::Leaf(v.clone());
        }
        match v {
            Json::Object(m) if m.contains_key("__error") => Res::Error,
            Json::Object(m) => Res::Object {
                type_name: m.get("__typename").and_then(|t| t.as_str()).unwrap_or(declared).to_string(),
                state: v.clone(),
            },
            Json::Array(a) => Res::List(a.iter().map(|x| self.to_res(x, declared)).collect()),
            leaf => Res::Leaf(leaf.clone()),
        }
    }
}

impl World for JsonWorld<'_> {
    fn root_state(&self) -> Json {
        self.root.clone()
    }
    fn resolve(&self, parent_type: &str, parent_state: &Json, field: &str, _pos: &[Seg], _args: &Json) -> Res {
        let Some(fd) = self.schema.field_def(parent_type, field) else { return Res::Error };
        match parent_state.get(field) {
            Some(v) => self.to_res(v, fd.ty.inner_name()),
            None => Res::Error,
        }
    }
}

/// A deviation from the default behaviour at one response-tree position.
#[derive(Clone, Debug, PartialEq)]
pub enum Dev {
    /// serve this leaf (null, a wrongly-typed leaf, an alternative correct value, a leaf where a
    /// list or an object is expected)
    Leaf(Json),
    /// resolver error (for a list item: the list iterator yields an error)
    Error,
    /// serve an object claiming this concrete type (unknown, wrong, or an alternative possible
    /// type; also "object where a leaf / a list is expected")
    Object(String),
    /// serve a list of this length; items are the defaults of the item type when a list is
    /// expected, the integer 1 otherwise ("list where a leaf is expected")
    List(usize),
}

impl Dev {
    pub fn to_json(&self) -> Json {
        match self {
            Dev::Leaf(v) => json!({"leaf": v}),
            Dev::Error => json!("error"),
            Dev::Object(t) => json!({"object": t}),
            Dev::List(n) => json!({"list": n}),
        }
    }
    pub fn from_json(v: &Json) -> Dev {
        if v.as_str() == Some("error") {
            Dev::Error
        } else if let Some(t) = v.get("object").and_then(|t| t.as_str()) {
            Dev::Object(t.to_string())
        } else if let Some(n) = v.get("list").and_then(|n| n.as_u64()) {
            Dev::List(n as usize)
        } else {
            Dev::Leaf(v.get("leaf").cloned().unwrap_or(Json::Null))
        }
    }
}

pub const DEFAULT_LIST_LEN: usize = 2;
/// A custom scalar of this name is served, by default, as the coerced argument map of its field
/// (so that `CoerceArgumentValues` is visible in the response).
pub const ECHO_SCALAR: &str = "Echo";

/// The positional world: at every position the *default* (correct) value of the expected type,
/// except at the listed positions.
///
/// Defaults: Int 1, Float 1.5, String "s", Boolean true, ID "id", custom scalar `{"k":[1]}`
/// (`Echo`: the coerced arguments), enum: its first value, object: an object of that type,
/// interface / union: an object of the first possible type, list: two items.
pub struct PosWorld<'a> {
    pub schema: &'a ExecSchema,
    pub deviations: Vec<(Path, Dev)>,
}

impl PosWorld<'_> {
    pub fn deviation_at(&self, pos: &[Seg]) -> Option<&Dev> {
        self.deviations.iter().find(|(p, _)| p.as_slice() == pos).map(|(_, d)| d)
    }
    pub fn default_leaf(&self, name: &str, args: &Json) -> Json {
        match name {
            "Int" => json!(1),
            "Float" => json!(1.5),
            "String" => json!("s"),
            "Boolean" => json!(true),
            "ID" => json!("id"),
            ECHO_SCALAR => args.clone(),
            _ => match self.schema.kind(name) {
                NamedKind::Enum => json!(self.schema.get(name).unwrap().values[0].name),
                _ => json!({"k": [1]}),
            },
        }
    }
    pub fn build(&self, ty: &Ty, pos: &mut Path, args: &Json) -> Res {
        if let Some(dev) = self.deviation_at(pos) {
            return match dev {
                Dev::Leaf(v) => Res::Leaf(v.clone()),
                Dev::Error => Res::Error,
                Dev::Object(t) => Res::Object { type_name: t.clone(), state: Json::Null },
                Dev::List(n) => Res::List(
                    (0..*n)
                        .map(|i| match ty.item() {
                            Some(item) => {
                                pos.push(Seg::Index(i));
                                let r = self.build(item, pos, args);
                                pos.pop();
                                r
                            }
                            None => Res::Leaf(json!(1)),
                        })
                        .collect(),
                ),
            };
        }
        match ty.nullable() {
            Ty::List(item) => Res::List(
                (0..DEFAULT_LIST_LEN)
                    .map(|i| {
                        pos.push(Seg::Index(i));
                        let r = self.build(item, pos, args);
                        pos.pop();
                        r
                    })
                    .collect(),
            ),
            Ty::Named(n) => match self.schema.kind(n) {
                NamedKind::Object => Res::Object { type_name: n.clone(), state: Json::Null },
                NamedKind::Interface | NamedKind::Union => Res::Object {
                    type_name: self.schema.possible_types(n).first().copied().unwrap_or("Undefined").to_string(),
                    state: Json::Null,
                },
                _ => Res::Leaf(self.default_leaf(n, args)),
            },
            Ty::NonNull(_) => unreachable!(),
        }
    }
}

impl World for PosWorld<'_> {
    fn resolve(&self, parent_type: &str, _state: &Json, field: &str, pos: &[Seg], args: &Json) -> Res {
        match self.schema.field_def(parent_type, field) {
            Some(fd) => self.build(&fd.ty, &mut pos.to_vec(), args),
            None => Res::Error,
        }
    }
}

/// The deviation menu at a position whose expected type is `ty` (DESIGN C26 "Explored"):
/// null, wrongly-typed leaves, alternative correct values, resolver error, object of unknown /
/// wrong / alternative type, leaf or object where a list is expected, list where a leaf or an
/// object is expected, lists of other lengths.
pub fn deviation_menu(schema: &ExecSchema, ty: &Ty) -> Vec<Dev> {
    let first_object = schema.object_types().first().map(|s| s.to_string()).unwrap_or_else(|| "Query".into());
    let mut m = vec![Dev::Leaf(Json::Null), Dev::Error];
    match ty.nullable() {
        Ty::List(_) => {
            m.push(Dev::Leaf(json!(1)));
            m.push(Dev::Object(first_object));
            m.push(Dev::List(0));
            m.push(Dev::List(1));
            m.push(Dev::List(3));
        }
        Ty::Named(n) => {
            m.push(Dev::List(1));
            let leaves: Vec<Json> = match (n.as_str(), schema.kind(n)) {
                ("Int", _) => vec![
                    json!("s"),
                    json!(1.5),
                    json!(1.0),
                    json!(true),
                    json!(2147483647),
                    json!(2147483648u64),
                    json!(-2147483648i64),
                    json!(-2147483649i64),
                ],
                ("Float", _) => vec![json!(1), json!("s"), json!(0.0), json!(-2.5e10)],
                ("String", _) => vec![json!(1), json!(""), json!(true)],
                ("Boolean", _) => vec![json!(0), json!("true"), json!(false)],
                ("ID", _) => vec![json!(1), json!(1.5), json!(true), json!("")],
                (_, NamedKind::CustomScalar) => vec![json!([1, {"k": 2}]), json!("s"), json!({"a": null})],
                (_, NamedKind::Enum) => {
                    let vals = &schema.get(n).unwrap().values;
                    let mut v = vec![json!("NOPE"), json!(1), json!(vals[0].name.to_lowercase())];
                    if vals.len() > 1 {
                        v.push(json!(vals[1].name));
                    }
                    v
                }
                _ => vec![json!(5), json!("s")],
            };
            m.extend(leaves.into_iter().map(Dev::Leaf));
            match schema.kind(n) {
                NamedKind::Object | NamedKind::Interface | NamedKind::Union => {
                    let default = schema.possible_types(n).first().map(|s| s.to_string());
                    m.push(Dev::Object("Nope".into()));
                    for o in schema.object_types() {
                        if Some(o.to_string()) != default {
                            m.push(Dev::Object(o.to_string()));
                        }
                    }
                }
                _ => m.push(Dev::Object(first_object)),
            }
        }
        Ty::NonNull(_) => unreachable!(),
    }
    m
}

// ---------------------------------------------------------------------------------
// Requests and outcomes
// ---------------------------------------------------------------------------------

pub struct Request<'a> {
    pub schema: &'a ExecSchema,
    pub operation: &'a Operation,
    pub fragments: &'a [Fragment],
    /// coerced variable values; an absent key = no value
    pub variables: &'a Map<String, Json>,
}

#[derive(Clone, Debug, PartialEq)]
pub struct Outcome {
    /// `Json::Null` or the response map (key order = spec order)
    pub data: Json,
    /// the `path` of every field error, in the order they are raised
    pub error_paths: Vec<Path>,
    /// every position at which a resolver result was consumed, with the expected type there
    pub visited: Vec<(Path, Ty)>,
    /// resolver calls (field position, coerced arguments) in execution order
    pub calls: Vec<(Path, Json)>,
    /// names of the deviation switches that changed a sub-decision in this run
    pub deviations_fired: Vec<&'static str>,
}

/// A field error propagating upwards to the nearest nullable position.
struct Propagate;

struct Exec<'a, W: World> {
    req: &'a Request<'a>,
    world: &'a W,
    p: Params,
    errors: Vec<Path>,
    visited: Vec<(Path, Ty)>,
    calls: Vec<(Path, Json)>,
    fired: std::cell::RefCell<Vec<&'static str>>,
}

/// spec 6.1 ExecuteRequest / 6.2.1 ExecuteQuery / 6.2.2 ExecuteMutation
pub fn execute<W: World>(req: &Request<'_>, world: &W, p: Params) -> Outcome {
    let root_type = match req.operation.kind {
        OpKind::Query => req.schema.query.clone(),
        OpKind::Mutation => req.schema.mutation.clone().expect("exec: schema has no mutation root"),
        OpKind::Subscription => panic!("exec: subscriptions are not in the alphabet"),
    };
    let mut ex = Exec { req, world, p, errors: vec![], visited: vec![], calls: vec![], fired: Default::default() };
    let sels: Vec<&Selection> = req.operation.selection.iter().collect();
    let mut path = Vec::new();
    // Mutations execute their root selection set serially, queries "normally"; this executor is
    // serial throughout, which is one of the orders allowed for normal execution.
    let data = match ex.execute_selection_set(&sels, &root_type, &world.root_state(), &mut path) {
        Ok(map) => Json::Object(map),
        // "If all fields from the root of the request to the source of the field error return
        // Non-Null types, then the data entry in the response should be null."
        Err(Propagate) => Json::Null,
    };
    Outcome { data, error_paths: ex.errors, visited: ex.visited, calls: ex.calls, deviations_fired: ex.fired.into_inner() }
}

/// spec 6.3.2 CollectFields, public because the direct invariants of C26 need the grouped field
/// set of an object to type its response map.
pub fn collect_fields<'a>(
    req: &Request<'a>,
    object_type: &str,
    selections: &[&'a Selection],
    visited_fragments: &mut BTreeSet<&'a str>,
    grouped: &mut Vec<(String, Vec<&'a Field>)>,
) {
    for sel in selections {
        let directives = match sel {
            Selection::Field(f) => &f.directives,
            Selection::Spread { directives, .. } => directives,
            Selection::Inline { directives, .. } => directives,
        };
        // "If selection provides the directive @skip .. if skipDirective's if argument is true or
        // is a variable in variableValues with the value true, continue"
        if let Some(d) = directives.iter().find(|d| d.name == "skip") {
            if if_argument_is_true(d, req.variables) {
                continue;
            }
        }
        // "If selection provides the directive @include .. if includeDirective's if argument is
        // not true and is not a variable in variableValues with the value true, continue"
        if let Some(d) = directives.iter().find(|d| d.name == "include") {
            if !if_argument_is_true(d, req.variables) {
                continue;
            }
        }
        match sel {
            Selection::Field(f) => {
                let key = f.key();
                match grouped.iter_mut().find(|(k, _)| k == key) {
                    Some((_, g)) => g.push(f),
                    None => grouped.push((key.to_string(), vec![f])),
                }
            }
            Selection::Spread { name, .. } => {
                if !visited_fragments.insert(name.as_str()) {
                    continue;
                }
                let Some(frag) = req.fragments.iter().find(|f| f.name == *name) else { continue };
                if !req.schema.does_fragment_type_apply(object_type, &frag.on) {
                    continue;
                }
                let inner: Vec<&Selection> = frag.selection.iter().collect();
                collect_fields(req, object_type, &inner, visited_fragments, grouped);
            }
            Selection::Inline { on, selection, .. } => {
                if let Some(t) = on {
                    if !req.schema.does_fragment_type_apply(object_type, t) {
                        continue;
                    }
                }
                let inner: Vec<&Selection> = selection.iter().collect();
                collect_fields(req, object_type, &inner, visited_fragments, grouped);
            }
        }
    }
}

fn if_argument_is_true(d: &Directive, vars: &Map<String, Json>) -> bool {
    match d.arg("if") {
        Some(Value::Bool(b)) => *b,
        Some(Value::Var(v)) => vars.get(v) == Some(&Json::Bool(true)),
        _ => false,
    }
}

/// Literal -> JSON without a type (graphql-js `valueFromASTUntyped`), used for custom scalars.
fn literal_untyped(v: &Value, vars: &Map<String, Json>) -> Json {
    match v {
        Value::Null => Json::Null,
        Value::Bool(b) => json!(b),
        Value::Int(s) => s.parse::<i64>().map(|i| json!(i)).unwrap_or_else(|_| json!(s.parse::<f64>().unwrap())),
        Value::Float(s) => json!(s.parse::<f64>().unwrap()),
        Value::Str(s) | Value::Enum(s) => json!(s),
        Value::Var(n) => vars.get(n).cloned().unwrap_or(Json::Null),
        Value::List(items) => Json::Array(items.iter().map(|i| literal_untyped(i, vars)).collect()),
        Value::Object(fields) => {
            let mut m = Map::new();
            for (k, v) in fields {
                m.insert(k.clone(), literal_untyped(v, vars));
            }
            Json::Object(m)
        }
    }
}

impl<'a, W: World> Exec<'a, W> {
    /// spec 6.3 ExecuteSelectionSet (selection sets are passed merged: 6.4.3 MergeSelectionSets)
    fn execute_selection_set(
        &mut self,
        selections: &[&'a Selection],
        object_type: &str,
        object_state: &Json,
        path: &mut Path,
    ) -> Result<Map<String, Json>, Propagate> {
        let mut grouped = Vec::new();
        collect_fields(self.req, object_type, selections, &mut BTreeSet::new(), &mut grouped);
        let mut result = Map::new();
        let mut propagate = false;
        for (key, fields) in &grouped {
            let field_name = fields[0].name.as_str();
            // "If fieldType is defined" (meta-fields are always defined)
            let defined = field_name == "__typename"
                || ((field_name == "__schema" || field_name == "__type") && object_type == self.req.schema.query)
                || self.req.schema.field_def(object_type, field_name).is_some();
            if !defined {
                continue;
            }
            path.push(Seg::Key(key.clone()));
            let r = self.execute_field(object_type, object_state, fields, path);
            path.pop();
            match r {
                Ok(v) => {
                    result.insert(key.clone(), v);
                }
                Err(Propagate) => {
                    if self.p.propagation_skips_remaining_siblings {
                        return Err(Propagate);
                    }
                    propagate = true;
                }
            }
        }
        if propagate {
            Err(Propagate)
        } else {
            Ok(result)
        }
    }

    /// spec 6.4 ExecuteField
    fn execute_field(
        &mut self,
        object_type: &str,
        object_state: &Json,
        fields: &[&'a Field],
        path: &mut Path,
    ) -> Result<Json, Propagate> {
        let field = fields[0];
        match field.name.as_str() {
            // 4.4: `__typename: String!` returns the name of the object type
            "__typename" => return Ok(json!(object_type)),
            "__schema" | "__type" if object_type == self.req.schema.query => {
                assert!(
                    self.p.introspection_disabled_is_field_error,
                    "exec: schema introspection itself is modelled by refmodel::introspect (C24), not here"
                );
                self.errors.push(path.clone());
                // `__schema: __Schema!` propagates, `__type(name: String!): __Type` is nullable
                return if field.name == "__schema" { Err(Propagate) } else { Ok(Json::Null) };
            }
            _ => {}
        }
        let fdef = self.req.schema.field_def(object_type, &field.name).expect("checked by the caller");
        let completed = match self.coerce_argument_values(fdef, field) {
            // "a coercion error is a field error"
            Err(()) => {
                self.errors.push(path.clone());
                Err(Propagate)
            }
            Ok(args) => {
                let args = Json::Object(args);
                self.calls.push((path.clone(), args.clone()));
                // 6.4.2 ResolveFieldValue
                let res = self.world.resolve(object_type, object_state, &field.name, path, &args);
                // 6.4.3 CompleteValue
                self.complete_value(&fdef.ty, fields, res, path)
            }
        };
        // 6.4.4 Handling Field Errors
        match completed {
            Ok(v) => Ok(v),
            Err(Propagate) if fdef.ty.is_non_null() => Err(Propagate),
            Err(Propagate) => Ok(Json::Null),
        }
    }

    /// spec 6.4.1 CoerceArgumentValues
    fn coerce_argument_values(&mut self, fdef: &FieldDef, field: &Field) -> Result<Map<String, Json>, ()> {
        let vars = self.req.variables;
        let mut coerced = Map::new();
        for adef in &fdef.args {
            let provided = field.args.iter().find(|(k, _)| *k == adef.name).map(|(_, v)| v);
            let (has_value, value): (bool, Option<Json>) = match provided {
                None => (false, None),
                Some(Value::Var(v)) => match vars.get(v) {
                    Some(j) => (true, Some(j.clone())),
                    None => (false, None),
                },
                Some(_) => (true, None),
            };
            if !has_value && adef.default.is_some() {
                let d = adef.default.as_ref().unwrap();
                coerced.insert(adef.name.clone(), self.coerce_literal(&adef.ty, d)?);
            } else if adef.ty.is_non_null() && (!has_value || value.as_ref().is_some_and(|j| j.is_null())) {
                return Err(());
            } else if has_value {
                match (provided, value) {
                    // a variable: its (already coerced) runtime value is used as is
                    (_, Some(j)) => {
                        coerced.insert(adef.name.clone(), j);
                    }
                    (Some(lit), None) => {
                        let j = self.coerce_literal(&adef.ty, lit)?;
                        coerced.insert(adef.name.clone(), j);
                    }
                    (None, None) => unreachable!(),
                }
            }
        }
        Ok(coerced)
    }

    /// Input coercion of a literal (spec 3.5–3.11 "Input Coercion"), restricted to the shapes of
    /// the alphabet; anything outside panics rather than guesses.
    fn coerce_literal(&self, ty: &Ty, v: &Value) -> Result<Json, ()> {
        let vars = self.req.variables;
        if let Value::Var(name) = v {
            // a variable nested in a list literal (object fields are handled by the caller)
            return match vars.get(name) {
                Some(j) if j.is_null() && ty.is_non_null() => Err(()),
                Some(j) => Ok(j.clone()),
                None if ty.is_non_null() => Err(()),
                None => Ok(Json::Null),
            };
        }
        if matches!(v, Value::Null) {
            return if ty.is_non_null() { Err(()) } else { Ok(Json::Null) };
        }
        match ty.nullable() {
            Ty::List(item) => match v {
                Value::List(items) => items.iter().map(|i| self.coerce_literal(item, i)).collect::<Result<Vec<_>, _>>().map(Json::Array),
                // "If the value passed as an input to a list type is not a list and not the null
                // value, then the result of input coercion is a list of size one"
                single => Ok(Json::Array(vec![self.coerce_literal(item, single)?])),
            },
            Ty::Named(n) => match (n.as_str(), self.req.schema.kind(n), v) {
                ("Int", _, Value::Int(s)) => match s.parse::<i64>() {
                    Ok(i) if i32::try_from(i).is_ok() => Ok(json!(i)),
                    _ => Err(()),
                },
                ("Float", _, Value::Float(s)) => s.parse::<f64>().map(|f| json!(f)).map_err(|_| ()),
                ("Float", _, Value::Int(_)) => panic!("exec: Int literal in a Float position is not in the alphabet (1 vs 1.0 in JSON)"),
                ("String", _, Value::Str(s)) => Ok(json!(s)),
                ("Boolean", _, Value::Bool(b)) => Ok(json!(b)),
                ("ID", _, Value::Str(s)) => Ok(json!(s)),
                ("ID", _, Value::Int(_)) => panic!("exec: Int literal in an ID position is not in the alphabet"),
                (_, NamedKind::BuiltinScalar, _) => Err(()),
                (_, NamedKind::CustomScalar, lit) => Ok(literal_untyped(lit, vars)),
                (_, NamedKind::Enum, Value::Enum(e)) => {
                    if self.req.schema.get(n).unwrap().values.iter().any(|x| x.name == *e) {
                        Ok(json!(e))
                    } else {
                        Err(())
                    }
                }
                (_, NamedKind::Enum, _) => Err(()),
                (_, NamedKind::Input, Value::Object(fields)) => {
                    let def = self.req.schema.get(n).unwrap();
                    if fields.iter().any(|(k, _)| !def.input_fields.iter().any(|f| f.name == *k)) {
                        return Err(());
                    }
                    let mut m = Map::new();
                    for fdef in &def.input_fields {
                        let provided = fields.iter().find(|(k, _)| *k == fdef.name).map(|(_, v)| v);
                        // "{ a: $var }" with no runtime value for $var: the field counts as not provided
                        let provided = match provided {
                            Some(Value::Var(name)) if !vars.contains_key(name) => {
                                if self.p.deviation_absent_variable_in_input_object_is_null {
                                    let mut fired = self.fired.borrow_mut();
                                    if !fired.contains(&"absent_variable_in_input_object_is_null") {
                                        fired.push("absent_variable_in_input_object_is_null");
                                    }
                                    if fdef.ty.is_non_null() {
                                        return Err(());
                                    }
                                    m.insert(fdef.name.clone(), Json::Null);
                                    continue;
                                }
                                None
                            }
                            other => other,
                        };
                        match provided {
                            Some(lit) => {
                                m.insert(fdef.name.clone(), self.coerce_literal(&fdef.ty, lit)?);
                            }
                            None => {
                                if let Some(d) = &fdef.default {
                                    m.insert(fdef.name.clone(), self.coerce_literal(&fdef.ty, d)?);
                                } else if fdef.ty.is_non_null() {
                                    return Err(());
                                }
                            }
                        }
                    }
                    Ok(Json::Object(m))
                }
                (_, NamedKind::Input, _) => Err(()),
                (name, kind, lit) => panic!("exec: literal {lit:?} for argument type {name} ({kind:?}) is not in the alphabet"),
            },
            Ty::NonNull(_) => unreachable!(),
        }
    }

    fn field_error(&mut self, path: &Path) -> Result<Json, Propagate> {
        self.errors.push(path.clone());
        Err(Propagate)
    }

    /// spec 6.4.3 CompleteValue. `Err` = a field error at this position (already recorded) or
    /// propagated from below; the caller nullifies it at the nearest nullable position.
    fn complete_value(&mut self, ty: &Ty, fields: &[&'a Field], res: Res, path: &mut Path) -> Result<Json, Propagate> {
        self.visited.push((path.clone(), ty.clone()));
        match res {
            // ResolveFieldValue (or the list iterator) raised an error
            Res::Error => self.field_error(path),
            // "If the fieldType is a Non-Null type .. if completedResult is null, raise a field
            // error"; "If result is null, return null"
            Res::Leaf(Json::Null) => {
                if ty.is_non_null() {
                    self.field_error(path)
                } else {
                    Ok(Json::Null)
                }
            }
            Res::List(items) => {
                let Some(item_ty) = ty.item() else {
                    assert!(self.p.list_shape_mismatch_is_error, "exec: alternative not modelled");
                    return self.field_error(path);
                };
                let mut out = Vec::new();
                let mut propagate = false;
                for (i, item) in items.into_iter().enumerate() {
                    path.push(Seg::Index(i));
                    let r = if item == Res::Error && self.p.item_resolver_error_fails_list {
                        self.visited.push((path.clone(), item_ty.clone()));
                        self.errors.push(path.clone());
                        path.pop();
                        return Err(Propagate);
                    } else {
                        self.complete_value(item_ty, fields, item, path)
                    };
                    path.pop();
                    match r {
                        Ok(v) => out.push(v),
                        Err(Propagate) if item_ty.is_non_null() => {
                            if self.p.propagation_skips_remaining_siblings {
                                return Err(Propagate);
                            }
                            propagate = true;
                        }
                        Err(Propagate) => out.push(Json::Null),
                    }
                }
                if propagate {
                    Err(Propagate)
                } else {
                    Ok(Json::Array(out))
                }
            }
            Res::Leaf(v) => {
                if ty.is_list() {
                    assert!(self.p.list_shape_mismatch_is_error, "exec: alternative not modelled");
                    return self.field_error(path);
                }
                let name = ty.inner_name();
                match self.req.schema.kind(name) {
                    NamedKind::BuiltinScalar | NamedKind::CustomScalar | NamedKind::Enum => match self.coerce_result(name, v) {
                        Some(v) => Ok(v),
                        None => self.field_error(path),
                    },
                    NamedKind::Object | NamedKind::Interface | NamedKind::Union => {
                        assert!(self.p.object_for_leaf_and_leaf_for_object_are_errors, "exec: alternative not modelled");
                        self.field_error(path)
                    }
                    k => panic!("exec: field of type {name} ({k:?})"),
                }
            }
            Res::Object { type_name, state } => {
                if ty.is_list() {
                    assert!(self.p.list_shape_mismatch_is_error, "exec: alternative not modelled");
                    return self.field_error(path);
                }
                let name = ty.inner_name();
                let schema = self.req.schema;
                let object_type = match schema.kind(name) {
                    NamedKind::BuiltinScalar | NamedKind::CustomScalar | NamedKind::Enum => {
                        assert!(self.p.object_for_leaf_and_leaf_for_object_are_errors, "exec: alternative not modelled");
                        return self.field_error(path);
                    }
                    NamedKind::Object => {
                        if type_name != name {
                            assert!(self.p.object_for_leaf_and_leaf_for_object_are_errors, "exec: alternative not modelled");
                            return self.field_error(path);
                        }
                        type_name
                    }
                    // 6.4.3 ResolveAbstractType
                    NamedKind::Interface | NamedKind::Union => {
                        if self.p.abstract_type_resolution_by_type_name
                            && !(schema.kind(&type_name) == NamedKind::Object
                                && schema.possible_types(name).contains(&type_name.as_str()))
                        {
                            return self.field_error(path);
                        }
                        type_name
                    }
                    k => panic!("exec: field of type {name} ({k:?})"),
                };
                // MergeSelectionSets(fields)
                let sub: Vec<&'a Selection> = fields.iter().flat_map(|f| f.selection.iter()).collect();
                self.execute_selection_set(&sub, &object_type, &state, path).map(Json::Object)
            }
        }
    }

    /// Result coercion of a leaf (spec 3.5 "Result Coercion" of each scalar, 3.9 enums).
    fn coerce_result(&self, name: &str, v: Json) -> Option<Json> {
        let int_like = |v: &Json| v.is_i64() || v.is_u64();
        match name {
            "Int" => {
                if let Some(i) = v.as_i64().filter(|_| int_like(&v)) {
                    return i32::try_from(i).ok().map(|_| v);
                }
                if !self.p.no_numeric_result_coercion {
                    if let Some(f) = v.as_f64().filter(|f| v.is_f64() && f.fract() == 0.0) {
                        if f >= i32::MIN as f64 && f <= i32::MAX as f64 {
                            return Some(json!(f as i64));
                        }
                    }
                }
                None
            }
            "Float" => {
                if v.is_f64() {
                    Some(v)
                } else if !self.p.no_numeric_result_coercion && int_like(&v) {
                    Some(json!(v.as_f64().unwrap()))
                } else {
                    None
                }
            }
            "String" => v.is_string().then_some(v),
            "Boolean" => v.is_boolean().then_some(v),
            // "ID .. serialized as a String" — apollo passes strings and integers through
            "ID" => (v.is_string() || v.is_i64()).then_some(v),
            _ => match self.req.schema.kind(name) {
                NamedKind::Enum => {
                    let s = v.as_str()?;
                    if !self.p.enum_result_must_be_defined_name
                        || self.req.schema.get(name).unwrap().values.iter().any(|x| x.name == s)
                    {
                        Some(v)
                    } else {
                        None
                    }
                }
                _ => {
                    if self.p.custom_scalar_passthrough || !(v.is_array() || v.is_object()) {
                        Some(v)
                    } else {
                        None
                    }
                }
            },
        }
    }
}

/// The coerced variable map of a request whose raw values are already of the declared types:
/// provided values as they are, a declared default (already in coerced form) when no value is
/// provided, nothing for a nullable variable without value and default (spec 6.1.2
/// CoerceVariableValues restricted to well-typed input; the general algorithm is C28's).
pub fn coerced_variables(op: &Operation, raw: &Map<String, Json>) -> Map<String, Json> {
    let mut out = Map::new();
    let empty = Map::new();
    for vd in &op.vars {
        if let Some(v) = raw.get(&vd.name) {
            out.insert(vd.name.clone(), v.clone());
        } else if let Some(d) = &vd.default {
            out.insert(vd.name.clone(), literal_untyped(d, &empty));
        } else {
            assert!(!vd.ty.is_non_null(), "exec: required variable ${} not provided", vd.name);
        }
    }
    out
}

#[cfg(test)]
#[path = "exec/tests.rs"]
mod tests;
