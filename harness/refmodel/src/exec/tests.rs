//! Calibration of the reference executor: the 51 hand-written cases of
//! /verif/calibration/c26_execution_cases.rs.txt (expected `data` incl. key order and error paths
//! written down before anything was run; apollo-compiler c132771 agreed on all of them once custom
//! scalars were served as leaves), the crate's own unit test `test_error_path`, the specification's
//! examples of section 6 that fit the alphabet, and the argument-coercion table of section 3.10.

use super::*;
use crate::execparse::parse_document;

const SDL: &str = "interface I { x: Int } type T implements I { x: Int xn: Int! s: String } type V { x: Int } \
    union U = T | V scalar C enum E { A B } \
    type Query { a: Int nn: Int! l: [Int] ln: [Int!] lnn: [Int!]! ll: [[Int!]] t: T tn: T! lt: [T] ltn: [T!] \
    i: I u: U f: Float s: String b: Boolean id: ID c: C e: E arg(x: Int! = 5, y: [Int]): Int }";

fn run_with(sdl: &str, query: &str, world: Json, vars: Json, p: Params) -> (Json, Vec<Json>, Vec<(Path, Json)>) {
    let schema = ExecSchema::from_document(&parse_document(sdl).unwrap());
    let doc = parse_document(query).unwrap_or_else(|e| panic!("{query}: {e}"));
    let op = doc.operations().next().unwrap().clone();
    let frags: Vec<Fragment> = doc.fragments().cloned().collect();
    let raw = vars.as_object().unwrap().clone();
    let vars = coerced_variables(&op, &raw);
    let req = Request { schema: &schema, operation: &op, fragments: &frags, variables: &vars };
    let out = execute(&req, &JsonWorld { schema: &schema, root: world }, p);
    (out.data, out.error_paths.iter().map(|p| path_json(p)).collect(), out.calls)
}

fn check(query: &str, world: Json, vars: Json, exp_data: Json, exp_paths: Vec<Json>) {
    let (data, paths, _) = run_with(SDL, query, world.clone(), vars, Params::apollo());
    assert_eq!(
        (data.to_string(), &paths),
        (exp_data.to_string(), &exp_paths),
        "query {query} world {world}"
    );
}

#[test]
fn calibration_table() {
    let n = Json::Null;
    let e = || json!({});
    let cases: Vec<(&str, Json, Json, Json, Vec<Json>)> = vec![
        ("{a}", json!({"a":1}), e(), json!({"a":1}), vec![]),
        ("{a}", json!({"a":null}), e(), json!({"a":null}), vec![]),
        ("{nn}", json!({"nn":null}), e(), n.clone(), vec![json!(["nn"])]),
        ("{a}", json!({"a":"s"}), e(), json!({"a":null}), vec![json!(["a"])]),
        ("{a}", json!({"a":1.5}), e(), json!({"a":null}), vec![json!(["a"])]),
        ("{a}", json!({"a":2147483648u64}), e(), json!({"a":null}), vec![json!(["a"])]),
        ("{a}", json!({"a":{"__error":1}}), e(), json!({"a":null}), vec![json!(["a"])]),
        ("{a nn}", json!({"a":1,"nn":{"__error":1}}), e(), n.clone(), vec![json!(["nn"])]),
        ("{l}", json!({"l":[1,null]}), e(), json!({"l":[1,null]}), vec![]),
        ("{ln}", json!({"ln":[1,null]}), e(), json!({"ln":null}), vec![json!(["ln",1])]),
        ("{lnn}", json!({"lnn":[1,null]}), e(), n.clone(), vec![json!(["lnn",1])]),
        ("{l}", json!({"l":[1,"s",3]}), e(), json!({"l":[1,null,3]}), vec![json!(["l",1])]),
        // documented choice item_resolver_error_fails_list
        ("{l}", json!({"l":[1,{"__error":1},3]}), e(), json!({"l":null}), vec![json!(["l",1])]),
        ("{ll}", json!({"ll":[[1],[2,null]]}), e(), json!({"ll":[[1],null]}), vec![json!(["ll",1,1])]),
        ("{ll}", json!({"ll":[1]}), e(), json!({"ll":[null]}), vec![json!(["ll",0])]),
        ("{a}", json!({"a":[1]}), e(), json!({"a":null}), vec![json!(["a"])]),
        ("{l}", json!({"l":1}), e(), json!({"l":null}), vec![json!(["l"])]),
        ("{t{x}}", json!({"t":null}), e(), json!({"t":null}), vec![]),
        ("{tn{x}}", json!({"tn":null}), e(), n.clone(), vec![json!(["tn"])]),
        ("{t{xn}}", json!({"t":{"xn":null}}), e(), json!({"t":null}), vec![json!(["t","xn"])]),
        ("{tn{xn} a}", json!({"tn":{"xn":null},"a":1}), e(), n.clone(), vec![json!(["tn","xn"])]),
        ("{lt{xn}}", json!({"lt":[{"xn":1},{"xn":null}]}), e(), json!({"lt":[{"xn":1},null]}), vec![json!(["lt",1,"xn"])]),
        ("{ltn{xn}}", json!({"ltn":[{"xn":1},{"xn":null}]}), e(), json!({"ltn":null}), vec![json!(["ltn",1,"xn"])]),
        ("{t{x}}", json!({"t":5}), e(), json!({"t":null}), vec![json!(["t"])]),
        ("{a}", json!({"a":{"x":1}}), e(), json!({"a":null}), vec![json!(["a"])]),
        ("{t{x}}", json!({"t":{"__typename":"V","x":1}}), e(), json!({"t":null}), vec![json!(["t"])]),
        ("{i{x}}", json!({"i":{"__typename":"T","x":1}}), e(), json!({"i":{"x":1}}), vec![]),
        ("{i{x}}", json!({"i":{"__typename":"V","x":1}}), e(), json!({"i":null}), vec![json!(["i"])]),
        ("{i{x}}", json!({"i":{"__typename":"Nope","x":1}}), e(), json!({"i":null}), vec![json!(["i"])]),
        ("{u{... on T{x s} ... on V{x}}}", json!({"u":{"__typename":"V","x":1}}), e(), json!({"u":{"x":1}}), vec![]),
        ("{u{__typename ... on T{s}}}", json!({"u":{"__typename":"T","s":"k"}}), e(), json!({"u":{"__typename":"T","s":"k"}}), vec![]),
        ("{u{... on I{x}}}", json!({"u":{"__typename":"T","x":1}}), e(), json!({"u":{"x":1}}), vec![]),
        // documented choice no_numeric_result_coercion
        ("{f}", json!({"f":1}), e(), json!({"f":null}), vec![json!(["f"])]),
        ("{f}", json!({"f":1.5}), e(), json!({"f":1.5}), vec![]),
        ("{id}", json!({"id":1}), e(), json!({"id":1}), vec![]),
        ("{id}", json!({"id":"x"}), e(), json!({"id":"x"}), vec![]),
        ("{id}", json!({"id":1.5}), e(), json!({"id":null}), vec![json!(["id"])]),
        // custom scalar: served as a leaf whatever its shape (the probe artefact of the design phase)
        ("{c}", json!({"c":[1,{"k":2}]}), e(), json!({"c":[1,{"k":2}]}), vec![]),
        ("{e}", json!({"e":"A"}), e(), json!({"e":"A"}), vec![]),
        ("{e}", json!({"e":"C"}), e(), json!({"e":null}), vec![json!(["e"])]),
        ("{b}", json!({"b":1}), e(), json!({"b":null}), vec![json!(["b"])]),
        ("{a @skip(if:true)}", json!({"a":1}), e(), json!({}), vec![]),
        ("{a @include(if:false) s}", json!({"a":1,"s":"k"}), e(), json!({"s":"k"}), vec![]),
        ("{a @skip(if:false) @include(if:true)}", json!({"a":1}), e(), json!({"a":1}), vec![]),
        ("{a @skip(if:true) @include(if:true)}", json!({"a":1}), e(), json!({}), vec![]),
        ("query($v:Boolean!){a @skip(if:$v)}", json!({"a":1}), json!({"v":true}), json!({}), vec![]),
        ("{t{x} t{s}}", json!({"t":{"x":1,"s":"k"}}), e(), json!({"t":{"x":1,"s":"k"}}), vec![]),
        ("{z:a a}", json!({"a":1}), e(), json!({"z":1,"a":1}), vec![]),
        ("{...F a} fragment F on Query {s ...F2} fragment F2 on Query {b}", json!({"a":1,"s":"k","b":true}), e(), json!({"s":"k","b":true,"a":1}), vec![]),
        ("{__typename t{__typename}}", json!({"t":{}}), e(), json!({"__typename":"Query","t":{"__typename":"T"}}), vec![]),
        ("{zz: a}", json!({}), e(), json!({"zz":null}), vec![json!(["zz"])]),
    ];
    assert_eq!(cases.len(), 51);
    for (q, world, vars, data, paths) in cases {
        check(q, world, vars, data, paths);
    }
}

/// apollo-compiler's only execution unit test (`result_coercion.rs test_error_path`).
#[test]
fn apollo_test_error_path() {
    let (data, paths, _) = run_with("type Query { f: [Int] }", "{ f }", json!({"f":[42,{"__error":"!"}]}), json!({}), Params::apollo());
    assert_eq!(data, json!({"f": null}));
    assert_eq!(paths, vec![json!(["f", 1])]);
    // the spec-pure alternative: the error nulls the item
    let mut p = Params::apollo();
    p.item_resolver_error_fails_list = false;
    let (data, paths, _) = run_with("type Query { f: [Int] }", "{ f }", json!({"f":[42,{"__error":"!"}]}), json!({}), p);
    assert_eq!(data, json!({"f": [42, null]}));
    assert_eq!(paths, vec![json!(["f", 1])]);
}

/// spec 6.3.2 examples 196/197 (field collection merges sub-selections in first-seen order) and
/// 6.4.4: null propagation examples.
#[test]
fn spec_section_6_examples() {
    let sdl = "type Query { me: User! hero: Hero } type User { firstName: String lastName: String friends: [User] } \
               type Hero { name: String! friends: [Hero!] id: ID }";
    // "{ me { firstName } me { lastName } }" executes as one `me` with both sub-fields
    let (data, paths, calls) = run_with(
        sdl,
        "{ me { firstName } me { lastName } }",
        json!({"me": {"firstName": "a", "lastName": "b"}}),
        json!({}),
        Params::apollo(),
    );
    assert_eq!(data.to_string(), r#"{"me":{"firstName":"a","lastName":"b"}}"#);
    assert!(paths.is_empty());
    assert_eq!(calls.len(), 3, "me is resolved once");
    // 6.4.4: a null in a non-null field nulls the nearest nullable parent
    let (data, paths, _) = run_with(
        sdl,
        "{ hero { name friends { name } } }",
        json!({"hero": {"name": "R2", "friends": [{"name": "L"}, {"name": null}]}}),
        json!({}),
        Params::apollo(),
    );
    assert_eq!(data.to_string(), r#"{"hero":{"name":"R2","friends":null}}"#);
    assert_eq!(paths, vec![json!(["hero", "friends", 1, "name"])]);
    // all ancestors non-null: data is null
    let (data, paths, _) = run_with(sdl, "{ me { firstName } }", json!({"me": null}), json!({}), Params::apollo());
    assert_eq!(data, Json::Null);
    assert_eq!(paths, vec![json!(["me"])]);
}

#[test]
fn sibling_execution_after_propagation_is_a_parameter() {
    let world = json!({"tn": {"xn": null}, "nn": null, "a": "bad"});
    let (data, paths, _) = run_with(SDL, "{a tn{xn} nn}", world.clone(), json!({}), Params::apollo());
    assert_eq!(data, Json::Null);
    assert_eq!(paths, vec![json!(["a"]), json!(["tn", "xn"])]);
    let mut p = Params::apollo();
    p.propagation_skips_remaining_siblings = false;
    let (data, paths, _) = run_with(SDL, "{a tn{xn} nn}", world, json!({}), p);
    assert_eq!(data, Json::Null);
    assert_eq!(paths, vec![json!(["a"]), json!(["tn", "xn"]), json!(["nn"])]);
}

#[test]
fn numeric_coercion_is_a_parameter() {
    let mut p = Params::apollo();
    p.no_numeric_result_coercion = false;
    let (data, paths, _) = run_with(SDL, "{f a}", json!({"f": 1, "a": 2.0}), json!({}), p);
    assert_eq!(data.to_string(), r#"{"f":1.0,"a":2}"#);
    assert!(paths.is_empty());
}

/// spec 6.4.1 CoerceArgumentValues and the input-object table of 3.10.
#[test]
fn argument_coercion() {
    let sdl = "scalar Echo input In { a: String b: Int! c: Int = 7 } enum E { A B } \
               type Query { arg(x: Int! = 5, y: [Int], z: In, e: E, ll: [[Int]]): Echo req(x: Int!): Echo }";
    let args_of = |q: &str, vars: Json| -> (Json, Vec<Json>, Vec<(Path, Json)>) {
        let schema = ExecSchema::from_document(&parse_document(sdl).unwrap());
        let doc = parse_document(q).unwrap();
        let op = doc.operations().next().unwrap().clone();
        let vars = coerced_variables(&op, vars.as_object().unwrap());
        let req = Request { schema: &schema, operation: &op, fragments: &[], variables: &vars };
        let out = execute(&req, &PosWorld { schema: &schema, deviations: vec![] }, Params::apollo());
        (out.data, out.error_paths.iter().map(|p| path_json(p)).collect(), out.calls)
    };
    // defaults in definition order; absent nullable arguments are absent
    assert_eq!(args_of("{arg}", json!({})).0.to_string(), r#"{"arg":{"x":5}}"#);
    assert_eq!(args_of("{arg(y: 3, x: 1)}", json!({})).0.to_string(), r#"{"arg":{"x":1,"y":[3]}}"#);
    assert_eq!(args_of("{arg(ll: 1, e: B)}", json!({})).0.to_string(), r#"{"arg":{"x":5,"e":"B","ll":[[1]]}}"#);
    assert_eq!(args_of("{arg(y: null)}", json!({})).0.to_string(), r#"{"arg":{"x":5,"y":null}}"#);
    // variable without a runtime value: the default applies / the argument is absent
    assert_eq!(args_of("query($v: Int, $w: [Int]){arg(x: $v, y: $w)}", json!({})).0.to_string(), r#"{"arg":{"x":5}}"#);
    assert_eq!(args_of("query($v: Int, $w: [Int]){arg(x: $v, y: $w)}", json!({"v": 2, "w": null})).0.to_string(), r#"{"arg":{"x":2,"y":null}}"#);
    // explicit null for a non-null argument through a variable: field error
    let (data, paths, calls) = args_of("query($v: Int){arg(x: $v)}", json!({"v": null}));
    assert_eq!(data.to_string(), r#"{"arg":null}"#);
    assert_eq!(paths, vec![json!(["arg"])]);
    assert!(calls.is_empty(), "the resolver is not called when argument coercion fails");
    // variable definition default
    assert_eq!(args_of("query($v: Int = 9){req(x: $v)}", json!({})).0.to_string(), r#"{"req":{"x":9}}"#);
    // spec 3.10 input objects: { a: "abc", b: 123 } / { a: null, b: 123 } / { b: 123 } / { a: $var, b: 123 } with no $var
    assert_eq!(args_of(r#"{arg(z: {a: "abc", b: 123})}"#, json!({})).0["arg"]["z"].to_string(), r#"{"a":"abc","b":123,"c":7}"#);
    assert_eq!(args_of(r#"{arg(z: {a: null, b: 123})}"#, json!({})).0["arg"]["z"].to_string(), r#"{"a":null,"b":123,"c":7}"#);
    assert_eq!(args_of(r#"{arg(z: {b: 123})}"#, json!({})).0["arg"]["z"].to_string(), r#"{"b":123,"c":7}"#);
    assert_eq!(args_of(r#"query($var: String){arg(z: {a: $var, b: 123})}"#, json!({})).0["arg"]["z"].to_string(), r#"{"b":123,"c":7}"#);
    assert_eq!(args_of(r#"query($var: Int){arg(z: {b: $var})}"#, json!({"var": 123})).0["arg"]["z"].to_string(), r#"{"b":123,"c":7}"#);
}

#[test]
fn meta_fields_and_mutation() {
    let sdl = "type Query { a: Int } type Mutation { m1: Int m2: Int! }";
    let (data, paths, _) = run_with(sdl, "{ a __type(name: \"Query\") { name } }", json!({"a": 1}), json!({}), Params::apollo());
    assert_eq!(data.to_string(), r#"{"a":1,"__type":null}"#);
    assert_eq!(paths, vec![json!(["__type"])]);
    let (data, paths, _) = run_with(sdl, "{ a __schema { queryType { name } } }", json!({"a": 1}), json!({}), Params::apollo());
    assert_eq!(data, Json::Null);
    assert_eq!(paths, vec![json!(["__schema"])]);
    let (data, paths, calls) = run_with(sdl, "mutation { m2 x: m1 m1 }", json!({"m1": 1, "m2": 2}), json!({}), Params::apollo());
    assert_eq!(data.to_string(), r#"{"m2":2,"x":1,"m1":1}"#);
    assert!(paths.is_empty());
    assert_eq!(calls.iter().map(|(p, _)| path_string(p)).collect::<Vec<_>>(), vec![r#"["m2"]"#, r#"["x"]"#, r#"["m1"]"#]);
}

#[test]
fn positional_world_and_menu() {
    let schema = ExecSchema::from_document(&parse_document(SDL).unwrap());
    let doc = parse_document("{ ll lt { x } u { __typename } }").unwrap();
    let op = doc.operations().next().unwrap().clone();
    let vars = Map::new();
    let req = Request { schema: &schema, operation: &op, fragments: &[], variables: &vars };
    let out = execute(&req, &PosWorld { schema: &schema, deviations: vec![] }, Params::apollo());
    assert_eq!(out.data.to_string(), r#"{"ll":[[1,1],[1,1]],"lt":[{"x":1},{"x":1}],"u":{"__typename":"T"}}"#);
    // ll, 2 inner lists, 4 ints, lt, 2 objects, 2 x, u  (meta-fields are not resolver positions)
    assert_eq!(out.visited.len(), 1 + 2 + 4 + 1 + 2 + 2 + 1);
    let dev = vec![
        (vec![Seg::Key("ll".into()), Seg::Index(1), Seg::Index(0)], Dev::Leaf(Json::Null)),
        (vec![Seg::Key("u".into())], Dev::Object("V".into())),
    ];
    let out = execute(&req, &PosWorld { schema: &schema, deviations: dev }, Params::apollo());
    assert_eq!(out.data.to_string(), r#"{"ll":[[1,1],null],"lt":[{"x":1},{"x":1}],"u":{"__typename":"V"}}"#);
    assert_eq!(out.error_paths, vec![vec![Seg::Key("ll".into()), Seg::Index(1), Seg::Index(0)]]);
    for ty in ["Int", "[Int!]", "T", "U!", "E", "C"] {
        let m = deviation_menu(&schema, &Ty::parse(ty));
        assert!(m.len() >= 6, "{ty}");
        for d in m {
            assert_eq!(Dev::from_json(&d.to_json()), d);
        }
    }
}
