//! Reference recogniser for the October 2021 GraphQL document grammar (spec appendix B,
//! "Document Syntax"): executable definitions, type-system definitions and extensions.
//! LL recursive descent (one token of look-ahead, two for `Alias`) over the tokens of the
//! reference lexer `crate::lex` with ignored tokens dropped. Shares no code with apollo-parser.
//! DESIGN.md A.2 lists the fine points; each is marked `A.2:` below.
//!
//! Output: accept/reject and, when accepted, the top-level definitions as (kind, name) in
//! source order, plus a per-production use counter (counted when a production *completes*).

use crate::lex::{self, Kind};

macro_rules! productions {
    ($($name:ident),* $(,)?) => {
        /// One entry per production (or per alternative, where the alternatives differ in shape)
        /// of the appendix-B grammar.
        #[allow(non_camel_case_types)]
        #[derive(Debug, Clone, Copy, PartialEq, Eq, PartialOrd, Ord)]
        #[repr(usize)]
        pub enum P { $($name),* }
        pub const PRODUCTION_NAMES: &[&str] = &[$(stringify!($name)),*];
    };
}

productions! {
    Document,
    Definition_Executable,
    Definition_TypeSystemDefinition,
    Definition_TypeSystemExtension,
    // --- executable
    OperationDefinition_Full,
    OperationDefinition_Shorthand,
    OperationDefinition_Name,
    OperationType_query,
    OperationType_mutation,
    OperationType_subscription,
    SelectionSet,
    Selection_Field,
    Selection_FragmentSpread,
    Selection_InlineFragment,
    Field,
    Alias,
    Arguments,
    Arguments_Const,
    Argument,
    Argument_Const,
    FragmentSpread,
    InlineFragment,
    FragmentDefinition,
    FragmentName,
    TypeCondition,
    // --- values
    Value_Variable,
    Value_Int,
    Value_Float,
    Value_String,
    Value_Boolean,
    Value_Null,
    Value_Enum,
    Value_List,
    Value_Object,
    ConstValue_Int,
    ConstValue_Float,
    ConstValue_String,
    ConstValue_Boolean,
    ConstValue_Null,
    ConstValue_Enum,
    ConstValue_List,
    ConstValue_Object,
    ListValue_Empty,
    ListValue_NonEmpty,
    ObjectValue_Empty,
    ObjectValue_NonEmpty,
    ObjectField,
    StringValue_Quoted,
    StringValue_Block,
    BooleanValue_true,
    BooleanValue_false,
    // --- variables, types, directives
    VariableDefinitions,
    VariableDefinition,
    Variable,
    DefaultValue,
    Type_Named,
    Type_List,
    Type_NonNull,
    NamedType,
    ListType,
    NonNullType_Named,
    NonNullType_List,
    Directives,
    Directives_Const,
    Directive,
    Directive_Const,
    // --- type system
    Description,
    SchemaDefinition,
    SchemaExtension_WithOperationTypes,
    SchemaExtension_DirectivesOnly,
    RootOperationTypeDefinition,
    ScalarTypeDefinition,
    ScalarTypeExtension,
    ObjectTypeDefinition_WithFields,
    ObjectTypeDefinition_NoFields,
    ObjectTypeExtension_WithFields,
    ObjectTypeExtension_Directives,
    ObjectTypeExtension_ImplementsOnly,
    ImplementsInterfaces_First,
    ImplementsInterfaces_LeadingAmp,
    ImplementsInterfaces_More,
    FieldsDefinition,
    FieldDefinition,
    ArgumentsDefinition,
    InputValueDefinition,
    InterfaceTypeDefinition_WithFields,
    InterfaceTypeDefinition_NoFields,
    InterfaceTypeExtension_WithFields,
    InterfaceTypeExtension_Directives,
    InterfaceTypeExtension_ImplementsOnly,
    UnionTypeDefinition,
    UnionMemberTypes_First,
    UnionMemberTypes_LeadingPipe,
    UnionMemberTypes_More,
    UnionTypeExtension_WithMembers,
    UnionTypeExtension_DirectivesOnly,
    EnumTypeDefinition_WithValues,
    EnumTypeDefinition_NoValues,
    EnumValuesDefinition,
    EnumValueDefinition,
    EnumValue,
    EnumTypeExtension_WithValues,
    EnumTypeExtension_DirectivesOnly,
    InputObjectTypeDefinition_WithFields,
    InputObjectTypeDefinition_NoFields,
    InputFieldsDefinition,
    InputObjectTypeExtension_WithFields,
    InputObjectTypeExtension_DirectivesOnly,
    DirectiveDefinition,
    DirectiveDefinition_repeatable,
    DirectiveLocations_First,
    DirectiveLocations_LeadingPipe,
    DirectiveLocations_More,
    ExecutableDirectiveLocation_QUERY,
    ExecutableDirectiveLocation_MUTATION,
    ExecutableDirectiveLocation_SUBSCRIPTION,
    ExecutableDirectiveLocation_FIELD,
    ExecutableDirectiveLocation_FRAGMENT_DEFINITION,
    ExecutableDirectiveLocation_FRAGMENT_SPREAD,
    ExecutableDirectiveLocation_INLINE_FRAGMENT,
    ExecutableDirectiveLocation_VARIABLE_DEFINITION,
    TypeSystemDirectiveLocation_SCHEMA,
    TypeSystemDirectiveLocation_SCALAR,
    TypeSystemDirectiveLocation_OBJECT,
    TypeSystemDirectiveLocation_FIELD_DEFINITION,
    TypeSystemDirectiveLocation_ARGUMENT_DEFINITION,
    TypeSystemDirectiveLocation_INTERFACE,
    TypeSystemDirectiveLocation_UNION,
    TypeSystemDirectiveLocation_ENUM,
    TypeSystemDirectiveLocation_ENUM_VALUE,
    TypeSystemDirectiveLocation_INPUT_OBJECT,
    TypeSystemDirectiveLocation_INPUT_FIELD_DEFINITION,
}

pub const N_PRODUCTIONS: usize = PRODUCTION_NAMES.len();

/// The 19 directive locations of the October 2021 grammar, exactly (A.2).
pub const DIRECTIVE_LOCATIONS: [(&str, P); 19] = [
    ("QUERY", P::ExecutableDirectiveLocation_QUERY),
    ("MUTATION", P::ExecutableDirectiveLocation_MUTATION),
    ("SUBSCRIPTION", P::ExecutableDirectiveLocation_SUBSCRIPTION),
    ("FIELD", P::ExecutableDirectiveLocation_FIELD),
    ("FRAGMENT_DEFINITION", P::ExecutableDirectiveLocation_FRAGMENT_DEFINITION),
    ("FRAGMENT_SPREAD", P::ExecutableDirectiveLocation_FRAGMENT_SPREAD),
    ("INLINE_FRAGMENT", P::ExecutableDirectiveLocation_INLINE_FRAGMENT),
    ("VARIABLE_DEFINITION", P::ExecutableDirectiveLocation_VARIABLE_DEFINITION),
    ("SCHEMA", P::TypeSystemDirectiveLocation_SCHEMA),
    ("SCALAR", P::TypeSystemDirectiveLocation_SCALAR),
    ("OBJECT", P::TypeSystemDirectiveLocation_OBJECT),
    ("FIELD_DEFINITION", P::TypeSystemDirectiveLocation_FIELD_DEFINITION),
    ("ARGUMENT_DEFINITION", P::TypeSystemDirectiveLocation_ARGUMENT_DEFINITION),
    ("INTERFACE", P::TypeSystemDirectiveLocation_INTERFACE),
    ("UNION", P::TypeSystemDirectiveLocation_UNION),
    ("ENUM", P::TypeSystemDirectiveLocation_ENUM),
    ("ENUM_VALUE", P::TypeSystemDirectiveLocation_ENUM_VALUE),
    ("INPUT_OBJECT", P::TypeSystemDirectiveLocation_INPUT_OBJECT),
    ("INPUT_FIELD_DEFINITION", P::TypeSystemDirectiveLocation_INPUT_FIELD_DEFINITION),
];

/// The 17 kinds of top-level definition.
#[derive(Debug, Clone, Copy, PartialEq, Eq, PartialOrd, Ord)]
pub enum DefKind {
    OperationDefinition,
    FragmentDefinition,
    DirectiveDefinition,
    SchemaDefinition,
    ScalarTypeDefinition,
    ObjectTypeDefinition,
    InterfaceTypeDefinition,
    UnionTypeDefinition,
    EnumTypeDefinition,
    InputObjectTypeDefinition,
    SchemaExtension,
    ScalarTypeExtension,
    ObjectTypeExtension,
    InterfaceTypeExtension,
    UnionTypeExtension,
    EnumTypeExtension,
    InputObjectTypeExtension,
}

impl DefKind {
    pub fn as_str(self) -> &'static str {
        match self {
            DefKind::OperationDefinition => "OperationDefinition",
            DefKind::FragmentDefinition => "FragmentDefinition",
            DefKind::DirectiveDefinition => "DirectiveDefinition",
            DefKind::SchemaDefinition => "SchemaDefinition",
            DefKind::ScalarTypeDefinition => "ScalarTypeDefinition",
            DefKind::ObjectTypeDefinition => "ObjectTypeDefinition",
            DefKind::InterfaceTypeDefinition => "InterfaceTypeDefinition",
            DefKind::UnionTypeDefinition => "UnionTypeDefinition",
            DefKind::EnumTypeDefinition => "EnumTypeDefinition",
            DefKind::InputObjectTypeDefinition => "InputObjectTypeDefinition",
            DefKind::SchemaExtension => "SchemaExtension",
            DefKind::ScalarTypeExtension => "ScalarTypeExtension",
            DefKind::ObjectTypeExtension => "ObjectTypeExtension",
            DefKind::InterfaceTypeExtension => "InterfaceTypeExtension",
            DefKind::UnionTypeExtension => "UnionTypeExtension",
            DefKind::EnumTypeExtension => "EnumTypeExtension",
            DefKind::InputObjectTypeExtension => "InputObjectTypeExtension",
        }
    }
}

/// A significant (non-ignored) token.
#[derive(Debug, Clone, Copy, PartialEq, Eq)]
pub struct Tok<'a> {
    pub kind: Kind,
    pub text: &'a str,
}

/// Reference-lex `src` and drop ignored tokens (whitespace, comments, commas).
/// `None`: `src` is not a sequence of valid lexical tokens.
pub fn significant_tokens(src: &str, params: lex::Params) -> Option<Vec<Tok<'_>>> {
    let toks = lex::tokenize(src, params)?;
    Some(
        toks.iter()
            .filter(|t| !t.is_ignored())
            .map(|t| Tok {
                kind: t.kind,
                text: t.text,
            })
            .collect(),
    )
}

/// Deviation switches (DESIGN §2.2): each reproduces exactly one known wrong behaviour of
/// apollo-parser and is off unless `/verif/known_findings.json` lists the finding as open.
/// The strict grammar is `Deviations::NONE`.
#[derive(Debug, Clone, Copy, PartialEq, Eq, PartialOrd, Ord)]
#[repr(u32)]
pub enum Dev {
    /// `schema Directives?` with no `{ ... }` is accepted as a SchemaDefinition
    SchemaDefinitionWithoutBraces,
    /// `extend schema Directives { }`: the empty root-operation list is accepted when
    /// directives are present
    SchemaExtensionEmptyBraces,
    /// `"desc" fragment on T ...`: the description is consumed in place of the `fragment`
    /// keyword and the keyword becomes the FragmentName (a fragment named `fragment`)
    DescriptionAsFragmentKeyword,
    /// `Name` alone is accepted as an Argument (no `: Value`)
    ArgumentWithoutValue,
    /// `Name` alone is accepted as an ObjectField (no `: Value`)
    ObjectFieldWithoutValue,
    /// `OperationType :` with no NamedType is accepted as a RootOperationTypeDefinition
    RootOperationTypeWithoutType,
    /// A Comma (an ignored token) is seen by the parser's two-token look-ahead, so a comma
    /// directly after (a) a description at definition position, (b) `extend` at definition
    /// position, (c) `...` in a selection, (d) a field's alias name (before its `:`) makes the
    /// document a syntax error
    CommaInLookahead,
}

impl Dev {
    pub const ALL: [Dev; 7] = [
        Dev::SchemaDefinitionWithoutBraces,
        Dev::SchemaExtensionEmptyBraces,
        Dev::DescriptionAsFragmentKeyword,
        Dev::ArgumentWithoutValue,
        Dev::ObjectFieldWithoutValue,
        Dev::RootOperationTypeWithoutType,
        Dev::CommaInLookahead,
    ];
    /// id of the finding in known_findings.json
    pub fn id(self) -> &'static str {
        match self {
            Dev::SchemaDefinitionWithoutBraces => "C05-schema-definition-without-braces",
            Dev::SchemaExtensionEmptyBraces => "C05-schema-extension-empty-braces",
            Dev::DescriptionAsFragmentKeyword => "C05-description-as-fragment-keyword",
            Dev::ArgumentWithoutValue => "C05-argument-without-value",
            Dev::ObjectFieldWithoutValue => "C05-object-field-without-value",
            Dev::RootOperationTypeWithoutType => "C05-root-operation-type-without-type",
            Dev::CommaInLookahead => "C05-comma-in-lookahead",
        }
    }
}

/// A set of deviation switches.
#[derive(Debug, Clone, Copy, PartialEq, Eq, Default)]
pub struct Deviations(pub u32);

impl Deviations {
    pub const NONE: Deviations = Deviations(0);
    pub fn with(self, d: Dev) -> Deviations {
        Deviations(self.0 | 1 << d as u32)
    }
    pub fn has(self, d: Dev) -> bool {
        self.0 & (1 << d as u32) != 0
    }
    pub fn is_empty(self) -> bool {
        self.0 == 0
    }
    pub fn iter(self) -> impl Iterator<Item = Dev> {
        Dev::ALL.into_iter().filter(move |d| self.has(*d))
    }
}

/// Like `significant_tokens`, plus for every significant token whether a Comma occurs between
/// it and the next significant token (needed only by `Dev::CommaInLookahead`; the grammar
/// itself never looks at commas).
pub fn significant_tokens_and_commas(
    src: &str,
    params: lex::Params,
) -> Option<(Vec<Tok<'_>>, Vec<bool>)> {
    let toks = lex::tokenize(src, params)?;
    let mut out = Vec::new();
    let mut commas = Vec::new();
    for t in &toks {
        if t.kind == Kind::Comma {
            if let Some(last) = commas.last_mut() {
                *last = true;
            }
        } else if !t.is_ignored() {
            out.push(Tok {
                kind: t.kind,
                text: t.text,
            });
            commas.push(false);
        }
    }
    Some((out, commas))
}

pub type Uses = [u32; N_PRODUCTIONS];

#[derive(Debug, Clone, PartialEq, Eq)]
pub struct Accepted<'a> {
    /// (kind, name) of every top-level definition, in order. Operations may be anonymous;
    /// schema definitions and extensions have no name; a directive definition's name is the
    /// directive name without `@`.
    pub definitions: Vec<(DefKind, Option<&'a str>)>,
    /// how often each production completed
    pub uses: Uses,
    /// deviation switches that changed a sub-decision on this input (empty for the strict grammar)
    pub fired: Deviations,
}

/// Syntax error (position = index of the offending significant token; `toks.len()` at EOF).
#[derive(Debug, Clone, Copy, PartialEq, Eq)]
pub struct Reject {
    pub at: usize,
    /// deviation switches that fired before (or caused) the rejection
    pub fired: Deviations,
}

type R<T = ()> = Result<T, Reject>;

pub struct Recogniser<'t, 'a> {
    toks: &'t [Tok<'a>],
    pos: usize,
    uses: Uses,
    defs: Vec<(DefKind, Option<&'a str>)>,
    dev: Deviations,
    fired: Deviations,
    comma_after: Option<&'t [bool]>,
}

/// Does the token sequence derive `Document`?
pub fn document<'a>(toks: &[Tok<'a>]) -> Result<Accepted<'a>, Reject> {
    document_with(toks, Deviations::NONE)
}

/// The same with deviation switches on.
pub fn document_with<'a>(toks: &[Tok<'a>], dev: Deviations) -> Result<Accepted<'a>, Reject> {
    document_with_commas(toks, None, dev)
}

/// The same; `comma_after[i]` says whether a Comma follows significant token `i`
/// (see `significant_tokens_and_commas`).
pub fn document_with_commas<'a>(
    toks: &[Tok<'a>],
    comma_after: Option<&[bool]>,
    dev: Deviations,
) -> Result<Accepted<'a>, Reject> {
    let mut r = Recogniser::new(toks);
    r.comma_after = comma_after;
    r.dev = dev;
    r.document()?;
    Ok(Accepted {
        definitions: r.defs,
        uses: r.uses,
        fired: r.fired,
    })
}

/// Lex with the strict reference lexer, then recognise. A lexical error is a rejection.
pub fn document_str(src: &str) -> Option<Accepted<'_>> {
    let toks = significant_tokens(src, lex::Params::default())?;
    document(&toks).ok()
}

/// The three possible verdicts on a source text.
#[derive(Debug, Clone, PartialEq, Eq)]
pub enum Verdict<'a> {
    Accept(Accepted<'a>),
    /// not a sequence of valid lexical tokens
    RejectLexical,
    /// valid tokens, not derivable from `Document`
    RejectSyntax {
        at: usize,
        significant_tokens: usize,
        /// deviation switches that fired (always empty for the strict grammar)
        fired: Deviations,
    },
}

impl Verdict<'_> {
    pub fn accepted(&self) -> bool {
        matches!(self, Verdict::Accept(_))
    }
    pub fn fired(&self) -> Deviations {
        match self {
            Verdict::Accept(a) => a.fired,
            Verdict::RejectSyntax { fired, .. } => *fired,
            Verdict::RejectLexical => Deviations::NONE,
        }
    }
}

/// Strict reference lexer + recogniser.
pub fn judge(src: &str) -> Verdict<'_> {
    judge_with(src, Deviations::NONE)
}

/// Strict reference lexer + recogniser with deviation switches on.
pub fn judge_with(src: &str, dev: Deviations) -> Verdict<'_> {
    let Some((toks, commas)) = significant_tokens_and_commas(src, lex::Params::default()) else {
        return Verdict::RejectLexical;
    };
    match document_with_commas(&toks, Some(&commas), dev) {
        Ok(a) => Verdict::Accept(a),
        Err(r) => Verdict::RejectSyntax {
            at: r.at,
            significant_tokens: toks.len(),
            fired: r.fired,
        },
    }
}

/// Is the token sequence exactly one `Type`? (C07)
pub fn is_type(toks: &[Tok<'_>]) -> bool {
    let mut r = Recogniser::new(toks);
    r.ty().is_ok() && r.at_end()
}

/// Is the token sequence exactly one `Selection+` list without the braces (a "field set")? (C07)
pub fn is_field_set(toks: &[Tok<'_>]) -> bool {
    let mut r = Recogniser::new(toks);
    if r.at_end() {
        return false;
    }
    while !r.at_end() {
        if r.selection().is_err() {
            return false;
        }
    }
    true
}

const TYPE_SYSTEM_DEFINITION_KEYWORDS: [&str; 8] = [
    "schema",
    "scalar",
    "type",
    "interface",
    "union",
    "enum",
    "input",
    "directive",
];

impl<'t, 'a> Recogniser<'t, 'a> {
    pub fn new(toks: &'t [Tok<'a>]) -> Self {
        Recogniser {
            toks,
            pos: 0,
            uses: [0; N_PRODUCTIONS],
            defs: Vec::new(),
            dev: Deviations::NONE,
            fired: Deviations::NONE,
            comma_after: None,
        }
    }

    // ----- token helpers

    /// Is switch `d` on? Records that it changed a decision (call only at the point where the
    /// strict grammar would reject).
    fn deviate(&mut self, d: Dev) -> bool {
        if self.dev.has(d) {
            self.fired = self.fired.with(d);
            true
        } else {
            false
        }
    }
    fn used(&mut self, p: P) {
        self.uses[p as usize] += 1;
    }
    fn err<T>(&self) -> R<T> {
        Err(Reject {
            at: self.pos,
            fired: self.fired,
        })
    }
    /// `Dev::CommaInLookahead`: does a comma follow the significant token at `i`?
    fn comma_after(&self, i: usize) -> bool {
        matches!(self.comma_after, Some(c) if c.get(i).copied().unwrap_or(false))
    }
    pub fn at_end(&self) -> bool {
        self.pos >= self.toks.len()
    }
    fn peek(&self) -> Option<Tok<'a>> {
        self.toks.get(self.pos).copied()
    }
    fn peek2(&self) -> Option<Tok<'a>> {
        self.toks.get(self.pos + 1).copied()
    }
    fn at_punct(&self, p: &str) -> bool {
        matches!(self.peek(), Some(t) if t.kind == Kind::Punct && t.text == p)
    }
    fn at_name(&self) -> bool {
        matches!(self.peek(), Some(t) if t.kind == Kind::Name)
    }
    /// at the Name token spelled `kw` (keywords are ordinary names, A.2)
    fn at_kw(&self, kw: &str) -> bool {
        matches!(self.peek(), Some(t) if t.kind == Kind::Name && t.text == kw)
    }
    fn at_string(&self) -> bool {
        matches!(self.peek(), Some(t) if t.kind == Kind::Str)
    }
    fn eat_punct(&mut self, p: &str) -> bool {
        if self.at_punct(p) {
            self.pos += 1;
            true
        } else {
            false
        }
    }
    fn expect_punct(&mut self, p: &str) -> R {
        if self.eat_punct(p) {
            Ok(())
        } else {
            self.err()
        }
    }
    fn expect_kw(&mut self, kw: &str) -> R {
        if self.at_kw(kw) {
            self.pos += 1;
            Ok(())
        } else {
            self.err()
        }
    }
    /// Name (any name, keywords included)
    fn name(&mut self) -> R<&'a str> {
        match self.peek() {
            Some(t) if t.kind == Kind::Name => {
                self.pos += 1;
                Ok(t.text)
            }
            _ => self.err(),
        }
    }

    // ----- Document

    /// Document : Definition+   (A.2: the empty document is rejected)
    pub fn document(&mut self) -> R {
        self.definition()?;
        while !self.at_end() {
            self.definition()?;
        }
        self.used(P::Document);
        Ok(())
    }

    /// Definition : ExecutableDefinition | TypeSystemDefinitionOrExtension
    pub fn definition(&mut self) -> R {
        if (self.at_string() || self.at_kw("extend"))
            && self.comma_after(self.pos)
            && self.deviate(Dev::CommaInLookahead)
        {
            return self.err();
        }
        if self.at_string() {
            if matches!(self.peek2(), Some(t) if t.kind == Kind::Name && t.text == "fragment")
                && self.deviate(Dev::DescriptionAsFragmentKeyword)
            {
                // the string stands in for the keyword; `fragment` is then the FragmentName
                self.pos += 1;
                let n = self.fragment_name()?;
                self.fragment_definition_rest(n)?;
                return Ok(());
            }
            // A.2: a description is allowed only before a type-system *definition*
            // (schema and directive included), never before extend / operations / fragments.
            match self.peek2() {
                Some(t)
                    if t.kind == Kind::Name
                        && TYPE_SYSTEM_DEFINITION_KEYWORDS.contains(&t.text) => {}
                _ => {
                    self.pos += 1;
                    return self.err();
                }
            }
            self.type_system_definition()?;
            self.used(P::Definition_TypeSystemDefinition);
            return Ok(());
        }
        if self.at_punct("{") {
            // A.2: an anonymous SelectionSet is an operation only at definition position
            self.selection_set()?;
            self.defs.push((DefKind::OperationDefinition, None));
            self.used(P::OperationDefinition_Shorthand);
            self.used(P::Definition_Executable);
            return Ok(());
        }
        let Some(t) = self.peek() else {
            return self.err();
        };
        if t.kind != Kind::Name {
            return self.err();
        }
        match t.text {
            "query" | "mutation" | "subscription" => {
                self.operation_definition()?;
                self.used(P::Definition_Executable);
            }
            "fragment" => {
                self.fragment_definition()?;
                self.used(P::Definition_Executable);
            }
            "extend" => {
                self.type_system_extension()?;
                self.used(P::Definition_TypeSystemExtension);
            }
            kw if TYPE_SYSTEM_DEFINITION_KEYWORDS.contains(&kw) => {
                self.type_system_definition()?;
                self.used(P::Definition_TypeSystemDefinition);
            }
            _ => return self.err(),
        }
        Ok(())
    }

    // ----- executable definitions

    /// OperationType : one of query mutation subscription
    fn operation_type(&mut self) -> R {
        let p = match self.peek() {
            Some(t) if t.kind == Kind::Name => match t.text {
                "query" => P::OperationType_query,
                "mutation" => P::OperationType_mutation,
                "subscription" => P::OperationType_subscription,
                _ => return self.err(),
            },
            _ => return self.err(),
        };
        self.pos += 1;
        self.used(p);
        Ok(())
    }

    /// OperationDefinition : OperationType Name? VariableDefinitions? Directives? SelectionSet
    fn operation_definition(&mut self) -> R {
        self.operation_type()?;
        let mut name = None;
        if self.at_name() {
            name = Some(self.name()?);
            self.used(P::OperationDefinition_Name);
        }
        if self.at_punct("(") {
            self.variable_definitions()?;
        }
        self.directives_opt(false)?;
        self.selection_set()?;
        self.defs.push((DefKind::OperationDefinition, name));
        self.used(P::OperationDefinition_Full);
        Ok(())
    }

    /// SelectionSet : { Selection+ }
    pub fn selection_set(&mut self) -> R {
        self.expect_punct("{")?;
        self.selection()?;
        while !self.at_punct("}") {
            self.selection()?;
        }
        self.expect_punct("}")?;
        self.used(P::SelectionSet);
        Ok(())
    }

    /// Selection : Field | FragmentSpread | InlineFragment
    pub fn selection(&mut self) -> R {
        if self.eat_punct("...") {
            if self.comma_after(self.pos - 1) && self.deviate(Dev::CommaInLookahead) {
                return self.err();
            }
            // FragmentSpread : ... FragmentName Directives?
            // InlineFragment : ... TypeCondition? Directives? SelectionSet
            // A.2: FragmentName is a Name but not `on`, so `... on` always starts a TypeCondition
            if self.at_name() && !self.at_kw("on") {
                self.fragment_name()?;
                self.directives_opt(false)?;
                self.used(P::FragmentSpread);
                self.used(P::Selection_FragmentSpread);
            } else {
                if self.at_kw("on") {
                    self.type_condition()?;
                }
                self.directives_opt(false)?;
                self.selection_set()?;
                self.used(P::InlineFragment);
                self.used(P::Selection_InlineFragment);
            }
            return Ok(());
        }
        self.field()?;
        self.used(P::Selection_Field);
        Ok(())
    }

    /// Field : Alias? Name Arguments? Directives? SelectionSet?
    fn field(&mut self) -> R {
        if self.at_name()
            && self.comma_after(self.pos)
            && matches!(self.peek2(), Some(t) if t.kind == Kind::Punct && t.text == ":")
            && self.deviate(Dev::CommaInLookahead)
        {
            return self.err();
        }
        self.name()?;
        if self.eat_punct(":") {
            // Alias : Name :
            self.used(P::Alias);
            self.name()?;
        }
        if self.at_punct("(") {
            self.arguments(false)?;
        }
        self.directives_opt(false)?;
        if self.at_punct("{") {
            self.selection_set()?;
        }
        self.used(P::Field);
        Ok(())
    }

    /// Arguments[Const] : ( Argument[?Const]+ )     (A.2: `( )` is rejected)
    fn arguments(&mut self, konst: bool) -> R {
        self.expect_punct("(")?;
        self.argument(konst)?;
        while !self.at_punct(")") {
            self.argument(konst)?;
        }
        self.expect_punct(")")?;
        self.used(if konst { P::Arguments_Const } else { P::Arguments });
        Ok(())
    }

    /// Argument[Const] : Name : Value[?Const]
    fn argument(&mut self, konst: bool) -> R {
        self.name()?;
        if self.at_punct(":") || !self.deviate(Dev::ArgumentWithoutValue) {
            self.expect_punct(":")?;
            self.value(konst)?;
        }
        self.used(if konst { P::Argument_Const } else { P::Argument });
        Ok(())
    }

    /// FragmentName : Name but not `on`
    fn fragment_name(&mut self) -> R<&'a str> {
        if self.at_kw("on") {
            return self.err();
        }
        let n = self.name()?;
        self.used(P::FragmentName);
        Ok(n)
    }

    /// TypeCondition : on NamedType
    fn type_condition(&mut self) -> R {
        self.expect_kw("on")?;
        self.named_type()?;
        self.used(P::TypeCondition);
        Ok(())
    }

    /// FragmentDefinition : fragment FragmentName TypeCondition Directives? SelectionSet
    fn fragment_definition(&mut self) -> R {
        self.expect_kw("fragment")?;
        let n = self.fragment_name()?;
        self.fragment_definition_rest(n)
    }

    fn fragment_definition_rest(&mut self, n: &'a str) -> R {
        self.type_condition()?;
        self.directives_opt(false)?;
        self.selection_set()?;
        self.defs.push((DefKind::FragmentDefinition, Some(n)));
        self.used(P::FragmentDefinition);
        Ok(())
    }

    // ----- values

    /// Value[Const] : [~Const] Variable | IntValue | FloatValue | StringValue | BooleanValue |
    ///                NullValue | EnumValue | ListValue[?Const] | ObjectValue[?Const]
    pub fn value(&mut self, konst: bool) -> R {
        let Some(t) = self.peek() else {
            return self.err();
        };
        let pick = |c: P, n: P| if konst { c } else { n };
        match t.kind {
            Kind::Punct => match t.text {
                "$" => {
                    // A.2: no variables in Const contexts (propagated into lists and objects)
                    if konst {
                        return self.err();
                    }
                    self.variable()?;
                    self.used(P::Value_Variable);
                }
                "[" => {
                    // ListValue[Const] : [ ] | [ Value[?Const]+ ]
                    self.pos += 1;
                    let mut n = 0;
                    while !self.at_punct("]") {
                        self.value(konst)?;
                        n += 1;
                    }
                    self.expect_punct("]")?;
                    self.used(if n == 0 {
                        P::ListValue_Empty
                    } else {
                        P::ListValue_NonEmpty
                    });
                    self.used(pick(P::ConstValue_List, P::Value_List));
                }
                "{" => {
                    // ObjectValue[Const] : { } | { ObjectField[?Const]+ }
                    self.pos += 1;
                    let mut n = 0;
                    while !self.at_punct("}") {
                        // ObjectField[Const] : Name : Value[?Const]
                        self.name()?;
                        if self.at_punct(":") || !self.deviate(Dev::ObjectFieldWithoutValue) {
                            self.expect_punct(":")?;
                            self.value(konst)?;
                        }
                        self.used(P::ObjectField);
                        n += 1;
                    }
                    self.expect_punct("}")?;
                    self.used(if n == 0 {
                        P::ObjectValue_Empty
                    } else {
                        P::ObjectValue_NonEmpty
                    });
                    self.used(pick(P::ConstValue_Object, P::Value_Object));
                }
                _ => return self.err(),
            },
            Kind::Int => {
                self.pos += 1;
                self.used(pick(P::ConstValue_Int, P::Value_Int));
            }
            Kind::Float => {
                self.pos += 1;
                self.used(pick(P::ConstValue_Float, P::Value_Float));
            }
            Kind::Str => {
                self.string_value()?;
                self.used(pick(P::ConstValue_String, P::Value_String));
            }
            Kind::Name => {
                self.pos += 1;
                match t.text {
                    "true" => {
                        self.used(P::BooleanValue_true);
                        self.used(pick(P::ConstValue_Boolean, P::Value_Boolean));
                    }
                    "false" => {
                        self.used(P::BooleanValue_false);
                        self.used(pick(P::ConstValue_Boolean, P::Value_Boolean));
                    }
                    "null" => self.used(pick(P::ConstValue_Null, P::Value_Null)),
                    _ => {
                        self.used(P::EnumValue);
                        self.used(pick(P::ConstValue_Enum, P::Value_Enum));
                    }
                }
            }
            _ => return self.err(),
        }
        Ok(())
    }

    fn string_value(&mut self) -> R {
        match self.peek() {
            Some(t) if t.kind == Kind::Str => {
                self.pos += 1;
                self.used(if t.text.starts_with("\"\"\"") {
                    P::StringValue_Block
                } else {
                    P::StringValue_Quoted
                });
                Ok(())
            }
            _ => self.err(),
        }
    }

    /// Variable : $ Name
    fn variable(&mut self) -> R {
        self.expect_punct("$")?;
        self.name()?;
        self.used(P::Variable);
        Ok(())
    }

    /// VariableDefinitions : ( VariableDefinition+ )
    fn variable_definitions(&mut self) -> R {
        self.expect_punct("(")?;
        self.variable_definition()?;
        while !self.at_punct(")") {
            self.variable_definition()?;
        }
        self.expect_punct(")")?;
        self.used(P::VariableDefinitions);
        Ok(())
    }

    /// VariableDefinition : Variable : Type DefaultValue? Directives[Const]?
    fn variable_definition(&mut self) -> R {
        self.variable()?;
        self.expect_punct(":")?;
        self.ty()?;
        self.default_value_opt()?;
        self.directives_opt(true)?; // A.2: Const
        self.used(P::VariableDefinition);
        Ok(())
    }

    /// DefaultValue : = Value[Const]
    fn default_value_opt(&mut self) -> R {
        if self.eat_punct("=") {
            self.value(true)?;
            self.used(P::DefaultValue);
        }
        Ok(())
    }

    // ----- types

    /// Type : NamedType | ListType | NonNullType ;  NonNullType : NamedType ! | ListType !
    pub fn ty(&mut self) -> R {
        let list = if self.eat_punct("[") {
            // ListType : [ Type ]
            self.ty()?;
            self.expect_punct("]")?;
            self.used(P::ListType);
            true
        } else {
            self.named_type()?;
            false
        };
        if self.eat_punct("!") {
            self.used(if list {
                P::NonNullType_List
            } else {
                P::NonNullType_Named
            });
            self.used(P::Type_NonNull);
        } else {
            self.used(if list { P::Type_List } else { P::Type_Named });
        }
        Ok(())
    }

    /// NamedType : Name
    fn named_type(&mut self) -> R<&'a str> {
        let n = self.name()?;
        self.used(P::NamedType);
        Ok(n)
    }

    // ----- directives

    /// Directives[Const]? ; returns whether at least one directive was present
    fn directives_opt(&mut self, konst: bool) -> R<bool> {
        if !self.at_punct("@") {
            return Ok(false);
        }
        // Directives[Const] : Directive[?Const]+
        while self.at_punct("@") {
            // Directive[Const] : @ Name Arguments[?Const]?
            self.pos += 1;
            self.name()?;
            if self.at_punct("(") {
                self.arguments(konst)?;
            }
            self.used(if konst { P::Directive_Const } else { P::Directive });
        }
        self.used(if konst {
            P::Directives_Const
        } else {
            P::Directives
        });
        Ok(true)
    }

    // ----- type system

    /// Description : StringValue   (optional)
    fn description_opt(&mut self) -> R {
        if self.at_string() {
            self.string_value()?;
            self.used(P::Description);
        }
        Ok(())
    }

    /// TypeSystemDefinition : SchemaDefinition | TypeDefinition | DirectiveDefinition
    fn type_system_definition(&mut self) -> R {
        self.description_opt()?;
        let Some(t) = self.peek() else {
            return self.err();
        };
        if t.kind != Kind::Name {
            return self.err();
        }
        self.pos += 1;
        match t.text {
            "schema" => {
                // SchemaDefinition : Description? schema Directives[Const]? { RootOperationTypeDefinition+ }
                self.directives_opt(true)?;
                if self.at_punct("{") || !self.deviate(Dev::SchemaDefinitionWithoutBraces) {
                    self.root_operation_types()?;
                }
                self.defs.push((DefKind::SchemaDefinition, None));
                self.used(P::SchemaDefinition);
            }
            "scalar" => {
                // ScalarTypeDefinition : Description? scalar Name Directives[Const]?
                let n = self.name()?;
                self.directives_opt(true)?;
                self.defs.push((DefKind::ScalarTypeDefinition, Some(n)));
                self.used(P::ScalarTypeDefinition);
            }
            "type" | "interface" => {
                // ObjectTypeDefinition :
                //   Description? type Name ImplementsInterfaces? Directives[Const]? FieldsDefinition
                //   Description? type Name ImplementsInterfaces? Directives[Const]? [lookahead != {]
                // InterfaceTypeDefinition: the same with `interface`
                let object = t.text == "type";
                let n = self.name()?;
                self.implements_interfaces_opt()?;
                self.directives_opt(true)?;
                let fields = self.at_punct("{");
                if fields {
                    self.fields_definition()?;
                }
                self.defs.push((
                    if object {
                        DefKind::ObjectTypeDefinition
                    } else {
                        DefKind::InterfaceTypeDefinition
                    },
                    Some(n),
                ));
                self.used(match (object, fields) {
                    (true, true) => P::ObjectTypeDefinition_WithFields,
                    (true, false) => P::ObjectTypeDefinition_NoFields,
                    (false, true) => P::InterfaceTypeDefinition_WithFields,
                    (false, false) => P::InterfaceTypeDefinition_NoFields,
                });
            }
            "union" => {
                // UnionTypeDefinition : Description? union Name Directives[Const]? UnionMemberTypes?
                let n = self.name()?;
                self.directives_opt(true)?;
                if self.at_punct("=") {
                    self.union_member_types()?;
                }
                self.defs.push((DefKind::UnionTypeDefinition, Some(n)));
                self.used(P::UnionTypeDefinition);
            }
            "enum" => {
                // EnumTypeDefinition :
                //   Description? enum Name Directives[Const]? EnumValuesDefinition
                //   Description? enum Name Directives[Const]? [lookahead != {]
                let n = self.name()?;
                self.directives_opt(true)?;
                let values = self.at_punct("{");
                if values {
                    self.enum_values_definition()?;
                }
                self.defs.push((DefKind::EnumTypeDefinition, Some(n)));
                self.used(if values {
                    P::EnumTypeDefinition_WithValues
                } else {
                    P::EnumTypeDefinition_NoValues
                });
            }
            "input" => {
                // InputObjectTypeDefinition :
                //   Description? input Name Directives[Const]? InputFieldsDefinition
                //   Description? input Name Directives[Const]? [lookahead != {]
                let n = self.name()?;
                self.directives_opt(true)?;
                let fields = self.at_punct("{");
                if fields {
                    self.input_fields_definition()?;
                }
                self.defs.push((DefKind::InputObjectTypeDefinition, Some(n)));
                self.used(if fields {
                    P::InputObjectTypeDefinition_WithFields
                } else {
                    P::InputObjectTypeDefinition_NoFields
                });
            }
            "directive" => {
                // DirectiveDefinition :
                //   Description? directive @ Name ArgumentsDefinition? repeatable? on DirectiveLocations
                self.expect_punct("@")?;
                let n = self.name()?;
                if self.at_punct("(") {
                    self.arguments_definition()?;
                }
                if self.at_kw("repeatable") {
                    self.pos += 1;
                    self.used(P::DirectiveDefinition_repeatable);
                }
                self.expect_kw("on")?;
                self.directive_locations()?;
                self.defs.push((DefKind::DirectiveDefinition, Some(n)));
                self.used(P::DirectiveDefinition);
            }
            _ => {
                self.pos -= 1;
                return self.err();
            }
        }
        Ok(())
    }

    /// TypeSystemExtension : SchemaExtension | TypeExtension   (A.2: never after a description;
    /// every form needs at least one of its optional parts)
    fn type_system_extension(&mut self) -> R {
        self.expect_kw("extend")?;
        let Some(t) = self.peek() else {
            return self.err();
        };
        if t.kind != Kind::Name {
            return self.err();
        }
        self.pos += 1;
        match t.text {
            "schema" => {
                // SchemaExtension :
                //   extend schema Directives[Const]? { RootOperationTypeDefinition+ }
                //   extend schema Directives[Const] [lookahead != {]
                let d = self.directives_opt(true)?;
                if d
                    && self.at_punct("{")
                    && matches!(self.peek2(), Some(t) if t.kind == Kind::Punct && t.text == "}")
                    && self.deviate(Dev::SchemaExtensionEmptyBraces)
                {
                    self.pos += 2;
                } else if self.at_punct("{") {
                    self.root_operation_types()?;
                    self.used(P::SchemaExtension_WithOperationTypes);
                } else if d {
                    self.used(P::SchemaExtension_DirectivesOnly);
                } else {
                    return self.err();
                }
                self.defs.push((DefKind::SchemaExtension, None));
            }
            "scalar" => {
                // ScalarTypeExtension : extend scalar Name Directives[Const]
                let n = self.name()?;
                if !self.directives_opt(true)? {
                    return self.err();
                }
                self.defs.push((DefKind::ScalarTypeExtension, Some(n)));
                self.used(P::ScalarTypeExtension);
            }
            "type" | "interface" => {
                // ObjectTypeExtension :
                //   extend type Name ImplementsInterfaces? Directives[Const]? FieldsDefinition
                //   extend type Name ImplementsInterfaces? Directives[Const] [lookahead != {]
                //   extend type Name ImplementsInterfaces [lookahead != {]
                // InterfaceTypeExtension: the same with `interface`
                let object = t.text == "type";
                let n = self.name()?;
                let i = self.implements_interfaces_opt()?;
                let d = self.directives_opt(true)?;
                let p = if self.at_punct("{") {
                    self.fields_definition()?;
                    if object {
                        P::ObjectTypeExtension_WithFields
                    } else {
                        P::InterfaceTypeExtension_WithFields
                    }
                } else if d {
                    if object {
                        P::ObjectTypeExtension_Directives
                    } else {
                        P::InterfaceTypeExtension_Directives
                    }
                } else if i {
                    if object {
                        P::ObjectTypeExtension_ImplementsOnly
                    } else {
                        P::InterfaceTypeExtension_ImplementsOnly
                    }
                } else {
                    return self.err();
                };
                self.used(p);
                self.defs.push((
                    if object {
                        DefKind::ObjectTypeExtension
                    } else {
                        DefKind::InterfaceTypeExtension
                    },
                    Some(n),
                ));
            }
            "union" => {
                // UnionTypeExtension :
                //   extend union Name Directives[Const]? UnionMemberTypes
                //   extend union Name Directives[Const]
                let n = self.name()?;
                let d = self.directives_opt(true)?;
                if self.at_punct("=") {
                    self.union_member_types()?;
                    self.used(P::UnionTypeExtension_WithMembers);
                } else if d {
                    self.used(P::UnionTypeExtension_DirectivesOnly);
                } else {
                    return self.err();
                }
                self.defs.push((DefKind::UnionTypeExtension, Some(n)));
            }
            "enum" => {
                // EnumTypeExtension :
                //   extend enum Name Directives[Const]? EnumValuesDefinition
                //   extend enum Name Directives[Const] [lookahead != {]
                let n = self.name()?;
                let d = self.directives_opt(true)?;
                if self.at_punct("{") {
                    self.enum_values_definition()?;
                    self.used(P::EnumTypeExtension_WithValues);
                } else if d {
                    self.used(P::EnumTypeExtension_DirectivesOnly);
                } else {
                    return self.err();
                }
                self.defs.push((DefKind::EnumTypeExtension, Some(n)));
            }
            "input" => {
                // InputObjectTypeExtension :
                //   extend input Name Directives[Const]? InputFieldsDefinition
                //   extend input Name Directives[Const] [lookahead != {]
                let n = self.name()?;
                let d = self.directives_opt(true)?;
                if self.at_punct("{") {
                    self.input_fields_definition()?;
                    self.used(P::InputObjectTypeExtension_WithFields);
                } else if d {
                    self.used(P::InputObjectTypeExtension_DirectivesOnly);
                } else {
                    return self.err();
                }
                self.defs.push((DefKind::InputObjectTypeExtension, Some(n)));
            }
            _ => {
                self.pos -= 1;
                return self.err();
            }
        }
        Ok(())
    }

    /// { RootOperationTypeDefinition+ }
    fn root_operation_types(&mut self) -> R {
        self.expect_punct("{")?;
        self.root_operation_type_definition()?;
        while !self.at_punct("}") {
            self.root_operation_type_definition()?;
        }
        self.expect_punct("}")
    }

    /// RootOperationTypeDefinition : OperationType : NamedType
    fn root_operation_type_definition(&mut self) -> R {
        self.operation_type()?;
        self.expect_punct(":")?;
        if self.at_name() || !self.deviate(Dev::RootOperationTypeWithoutType) {
            self.named_type()?;
        }
        self.used(P::RootOperationTypeDefinition);
        Ok(())
    }

    /// ImplementsInterfaces : ImplementsInterfaces & NamedType | implements &? NamedType
    fn implements_interfaces_opt(&mut self) -> R<bool> {
        if !self.at_kw("implements") {
            return Ok(false);
        }
        self.pos += 1;
        if self.eat_punct("&") {
            self.used(P::ImplementsInterfaces_LeadingAmp);
        }
        self.named_type()?;
        self.used(P::ImplementsInterfaces_First);
        while self.eat_punct("&") {
            self.named_type()?;
            self.used(P::ImplementsInterfaces_More);
        }
        Ok(true)
    }

    /// FieldsDefinition : { FieldDefinition+ }
    fn fields_definition(&mut self) -> R {
        self.expect_punct("{")?;
        self.field_definition()?;
        while !self.at_punct("}") {
            self.field_definition()?;
        }
        self.expect_punct("}")?;
        self.used(P::FieldsDefinition);
        Ok(())
    }

    /// FieldDefinition : Description? Name ArgumentsDefinition? : Type Directives[Const]?
    fn field_definition(&mut self) -> R {
        self.description_opt()?;
        self.name()?;
        if self.at_punct("(") {
            self.arguments_definition()?;
        }
        self.expect_punct(":")?;
        self.ty()?;
        self.directives_opt(true)?;
        self.used(P::FieldDefinition);
        Ok(())
    }

    /// ArgumentsDefinition : ( InputValueDefinition+ )
    fn arguments_definition(&mut self) -> R {
        self.expect_punct("(")?;
        self.input_value_definition()?;
        while !self.at_punct(")") {
            self.input_value_definition()?;
        }
        self.expect_punct(")")?;
        self.used(P::ArgumentsDefinition);
        Ok(())
    }

    /// InputValueDefinition : Description? Name : Type DefaultValue? Directives[Const]?
    fn input_value_definition(&mut self) -> R {
        self.description_opt()?;
        self.name()?;
        self.expect_punct(":")?;
        self.ty()?;
        self.default_value_opt()?;
        self.directives_opt(true)?;
        self.used(P::InputValueDefinition);
        Ok(())
    }

    /// InputFieldsDefinition : { InputValueDefinition+ }
    fn input_fields_definition(&mut self) -> R {
        self.expect_punct("{")?;
        self.input_value_definition()?;
        while !self.at_punct("}") {
            self.input_value_definition()?;
        }
        self.expect_punct("}")?;
        self.used(P::InputFieldsDefinition);
        Ok(())
    }

    /// UnionMemberTypes : UnionMemberTypes | NamedType  |  = |? NamedType
    fn union_member_types(&mut self) -> R {
        self.expect_punct("=")?;
        if self.eat_punct("|") {
            self.used(P::UnionMemberTypes_LeadingPipe);
        }
        self.named_type()?;
        self.used(P::UnionMemberTypes_First);
        while self.eat_punct("|") {
            self.named_type()?;
            self.used(P::UnionMemberTypes_More);
        }
        Ok(())
    }

    /// EnumValuesDefinition : { EnumValueDefinition+ }
    fn enum_values_definition(&mut self) -> R {
        self.expect_punct("{")?;
        self.enum_value_definition()?;
        while !self.at_punct("}") {
            self.enum_value_definition()?;
        }
        self.expect_punct("}")?;
        self.used(P::EnumValuesDefinition);
        Ok(())
    }

    /// EnumValueDefinition : Description? EnumValue Directives[Const]?
    /// EnumValue : Name but not `true` or `false` or `null`   (A.2)
    fn enum_value_definition(&mut self) -> R {
        self.description_opt()?;
        if self.at_kw("true") || self.at_kw("false") || self.at_kw("null") {
            return self.err();
        }
        self.name()?;
        self.used(P::EnumValue);
        self.directives_opt(true)?;
        self.used(P::EnumValueDefinition);
        Ok(())
    }

    /// DirectiveLocations : DirectiveLocations | DirectiveLocation  |  |? DirectiveLocation
    fn directive_locations(&mut self) -> R {
        if self.eat_punct("|") {
            self.used(P::DirectiveLocations_LeadingPipe);
        }
        self.directive_location()?;
        self.used(P::DirectiveLocations_First);
        while self.eat_punct("|") {
            self.directive_location()?;
            self.used(P::DirectiveLocations_More);
        }
        Ok(())
    }

    fn directive_location(&mut self) -> R {
        let Some(t) = self.peek() else {
            return self.err();
        };
        if t.kind != Kind::Name {
            return self.err();
        }
        match DIRECTIVE_LOCATIONS.iter().find(|(n, _)| *n == t.text) {
            Some((_, p)) => {
                self.pos += 1;
                self.used(*p);
                Ok(())
            }
            None => self.err(),
        }
    }
}

#[cfg(test)]
mod tests {
    use super::*;
    use DefKind::*;

    fn acc(s: &str) -> bool {
        document_str(s).is_some()
    }
    fn defs(s: &str) -> Vec<(DefKind, Option<String>)> {
        document_str(s)
            .unwrap_or_else(|| panic!("rejected: {s}"))
            .definitions
            .into_iter()
            .map(|(k, n)| (k, n.map(str::to_string)))
            .collect()
    }
    fn d(k: DefKind, n: &str) -> (DefKind, Option<String>) {
        (k, Some(n.to_string()))
    }
    #[track_caller]
    fn yes(s: &str) {
        assert!(acc(s), "should be accepted: {s}");
    }
    #[track_caller]
    fn no(s: &str) {
        assert!(!acc(s), "should be rejected: {s}");
    }

    #[test]
    fn production_table_is_consistent() {
        assert_eq!(PRODUCTION_NAMES[P::Document as usize], "Document");
        assert_eq!(
            PRODUCTION_NAMES[P::TypeSystemDirectiveLocation_INPUT_FIELD_DEFINITION as usize],
            "TypeSystemDirectiveLocation_INPUT_FIELD_DEFINITION"
        );
        assert_eq!(N_PRODUCTIONS, P::TypeSystemDirectiveLocation_INPUT_FIELD_DEFINITION as usize + 1);
        assert_eq!(DIRECTIVE_LOCATIONS.len(), 19);
    }

    /// Examples of spec §2 (Language), October 2021.
    #[test]
    fn spec_section_2_examples() {
        // §2.3 operations
        yes("mutation { likeStory(storyID: 12345) { story { likeCount } } }");
        yes("{ field }");
        // §2.4 selection sets, §2.5 fields
        yes("{ id firstName lastName }");
        yes("{ me { id firstName lastName birthday { month day } friends { name } } }");
        yes("{ user(id: 4) { name } }");
        // §2.6 arguments
        yes("{ user(id: 4) { id name profilePic(size: 100) } }");
        yes("{ user(id: 4) { id name profilePic(width: 100, height: 50) } }");
        yes("{ picture(width: 200, height: 100) }");
        // §2.7 aliases
        yes("{ user(id: 4) { id name smallPic: profilePic(size: 64) bigPic: profilePic(size: 1024) } }");
        yes("{ zuck: user(id: 4) { id name } }");
        // §2.8 fragments
        yes("query withFragments { user(id: 4) { friends(first: 10) { ...friendFields } mutualFriends(first: 10) { ...friendFields } } } fragment friendFields on User { id name profilePic(size: 50) }");
        yes("fragment friendFields on User { id name ...standardProfilePic } fragment standardProfilePic on User { profilePic(size: 50) }");
        yes("query FragmentTyping { profiles(handles: [\"zuck\", \"cocacola\"]) { handle ...userFragment ...pageFragment } } fragment userFragment on User { friends { count } } fragment pageFragment on Page { likers { count } }");
        yes("query inlineFragmentTyping { profiles(handles: [\"zuck\", \"cocacola\"]) { handle ... on User { friends { count } } ... on Page { likers { count } } } }");
        yes("query inlineFragmentNoType($expandedInfo: Boolean) { user(handle: \"zuck\") { id name ... @include(if: $expandedInfo) { firstName lastName birthday } } }");
        // §2.9 input values
        yes("{ field(arg: null) }");
        yes("{ field }");
        yes("{ nearestThing(location: { lon: 12.43, lat: -53.211 }) }");
        yes("{ nearestThing(location: { lat: -53.211, lon: 12.43 }) }");
        yes("mutation { sendEmail(message: \"\"\"\n  Hello,\n    World!\n\n  Yours,\n    GraphQL.\n\"\"\") }");
        yes("{ f(a: [1, 2, 3], b: [], c: {}, d: [[]], e: {a: {}}) }");
        // §2.10 variables
        yes("query getZuckProfile($devicePicSize: Int) { user(id: 4) { id name profilePic(size: $devicePicSize) } }");
        // §2.12 directives
        yes("query ($foo: Boolean = true, $bar: Boolean = false) { field @skip(if: $foo) { subfieldA } field @skip(if: $bar) { subfieldB } }");
        yes("query myQuery($someTest: Boolean!) { experimentalField @skip(if: $someTest) }");
        // unicode BOM / commas / comments are ignored tokens
        yes("\u{feff}{ a, b # c\n , }");
    }

    /// Examples of spec §3 (Type System), October 2021.
    #[test]
    fn spec_section_3_examples() {
        yes("schema { query: MyQueryRootType mutation: MyMutationRootType } type MyQueryRootType { someField: String } type MyMutationRootType { setSomeField(to: String): String }");
        yes("type Query { someField: String }");
        yes("\"\"\"\nA simple GraphQL schema which is well described.\n\"\"\"\nschema { query: Query }\n\"\"\"\nRoot type for all your query operations\n\"\"\"\ntype Query {\n  \"\"\"\n  Translates a string from a given language into a different language.\n  \"\"\"\n  translate(\n    \"The original language that `text` is provided in.\"\n    fromLanguage: Language\n    \"The translated language to be returned.\"\n    toLanguage: Language\n    \"The text to be translated.\"\n    text: String\n  ): String\n}\n\"\"\"\nThe set of languages supported by `translate`.\n\"\"\"\nenum Language {\n  \"English\"\n  EN\n  \"French\"\n  FR\n  \"Chinese\"\n  CH\n}");
        yes("scalar UUID @specifiedBy(url: \"https://tools.ietf.org/html/rfc4122\")");
        yes("scalar URL @specifiedBy(url: \"https://tools.ietf.org/html/rfc3986\")");
        yes("type Person { name: String age: Int picture: Url }");
        yes("type Person { name: String age: Int picture(size: Int): Url }");
        yes("type ExampleType { oldField: String @deprecated }");
        yes("extend type Story { isHiddenLocally: Boolean }");
        yes("extend type User @addedDirective");
        yes("interface NamedEntity { name: String } interface ValuedEntity { value: Int } type Person implements NamedEntity { name: String age: Int } type Business implements NamedEntity & ValuedEntity { name: String value: Int employeeCount: Int }");
        yes("interface Node { id: ID! } interface Resource implements Node { id: ID! url: String }");
        yes("interface Image implements Resource & Node { id: ID! url: String thumbnail: String }");
        yes("extend interface NamedEntity { nickname: String } extend type Person { nickname: String } extend type Business { nickname: String }");
        yes("extend interface NamedEntity @addedDirective");
        yes("union SearchResult = Photo | Person type Person { name: String age: Int } type Photo { height: Int width: Int } type SearchQuery { firstSearchResult: SearchResult }");
        yes("union SearchResult =\n  | Photo\n  | Person");
        yes("enum Direction { NORTH EAST SOUTH WEST }");
        yes("input Point2D { x: Float y: Float }");
        yes("input ExampleInputObject { a: String b: Int! }");
        yes("extend input I @d extend input I { a: Int } extend enum E @d extend enum E { A } extend union U @d extend union U = A extend scalar S @d");
        yes("directive @example on FIELD");
        yes("directive @example on\n  | FIELD\n  | FRAGMENT_SPREAD\n  | INLINE_FRAGMENT");
        yes("directive @example on FIELD_DEFINITION | ARGUMENT_DEFINITION type SomeType { field(arg: Int @example): String @example }");
        yes("directive @delegateField(name: String!) repeatable on OBJECT | INTERFACE type Book @delegateField(name: \"pageCount\") @delegateField(name: \"author\") { id: ID! } extend type Book @delegateField(name: \"index\")");
        yes("directive @invalidExample(arg: String @invalidExample) on ARGUMENT_DEFINITION"); // syntactically fine
        yes("directive @skip(if: Boolean!) on FIELD | FRAGMENT_SPREAD | INLINE_FRAGMENT");
        yes("directive @deprecated( reason: String = \"No longer supported\" ) on FIELD_DEFINITION | ENUM_VALUE");
        yes("directive @specifiedBy(url: String!) on SCALAR");
        yes("extend schema @d extend schema { mutation: M } extend schema @d { subscription: S }");
        yes("type A implements & B & C type D union U");
    }

    #[test]
    fn definitions_list() {
        assert_eq!(
            defs("{ a } query Q { a } mutation { a } subscription S { a } fragment F on T { a }"),
            vec![
                (OperationDefinition, None),
                d(OperationDefinition, "Q"),
                (OperationDefinition, None),
                d(OperationDefinition, "S"),
                d(FragmentDefinition, "F"),
            ]
        );
        assert_eq!(
            defs("schema { query: Q } scalar S type T interface I union U enum E input In directive @d on FIELD \
                  extend schema @d extend scalar S @d extend type T @d extend interface I @d extend union U @d \
                  extend enum E @d extend input In @d"),
            vec![
                (SchemaDefinition, None),
                d(ScalarTypeDefinition, "S"),
                d(ObjectTypeDefinition, "T"),
                d(InterfaceTypeDefinition, "I"),
                d(UnionTypeDefinition, "U"),
                d(EnumTypeDefinition, "E"),
                d(InputObjectTypeDefinition, "In"),
                d(DirectiveDefinition, "d"),
                (SchemaExtension, None),
                d(ScalarTypeExtension, "S"),
                d(ObjectTypeExtension, "T"),
                d(InterfaceTypeExtension, "I"),
                d(UnionTypeExtension, "U"),
                d(EnumTypeExtension, "E"),
                d(InputObjectTypeExtension, "In"),
            ]
        );
        // definitions that cannot take a `{` are followed by an anonymous operation
        assert_eq!(
            defs("scalar S { a }"),
            vec![d(ScalarTypeDefinition, "S"), (OperationDefinition, None)]
        );
        assert_eq!(
            defs("union U = A { a }"),
            vec![d(UnionTypeDefinition, "U"), (OperationDefinition, None)]
        );
        assert_eq!(
            defs("directive @d on FIELD { a }"),
            vec![d(DirectiveDefinition, "d"), (OperationDefinition, None)]
        );
        // keywords as names
        assert_eq!(
            defs("query query { query } type type { type: type } fragment fragment on on { on }"),
            vec![
                d(OperationDefinition, "query"),
                d(ObjectTypeDefinition, "type"),
                d(FragmentDefinition, "fragment"),
            ]
        );
    }

    /// DESIGN A.2 fine points, both sides of each boundary.
    #[test]
    fn fine_points() {
        // Document is Definition+
        no("");
        no(" , # c");
        // lexical errors reject
        no("{ a } é");
        no("{ a(b: 1a) }");
        // anonymous selection set only at definition position; no stray tokens
        no("a");
        no("{ a } }");
        no("query");
        no("query Q");
        // `+` lists reject empty
        no("{ }");
        no("{ a { } }");
        no("{ a() }");
        no("query () { a }");
        no("{ a @d() }");
        no("type A { }");
        no("type A { f(): Int }");
        no("interface A { }");
        no("enum E { }");
        no("input I { }");
        no("schema { }");
        no("extend schema { }");
        no("directive @d() on FIELD");
        // ListValue / ObjectValue accept empty
        yes("{ a(b: [], c: {}) }");
        yes("query ($a: [Int] = [], $b: I = {}) { a }");
        // descriptions
        yes("\"d\" schema { query: Q }");
        yes("\"d\" directive @d on FIELD");
        yes("\"\"\"d\"\"\" scalar S");
        yes("\"d\" type T \"d\" interface I \"d\" union U \"d\" enum E \"d\" input In");
        yes("type T { \"d\" f(\"d\" a: Int): Int } enum E { \"d\" A } input In { \"d\" a: Int }");
        no("\"d\"");
        no("\"d\" { a }");
        no("\"d\" query { a }");
        no("\"d\" fragment F on T { a }");
        no("\"d\" extend type T @d");
        no("\"d\" extend schema @d");
        no("\"d\" \"e\" type T");
        no("type T \"d\"");
        no("{ \"d\" a }");
        no("schema { \"d\" query: Q }");
        no("union U = \"d\" A");
        no("query (\"d\" $a: Int) { a }");
        // extensions need at least one component
        no("extend schema");
        no("extend scalar S");
        no("extend type T");
        no("extend interface I");
        no("extend union U");
        no("extend enum E");
        no("extend input In");
        no("extend");
        no("extend directive @d on FIELD");
        no("extend fragment F on T { a }");
        yes("extend type T implements I");
        yes("extend interface T implements I");
        yes("extend type T implements I @d { a: Int }");
        no("extend schema @d { a }"); // lookahead != {
        no("type T { a }"); // lookahead != { : cannot be `type T` followed by an operation
        no("enum E @d { a: Int }");
        // FragmentName is not `on`
        no("fragment on on T { a }");
        yes("fragment On on T { a }");
        yes("fragment a on on { a }");
        no("{ ... on }");
        yes("{ ... on on { a } }");
        yes("{ ... a }");
        yes("{ ... { a } ... @d { a } ... on T @d { a } ... F @d }");
        no("{ ... }");
        no("{ ... on T }");
        no("{ ... F { a } extra: }");
        no("fragment F { a }");
        no("fragment F on { a }");
        no("fragment F on T");
        no("fragment F($a: Int) on T { a }");
        // EnumValue is not true / false / null
        no("enum E { true }");
        no("enum E { false }");
        no("enum E { null }");
        no("enum E { A null }");
        yes("enum E { True NULL on type enum }");
        yes("{ a(b: true, c: false, d: null, e: E, f: on, g: type) }");
        // Const contexts
        no("query ($a: Int = $b) { a }");
        no("query ($a: [Int] = [$b]) { a }");
        no("query ($a: [Int] = [[1 $b]]) { a }");
        no("query ($a: I = {x: $b}) { a }");
        no("query ($a: I = {x: [{y: $b}]}) { a }");
        no("query ($a: Int @d(x: $b)) { a }");
        yes("query ($a: Int @d(x: 1)) @e(x: $a) { a @d(x: $a) }");
        yes("query ($a: Int = 1 @d @e, $b: [Int!]! = [1]) { a(x: [$a, {y: $b}]) }");
        no("type T @d(x: $a)");
        no("type T { f(a: Int = $v): Int }");
        no("type T { f(a: Int @d(x: [$v])): Int }");
        no("type T { f: Int @d(x: $v) }");
        no("scalar S @d(x: $v)");
        no("schema @d(x: $v) { query: Q }");
        no("enum E { A @d(x: $v) }");
        no("input I { a: Int = {b: $v} }");
        no("directive @d(a: Int = $v) on FIELD");
        no("extend type T @d(x: $v)");
        yes("fragment F on T @d(x: $v) { a }");
        // optional leading & and |
        yes("type T implements & A");
        yes("type T implements & A & B");
        yes("type T implements A & B");
        no("type T implements");
        no("type T implements &");
        no("type T implements A &");
        no("type T implements A & & B");
        no("type T implements & & A");
        no("type T implements A B"); // legacy syntax is not in the grammar
        no("type T implements A, B");
        yes("union U = | A");
        yes("union U = | A | B");
        no("union U =");
        no("union U = |");
        no("union U = A |");
        no("union U = A | | B");
        no("union U = | | A");
        no("union U | A");
        yes("directive @d on | FIELD");
        no("directive @d on");
        no("directive @d on |");
        no("directive @d on FIELD |");
        no("directive @d on FIELD | | QUERY");
        // repeatable, `on`, `@`
        yes("directive @d repeatable on FIELD");
        yes("directive @d(a: Int) repeatable on FIELD");
        no("directive @d on repeatable FIELD");
        no("directive @d repeatable FIELD");
        no("directive @d FIELD");
        no("directive d on FIELD");
        no("directive @d repeatable repeatable on FIELD");
        yes("directive @repeatable repeatable on FIELD");
        yes("directive @on on FIELD");
        // the 19 locations exactly
        for (l, _) in DIRECTIVE_LOCATIONS {
            yes(&format!("directive @d on {l}"));
            no(&format!("directive @d on {}", l.to_lowercase()));
        }
        no("directive @d on field");
        no("directive @d on a");
        no("directive @d on VARIABLE");
        no("directive @d on INPUT_FIELD");
        no("directive @d on FRAGMENT");
        no("directive @d on 1");
        // types
        yes("type T { a: [[Int!]!]! b: [Int] c: Int! }");
        no("type T { a: Int!! }");
        no("type T { a: [Int }");
        no("type T { a: [] }");
        no("type T { a: [Int]] }");
        no("type T { a: ! }");
        no("type T { a }");
        no("type T { a: }");
        no("type T { : Int }");
        no("query ($a) { a }");
        no("query ($a: ) { a }");
        no("query (a: Int) { a }");
        no("query ($: Int) { a }");
        no("query ($a: Int = ) { a }");
        // fields, aliases, arguments, values
        yes("{ a: b }");
        no("{ a: }");
        no("{ a: b: c }");
        no("{ : a }");
        no("{ a(b) }");
        no("{ a(b:) }");
        no("{ a(: 1) }");
        no("{ a(b: 1 }");
        no("{ a(b: [1) }");
        no("{ a(b: {c}) }");
        no("{ a(b: {c: }) }");
        no("{ a(b: {1: 1}) }");
        no("{ a(b: $) }");
        no("{ a(b: @d) }");
        no("{ a @ }");
        no("{ a @1 }");
        no("{ a @d @ }");
        no("{ a { b }");
        no("{ a(b: 1)(c: 2) }");
        no("{ a { b } { c } }");
        no("{ a @d(x: 1) @e { b } @ }");
        yes("{ a @d(x: 1) @e { b } }");
        yes("{ a(b: -1, c: 1.5e3, d: \"s\", e: \"\"\"b\"\"\", f: $v) }");
        // operations
        yes("query { a } mutation { a } subscription { a }");
        yes("query Q ($a: Int) @d { a }");
        no("query Q @d ($a: Int) { a }");
        no("query Q R { a }");
        no("Query { a }");
        no("query ($a: Int) ($b: Int) { a }");
        // schema
        yes("schema @d { query: Q mutation: M subscription: S }");
        no("schema { query Q }");
        no("schema { query: }");
        no("schema { a: Q }");
        no("schema { query: [Q] }");
        no("schema { query: Q! }");
        no("schema");
        no("schema @d");
        no("schema S { query: Q }");
        // names are required where the grammar says so
        no("scalar");
        no("type");
        no("type { a: Int }");
        no("interface");
        no("union");
        no("union = A");
        no("enum");
        no("enum { A }");
        no("input");
        no("input { a: Int }");
        no("directive");
        no("directive @");
        no("directive @ on FIELD");
        no("scalar 1");
        no("scalar S S");
        // input / arguments definitions
        yes("input I @d { a: Int = 1 @d b: [I!] }");
        no("input I { a(b: Int): Int }");
        no("input I { a: Int = }");
        no("type T { f(a: Int = 1 @d \"x\": Int): Int }");
        yes("type T { f(a: Int = 1 @d \"x\" b: Int): Int }");
        no("type T { f(a): Int }");
        no("type T { f(a: Int) }");
        no("type T { f(a: Int: Int }");
        no("type T implements A @d { a: Int } }");
    }

    /// Each deviation switch accepts exactly its own wrong inputs, records that it fired, and
    /// leaves everything else alone.
    #[test]
    fn deviation_switches() {
        let cases: [(Dev, &[&str], &[&str]); 6] = [
            (
                Dev::SchemaDefinitionWithoutBraces,
                &["schema", "schema @d", "type T schema", "\"d\" schema scalar S"],
                &["schema {", "schema { }", "extend schema"],
            ),
            (
                Dev::SchemaExtensionEmptyBraces,
                &["extend schema @a { }", "extend schema @a @b { } scalar S"],
                &["extend schema { }", "extend schema @a {", "schema @a { }"],
            ),
            (
                Dev::DescriptionAsFragmentKeyword,
                &["\"s\" fragment on a { a }", "\"\"\"b\"\"\" fragment on a @d { a }"],
                &[
                    "\"s\" fragment a on a { a }",
                    "\"s\" fragment on { a }",
                    "\"s\" query { a }",
                    "\"s\" { a }",
                    "\"s\" extend type T @d",
                ],
            ),
            (
                Dev::ArgumentWithoutValue,
                &["{ a(a) }", "{ a(a b: 1 c) }", "{ a @d(a) }", "scalar S @d(a)"],
                &["{ a() }", "{ a(a:) }", "{ a(1) }", "type T { f(a): Int }"],
            ),
            (
                Dev::ObjectFieldWithoutValue,
                &["{ a(a: {b}) }", "{ a(a: {b c: 1 d}) }", "input I { a: I = {b} }"],
                &["{ a(a: {b:}) }", "{ a(a: {1}) }", "{ a(a) }"],
            ),
            (
                Dev::RootOperationTypeWithoutType,
                &["schema { query: }", "extend schema { mutation: }", "schema @d { subscription: } scalar S"],
                // `query: mutation` reads `mutation` as the type, the next `:` is then stray
                &["schema { query }", "schema { : Q }", "schema { query: mutation: M }"],
            ),
        ];
        let lexed = |s: &str| -> Vec<(Kind, String)> {
            significant_tokens(s, lex::Params::default())
                .unwrap()
                .iter()
                .map(|t| (t.kind, t.text.to_string()))
                .collect()
        };
        let run = |s: &str, dev: Deviations| -> Option<Deviations> {
            let owned = lexed(s);
            let toks: Vec<Tok<'_>> = owned
                .iter()
                .map(|(k, t)| Tok { kind: *k, text: t })
                .collect();
            document_with(&toks, dev).ok().map(|a| a.fired)
        };
        let all = Dev::ALL.into_iter().fold(Deviations::NONE, Deviations::with);
        for (d, wrongly_accepted, still_rejected) in cases {
            let only = Deviations::NONE.with(d);
            for s in wrongly_accepted {
                assert_eq!(run(s, Deviations::NONE), None, "strict must reject {s}");
                assert_eq!(run(s, only), Some(only), "{d:?} must accept {s}");
                assert_eq!(run(s, all), Some(only), "only {d:?} fires on {s}");
            }
            for s in still_rejected {
                assert_eq!(run(s, only), None, "{d:?} must not accept {s}");
            }
        }
        // CommaInLookahead turns these grammatical documents into rejections
        let comma = Deviations::NONE.with(Dev::CommaInLookahead);
        for s in [
            "\"d\" , type T",
            "\"d\",scalar S",
            "extend , type T @d",
            "{ ... , F }",
            "{ ... , on T { a } }",
            "{ ... # c\n , { a } }",
            "{ al , : fq }",
            "{ x al , : fq }",
        ] {
            assert!(judge(s).accepted(), "grammatical: {s}");
            let v = judge_with(s, all);
            assert!(!v.accepted(), "CommaInLookahead must reject {s}");
            assert_eq!(v.fired(), comma, "{s}");
        }
        for s in [
            "type T { \"d\" , a: Int }",
            "{ a , b }",
            "{ a(b , : 1) }",
            "{ a(b: \"s\" , c: 1) }",
            "{ extend , a }",
            "{ , ... F , }",
            "scalar S , extend scalar S @d",
            "{ a : , b }",
        ] {
            let v = judge_with(s, all);
            assert!(v.accepted(), "no deviation on {s}");
            assert_eq!(v.fired(), Deviations::NONE, "{s}");
        }
        // the fragment deviation yields a fragment named `fragment`
        let owned = lexed("\"s\" fragment on a { a }");
        let toks: Vec<Tok<'_>> = owned.iter().map(|(k, t)| Tok { kind: *k, text: t }).collect();
        let a = document_with(&toks, all).unwrap();
        assert_eq!(a.definitions, vec![(FragmentDefinition, Some("fragment"))]);
        // switches never fire on grammatical input
        for s in ["schema { query: Q }", "{ a(a: {b: 1}) }", "extend schema @a { query: Q }", "\"s\" type fragment"] {
            assert_eq!(run(s, all), Some(Deviations::NONE), "{s}");
        }
    }

    #[test]
    fn standalone_entry_points() {
        fn t(s: &str) -> Vec<Tok<'_>> {
            significant_tokens(s, lex::Params::default()).unwrap()
        }
        assert!(is_type(&t("[Int!]!")));
        assert!(is_type(&t("a")));
        assert!(!is_type(&t("")));
        assert!(!is_type(&t("Int ]")));
        assert!(!is_type(&t("Int!!")));
        assert!(is_field_set(&t("a b { c } ... on T { d }")));
        assert!(!is_field_set(&t("")));
        assert!(!is_field_set(&t("a } b")));
        assert!(!is_field_set(&t("{ a }")));
    }

    #[test]
    fn counters_count_completed_productions() {
        let a = document_str("type T implements & A & B { f(a: Int = 1): [Int!]! }").unwrap();
        let u = |p: P| a.uses[p as usize];
        assert_eq!(u(P::Document), 1);
        assert_eq!(u(P::ObjectTypeDefinition_WithFields), 1);
        assert_eq!(u(P::ImplementsInterfaces_LeadingAmp), 1);
        assert_eq!(u(P::ImplementsInterfaces_First), 1);
        assert_eq!(u(P::ImplementsInterfaces_More), 1);
        assert_eq!(u(P::InputValueDefinition), 1);
        assert_eq!(u(P::DefaultValue), 1);
        assert_eq!(u(P::ConstValue_Int), 1);
        assert_eq!(u(P::Value_Int), 0);
        assert_eq!(u(P::NonNullType_Named), 1);
        assert_eq!(u(P::NonNullType_List), 1);
        assert_eq!(u(P::ListType), 1);
        assert_eq!(u(P::NamedType), 4);
    }
}
