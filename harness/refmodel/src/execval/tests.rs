//! Unit tests of the reference executable validator: the examples / counter-examples of the
//! October 2021 specification §5 (transcribed; numbers quoted from memory of the spec text are
//! given by section), the design-phase calibration table, and the deviation switches.

use super::*;

const SPEC_SCHEMA: &str = r#"
type Query { dog: Dog findDog(complex: ComplexInput): Dog booleanList(booleanListArg: [Boolean!]): Boolean human: Human pet: Pet catOrDog: CatOrDog arguments: Arguments alien: Alien dogOrHuman: DogOrHuman humanOrAlien: HumanOrAlien sentient: Sentient }
type Mutation { mutateDog: Dog }
enum DogCommand { SIT DOWN HEEL }
type Dog implements Pet { name: String! nickname: String barkVolume: Int doesKnowCommand(dogCommand: DogCommand!): Boolean! isHouseTrained(atOtherHomes: Boolean): Boolean! owner: Human }
interface Sentient { name: String! }
interface Pet { name: String! }
type Alien implements Sentient { name: String! homePlanet: String }
type Human implements Sentient { name: String! pets: [Pet!] }
enum CatCommand { JUMP }
type Cat implements Pet { name: String! nickname: String doesKnowCommand(catCommand: CatCommand!): Boolean! meowVolume: Int }
union CatOrDog = Cat | Dog
union DogOrHuman = Dog | Human
union HumanOrAlien = Human | Alien
type Arguments { multipleReqs(x: Int!, y: Int!): Int! booleanArgField(booleanArg: Boolean): Boolean floatArgField(floatArg: Float): Float intArgField(intArg: Int): Int nonNullBooleanArgField(nonNullBooleanArg: Boolean!): Boolean! booleanListArgField(booleanListArg: [Boolean]!): [Boolean] optionalNonNullBooleanArgField(optionalBooleanArg: Boolean! = false): Boolean! }
input ComplexInput { name: String owner: String }
type Subscription { newMessage: Message disallowedSecondRootField: Boolean }
type Message { body: String sender: String }
"#;

fn spec_view() -> SchemaView {
    SchemaView::new(&text::must(SPEC_SCHEMA))
}

fn verdict(view: &SchemaView, doc: &str, dev: u32) -> Report {
    validate_with(view, &text::must(doc), &Params::with_deviations(dev))
}

/// Wrap fragment-only examples: add a query that spreads every fragment nobody else spreads,
/// under a field of a type the fragment's type condition can apply to.
fn with_user(doc: &str) -> String {
    let d = text::must(doc);
    if d.operations().next().is_some() {
        return doc.to_string();
    }
    let mut spread_somewhere = BTreeSet::new();
    for f in d.fragments() {
        for_each_selection(&f.selection, &mut |s| {
            if let Selection::Spread { name, .. } = s {
                spread_somewhere.insert(name.clone());
            }
        });
    }
    let mut sel = String::new();
    let mut i = 0;
    for f in d.fragments() {
        if spread_somewhere.contains(&f.name) {
            continue;
        }
        let field = match f.on.as_str() {
            "Query" => "",
            "Dog" => "dog",
            "Cat" | "CatOrDog" => "catOrDog",
            "Pet" => "pet",
            "Human" => "human",
            "Alien" => "alien",
            "Sentient" => "sentient",
            "DogOrHuman" => "dogOrHuman",
            "HumanOrAlien" => "humanOrAlien",
            "Arguments" => "arguments",
            _ => "dog",
        };
        i += 1;
        if field.is_empty() {
            sel.push_str(&format!(" ...{}", f.name));
        } else {
            sel.push_str(&format!(" k{}: {} {{ ...{} }}", i, field, f.name));
        }
    }
    format!("query Wrapper__ {{{sel} }} {doc}")
}

fn spec_case(valid: bool, doc: &str, rule: &str) {
    let view = spec_view();
    let full = with_user(doc);
    let r = verdict(&view, &full, 0);
    assert_eq!(r.is_valid(), valid, "{full}\n -> {:?}", r.violations);
    if !valid && !rule.is_empty() {
        assert!(r.rules().contains(&rule), "{full}\n expected rule {rule}, got {:?}", r.violations);
    }
}

#[test]
fn spec_5_1_and_5_2_documents_and_operations() {
    spec_case(false, "query getDogName { dog { name color } } extend type Dog { color: String }", "ExecutableDefinitions");
    spec_case(true, "query getDogName { dog { name } } query getOwnerName { dog { owner { name } } }", "");
    spec_case(false, "query getName { dog { name } } query getName { dog { owner { name } } }", "UniqueOperationNames");
    spec_case(false, "query dogOperation { dog { name } } mutation dogOperation { mutateDog { name } }", "UniqueOperationNames");
    spec_case(true, "{ dog { name } }", "");
    spec_case(false, "{ dog { name } } query getName { dog { owner { name } } }", "LoneAnonymousOperation");
    spec_case(true, "subscription sub { newMessage { body sender } }", "");
    spec_case(true, "subscription sub { ...newMessageFields } fragment newMessageFields on Subscription { newMessage { body sender } }", "");
    spec_case(false, "subscription sub { newMessage { body sender } disallowedSecondRootField }", "SingleFieldSubscriptions");
    spec_case(false, "subscription sub { ...multipleSubscriptions } fragment multipleSubscriptions on Subscription { newMessage { body sender } disallowedSecondRootField }", "SingleFieldSubscriptions");
    spec_case(false, "subscription sub { __typename }", "SingleFieldSubscriptions");
}

#[test]
fn spec_5_3_fields() {
    spec_case(false, "fragment fieldNotDefined on Dog { meowVolume }", "FieldsOnCorrectType");
    spec_case(false, "fragment aliasedLyingFieldTargetNotDefined on Dog { barkVolume: kawVolume }", "FieldsOnCorrectType");
    spec_case(true, "fragment interfaceFieldSelection on Pet { name }", "");
    spec_case(false, "fragment definedOnImplementorsButNotInterface on Pet { nickname }", "FieldsOnCorrectType");
    spec_case(true, "fragment inDirectFieldSelectionOnUnion on CatOrDog { __typename ... on Pet { name } ... on Dog { barkVolume } }", "");
    spec_case(false, "fragment directFieldSelectionOnUnion on CatOrDog { name barkVolume }", "FieldsOnCorrectType");
    // field merging
    spec_case(true, "fragment mergeIdenticalFields on Dog { name name } fragment mergeIdenticalAliasesAndFields on Dog { otherName: name otherName: name }", "");
    spec_case(false, "fragment conflictingBecauseAlias on Dog { name: nickname name }", "OverlappingFieldsCanBeMerged");
    spec_case(true, "query Q($dogCommand: DogCommand!) { dog { ...a ...b } } fragment a on Dog { doesKnowCommand(dogCommand: SIT) doesKnowCommand(dogCommand: SIT) } fragment b on Dog { x: doesKnowCommand(dogCommand: $dogCommand) x: doesKnowCommand(dogCommand: $dogCommand) }", "");
    spec_case(false, "fragment conflictingArgsOnValues on Dog { doesKnowCommand(dogCommand: SIT) doesKnowCommand(dogCommand: HEEL) }", "OverlappingFieldsCanBeMerged");
    spec_case(false, "query Q($dogCommand: DogCommand!) { dog { doesKnowCommand(dogCommand: SIT) doesKnowCommand(dogCommand: $dogCommand) } }", "OverlappingFieldsCanBeMerged");
    spec_case(false, "query Q($varOne: DogCommand!, $varTwo: DogCommand!) { dog { doesKnowCommand(dogCommand: $varOne) doesKnowCommand(dogCommand: $varTwo) } }", "OverlappingFieldsCanBeMerged");
    spec_case(false, "fragment differingArgs on Dog { isHouseTrained(atOtherHomes: true) isHouseTrained }", "OverlappingFieldsCanBeMerged");
    spec_case(true, "fragment safeDifferingFields on Pet { ... on Dog { volume: barkVolume } ... on Cat { volume: meowVolume } }", "");
    spec_case(true, "fragment safeDifferingArgs on Pet { ... on Dog { doesKnowCommand(dogCommand: SIT) } ... on Cat { doesKnowCommand(catCommand: JUMP) } }", "");
    spec_case(false, "fragment conflictingDifferingResponses on Pet { ... on Dog { someValue: nickname } ... on Cat { someValue: meowVolume } }", "OverlappingFieldsCanBeMerged");
    // leaf field selections
    spec_case(true, "fragment scalarSelection on Dog { barkVolume }", "");
    spec_case(false, "fragment scalarSelectionsNotAllowedOnInt on Dog { barkVolume { sinceWhen } }", "ScalarLeafs");
    spec_case(false, "query directQueryOnObjectWithoutSubFields { human }", "ScalarLeafs");
    spec_case(false, "query directQueryOnInterfaceWithoutSubFields { pet }", "ScalarLeafs");
    spec_case(false, "query directQueryOnUnionWithoutSubFields { catOrDog }", "ScalarLeafs");
}

#[test]
fn spec_5_4_arguments() {
    spec_case(true, "fragment argOnRequiredArg on Dog { doesKnowCommand(dogCommand: SIT) } fragment argOnOptional on Dog { isHouseTrained(atOtherHomes: true) @include(if: true) }", "");
    spec_case(false, "fragment invalidArgName on Dog { doesKnowCommand(command: CLEAN_UP_HOUSE) }", "KnownArgumentNames");
    spec_case(false, "fragment invalidArgName on Dog { isHouseTrained(atOtherHomes: true) @include(unless: false) }", "KnownArgumentNames");
    spec_case(true, "fragment multipleArgs on Arguments { multipleReqs(x: 1, y: 2) } fragment multipleArgsReverseOrder on Arguments { multipleReqs(y: 2, x: 1) }", "");
    spec_case(false, "fragment dup on Arguments { multipleReqs(x: 1, y: 2, x: 1) }", "UniqueArgumentNames");
    spec_case(true, "fragment goodBooleanArg on Arguments { booleanArgField(booleanArg: true) } fragment goodNonNullArg on Arguments { nonNullBooleanArgField(nonNullBooleanArg: true) }", "");
    spec_case(true, "fragment goodBooleanArgDefault on Arguments { booleanArgField }", "");
    spec_case(false, "fragment missingRequiredArg on Arguments { nonNullBooleanArgField }", "ProvidedRequiredArguments");
    spec_case(false, "fragment missingRequiredArg on Arguments { nonNullBooleanArgField(nonNullBooleanArg: null) }", "ValuesOfCorrectType");
}

#[test]
fn spec_5_5_fragments() {
    spec_case(true, "{ dog { ...fragmentOne ...fragmentTwo } } fragment fragmentOne on Dog { name } fragment fragmentTwo on Dog { owner { name } }", "");
    spec_case(false, "{ dog { ...fragmentOne } } fragment fragmentOne on Dog { name } fragment fragmentOne on Dog { owner { name } }", "UniqueFragmentNames");
    spec_case(true, "fragment correctType on Dog { name } fragment inlineFragment on Dog { ... on Dog { name } } fragment inlineFragment2 on Dog { ... @include(if: true) { name } }", "");
    spec_case(false, "fragment notOnExistingType on NotInSchema { name }", "KnownTypeNames");
    spec_case(false, "fragment inlineNotExistingType on Dog { ... on NotInSchema { name } }", "KnownTypeNames");
    spec_case(true, "fragment fragOnObject on Dog { name } fragment fragOnInterface on Pet { name } fragment fragOnUnion on CatOrDog { ... on Dog { name } }", "");
    spec_case(false, "{ dog { ...fragOnScalar } } fragment fragOnScalar on Int { something }", "FragmentsOnCompositeTypes");
    spec_case(false, "fragment inlineFragOnScalar on Dog { ... on Boolean { somethingElse } }", "FragmentsOnCompositeTypes");
    spec_case(false, "fragment nameFragment on Dog { name } { dog { name } }", "NoUnusedFragments");
    spec_case(false, "{ dog { ...undefinedFragment } }", "KnownFragmentNames");
    spec_case(false, "{ dog { ...nameFragment } } fragment nameFragment on Dog { name ...barkVolumeFragment } fragment barkVolumeFragment on Dog { barkVolume ...nameFragment }", "NoFragmentCycles");
    spec_case(false, "{ dog { ...dogFragment } } fragment dogFragment on Dog { name owner { ...ownerFragment } } fragment ownerFragment on Human { name pets { ...dogFragment } }", "NoFragmentCycles");
    spec_case(true, "fragment dogFragment on Dog { ... on Dog { barkVolume } }", "");
    spec_case(false, "fragment catInDogFragmentInvalid on Dog { ... on Cat { meowVolume } }", "PossibleFragmentSpreads");
    spec_case(true, "fragment petNameFragment on Pet { name } fragment interfaceWithinObjectFragment on Dog { ...petNameFragment }", "");
    spec_case(true, "fragment catOrDogNameFragment on CatOrDog { ... on Cat { meowVolume } } fragment unionWithObjectFragment on Dog { ...catOrDogNameFragment }", "");
    spec_case(true, "fragment petFragment on Pet { name ... on Dog { barkVolume } } fragment catOrDogFragment on CatOrDog { ... on Cat { meowVolume } }", "");
    spec_case(false, "fragment sentientFragment on Sentient { ... on Dog { barkVolume } }", "PossibleFragmentSpreads");
    spec_case(false, "fragment humanOrAlienFragment on HumanOrAlien { ... on Cat { meowVolume } }", "PossibleFragmentSpreads");
    spec_case(true, "fragment unionWithInterface on Pet { ...dogOrHumanFragment } fragment dogOrHumanFragment on DogOrHuman { ... on Dog { barkVolume } }", "");
    spec_case(false, "fragment nonIntersectingInterfaces on Pet { ...sentientFragment } fragment sentientFragment on Sentient { name }", "PossibleFragmentSpreads");
}

#[test]
fn spec_5_6_values() {
    spec_case(true, "fragment goodBooleanArg on Arguments { booleanArgField(booleanArg: true) } fragment coercedIntIntoFloatArg on Arguments { floatArgField(floatArg: 123) }", "");
    spec_case(true, "query goodComplexDefaultValue($search: ComplexInput = {name: \"Fido\"}) { findDog(complex: $search) { name } }", "");
    spec_case(false, "fragment stringIntoInt on Arguments { intArgField(intArg: \"123\") }", "ValuesOfCorrectType");
    spec_case(false, "query badComplexValue { findDog(complex: {name: 123}) { name } }", "ValuesOfCorrectType");
    spec_case(true, "{ findDog(complex: {name: \"Fido\"}) { name } }", "");
    spec_case(false, "{ findDog(complex: {favoriteCookieFlavor: \"Bacon\"}) { name } }", "ValuesOfCorrectType");
    spec_case(false, "{ findDog(complex: {name: \"a\", name: \"b\"}) { name } }", "UniqueInputFieldNames");
    spec_case(true, "{ booleanList(booleanListArg: [true, false]) }", "");
    spec_case(true, "{ booleanList(booleanListArg: true) }", "");
    spec_case(false, "{ booleanList(booleanListArg: [true, null]) }", "ValuesOfCorrectType");
    spec_case(false, "{ booleanList(booleanListArg: [[true]]) }", "ValuesOfCorrectType");
    spec_case(false, "fragment f on Arguments { intArgField(intArg: 2147483648) }", "ValuesOfCorrectType");
    spec_case(true, "fragment f on Arguments { intArgField(intArg: -2147483648) }", "");
    spec_case(false, "fragment f on Arguments { intArgField(intArg: 1.0) }", "ValuesOfCorrectType");
}

#[test]
fn spec_5_7_directives() {
    spec_case(false, "{ dog { name @nope } }", "KnownDirectives");
    spec_case(false, "query @skip(if: true) { dog { name } }", "KnownDirectives");
    spec_case(false, "query ($foo: Boolean = true, $bar: Boolean = false) { dog @skip(if: $foo) @skip(if: $bar) { name } }", "UniqueDirectivesPerLocation");
    spec_case(true, "query ($foo: Boolean = true, $bar: Boolean = false) { dog @skip(if: $foo) { name } dog @skip(if: $bar) { nickname } }", "");
    spec_case(false, "{ dog { name @skip } }", "ProvidedRequiredArguments");
    spec_case(false, "{ dog { name @deprecated } }", "KnownDirectives");
}

#[test]
fn spec_5_8_variables() {
    spec_case(false, "query houseTrainedQuery($atOtherHomes: Boolean, $atOtherHomes: Boolean) { dog { isHouseTrained(atOtherHomes: $atOtherHomes) } }", "UniqueVariableNames");
    spec_case(true, "query A($atOtherHomes: Boolean) { ...HouseTrainedFragment } query B($atOtherHomes: Boolean) { ...HouseTrainedFragment } fragment HouseTrainedFragment on Query { dog { isHouseTrained(atOtherHomes: $atOtherHomes) } }", "");
    spec_case(true, "query takesBoolean($atOtherHomes: Boolean) { dog { isHouseTrained(atOtherHomes: $atOtherHomes) } } query takesComplexInput($complexInput: ComplexInput) { findDog(complex: $complexInput) { name } } query TakesListOfBooleanBang($booleans: [Boolean!]) { booleanList(booleanListArg: $booleans) }", "");
    spec_case(false, "query takesCat($cat: Cat) { dog { name } }", "VariablesAreInputTypes");
    spec_case(false, "query takesDogBang($dog: Dog!) { dog { name } }", "VariablesAreInputTypes");
    spec_case(false, "query takesListOfPet($pets: [Pet]) { dog { name } }", "VariablesAreInputTypes");
    spec_case(false, "query takesCatOrDog($catOrDog: CatOrDog) { dog { name } }", "VariablesAreInputTypes");
    spec_case(true, "query variableIsDefined($atOtherHomes: Boolean) { dog { isHouseTrained(atOtherHomes: $atOtherHomes) } }", "");
    spec_case(false, "query variableIsNotDefined { dog { isHouseTrained(atOtherHomes: $atOtherHomes) } }", "NoUndefinedVariables");
    spec_case(true, "query variableIsDefinedUsedInSingleFragment($atOtherHomes: Boolean) { dog { ...isHouseTrainedFragment } } fragment isHouseTrainedFragment on Dog { isHouseTrained(atOtherHomes: $atOtherHomes) }", "");
    spec_case(false, "query variableIsNotDefinedUsedInSingleFragment { dog { ...isHouseTrainedFragment } } fragment isHouseTrainedFragment on Dog { isHouseTrained(atOtherHomes: $atOtherHomes) }", "NoUndefinedVariables");
    spec_case(false, "query variableIsNotDefinedUsedInNestedFragment { dog { ...outerHouseTrainedFragment } } fragment outerHouseTrainedFragment on Dog { ...isHouseTrainedFragment } fragment isHouseTrainedFragment on Dog { isHouseTrained(atOtherHomes: $atOtherHomes) }", "NoUndefinedVariables");
    spec_case(false, "query housetrainedQueryOne($atOtherHomes: Boolean) { dog { ...isHouseTrainedFragment } } query housetrainedQueryTwoNotDefined { dog { ...isHouseTrainedFragment } } fragment isHouseTrainedFragment on Dog { isHouseTrained(atOtherHomes: $atOtherHomes) }", "NoUndefinedVariables");
    spec_case(false, "query variableUnused($atOtherHomes: Boolean) { dog { isHouseTrained } }", "NoUnusedVariables");
    spec_case(false, "query variableNotUsedWithinFragment($atOtherHomes: Boolean) { dog { ...isHouseTrainedWithoutVariableFragment } } fragment isHouseTrainedWithoutVariableFragment on Dog { isHouseTrained }", "NoUnusedVariables");
    spec_case(false, "query queryWithUsedVar($atOtherHomes: Boolean) { dog { ...isHouseTrainedFragment } } query queryWithExtraVar($atOtherHomes: Boolean, $extra: Int) { dog { ...isHouseTrainedFragment } } fragment isHouseTrainedFragment on Dog { isHouseTrained(atOtherHomes: $atOtherHomes) }", "NoUnusedVariables");
    spec_case(false, "query intCannotGoIntoBoolean($intArg: Int) { arguments { booleanArgField(booleanArg: $intArg) } }", "VariablesInAllowedPosition");
    spec_case(false, "query booleanListCannotGoIntoBoolean($booleanListArg: [Boolean]) { arguments { booleanArgField(booleanArg: $booleanListArg) } }", "VariablesInAllowedPosition");
    spec_case(false, "query booleanArgQuery($booleanArg: Boolean) { arguments { nonNullBooleanArgField(nonNullBooleanArg: $booleanArg) } }", "VariablesInAllowedPosition");
    spec_case(true, "query nonNullListToList($nonNullBooleanList: [Boolean]!) { arguments { booleanListArgField(booleanListArg: $nonNullBooleanList) } }", "");
    spec_case(false, "query listToNonNullList($booleanList: [Boolean]) { arguments { booleanListArgField(booleanListArg: $booleanList) } }", "VariablesInAllowedPosition");
    spec_case(true, "query booleanArgQueryWithDefault($booleanArg: Boolean) { arguments { optionalNonNullBooleanArgField(optionalBooleanArg: $booleanArg) } }", "");
    spec_case(true, "query booleanArgQueryWithDefault($booleanArg: Boolean = true) { arguments { nonNullBooleanArgField(nonNullBooleanArg: $booleanArg) } }", "");
    spec_case(false, "query q($booleanArg: Boolean = null) { arguments { nonNullBooleanArgField(nonNullBooleanArg: $booleanArg) } }", "VariablesInAllowedPosition");
}

#[test]
fn compat_predicates() {
    let t = Ty::parse;
    assert!(are_types_compatible(&t("Int"), &t("Int")));
    assert!(are_types_compatible(&t("Int!"), &t("Int")));
    assert!(!are_types_compatible(&t("Int"), &t("Int!")));
    assert!(are_types_compatible(&t("[Int!]!"), &t("[Int]")));
    assert!(!are_types_compatible(&t("[Int]"), &t("[Int!]")));
    assert!(!are_types_compatible(&t("Int"), &t("[Int]")));
    assert!(!are_types_compatible(&t("[Int]"), &t("Int")));
    assert!(!are_types_compatible(&t("Int"), &t("Float")));
    assert!(is_variable_usage_allowed(&t("Int"), Some(&Value::int(1)), &t("Int!"), false, false));
    assert!(!is_variable_usage_allowed(&t("Int"), Some(&Value::Null), &t("Int!"), false, false));
    assert!(is_variable_usage_allowed(&t("Int"), Some(&Value::Null), &t("Int!"), false, true));
    assert!(is_variable_usage_allowed(&t("Int"), None, &t("Int!"), true, false));
    assert!(!is_variable_usage_allowed(&t("[Int]"), Some(&Value::int(1)), &t("[Int!]!"), false, false));
}

// ---- calibration table ---------------------------------------------------------------

const CALIBRATION: &str = include_str!("../../../../calibration/c17_executable_cases.tsv");

fn calibration() -> (SchemaView, Vec<(bool, String)>) {
    let mut schema = None;
    let mut rows = vec![];
    for line in CALIBRATION.lines() {
        if let Some(rest) = line.strip_prefix("# SCHEMA (one line): ") {
            schema = Some(SchemaView::new(&text::must(rest)));
        } else if line.starts_with('#') || line.starts_with("expected_valid") || line.trim().is_empty() {
            continue;
        } else {
            let (v, d) = line.split_once('\t').expect("tab");
            rows.push((v == "true", d.to_string()));
        }
    }
    (schema.expect("schema line"), rows)
}

/// the five rows on which the pinned tree disagreed with the expectation (DESIGN C17)
const KNOWN_DISAGREEMENTS: &[(&str, u32)] = &[
    ("{ g(i: {r: 1, r: 2}) }", DEV_DUP_INPUT_FIELDS),
    ("query($v: Int) { g(nn: [$v]) }", DEV_NESTED_VARIABLE),
    ("query($v: Int) { g(i: {r: $v}) }", DEV_NESTED_VARIABLE),
    ("{ g(l: [1]) g(l: [1, 2]) }", DEV_LIST_PREFIX),
    ("subscription { s s }", DEV_SUBSCRIPTION_SELECTIONS),
];

#[test]
fn calibration_table_strict() {
    let (view, rows) = calibration();
    assert_eq!(rows.len(), 135);
    let mut wrong = vec![];
    for (expected, doc) in &rows {
        let r = verdict(&view, doc, 0);
        if r.is_valid() != *expected {
            wrong.push(format!("{doc}: expected valid={expected}, model {:?}", r.violations));
        }
        assert_eq!(r.fired, 0);
    }
    assert!(wrong.is_empty(), "{}", wrong.join("\n"));
}

#[test]
fn calibration_table_with_deviations_reproduces_the_pinned_tree() {
    let (view, rows) = calibration();
    let all: u32 = ALL_DEVIATIONS.iter().map(|(b, _)| *b).sum();
    let mut flipped = vec![];
    for (expected, doc) in &rows {
        let r = verdict(&view, doc, all);
        if r.is_valid() != *expected {
            flipped.push((doc.clone(), r.fired));
        }
    }
    let want: Vec<(String, u32)> = KNOWN_DISAGREEMENTS.iter().map(|(d, b)| (d.to_string(), *b)).collect();
    assert_eq!(flipped, want);
    // each switch alone flips exactly its own rows
    for (bit, _) in ALL_DEVIATIONS {
        for (expected, doc) in &rows {
            let r = verdict(&view, doc, *bit);
            let is_known = KNOWN_DISAGREEMENTS.iter().any(|(d, b)| d == doc && b == bit);
            assert_eq!(r.is_valid() != *expected, is_known, "{doc} with switch {bit}");
        }
    }
}

#[test]
fn deviation_switches_in_detail() {
    let (view, _) = calibration();
    // null default
    let d = "query($v: Int = null) { f(z: $v) }";
    assert!(!verdict(&view, d, 0).is_valid());
    let r = verdict(&view, d, DEV_NULL_DEFAULT);
    assert!(r.is_valid() && r.fired == DEV_NULL_DEFAULT);
    // list variable in an item position
    let d = "query($v: [Int]) { g(l: [$v]) }";
    assert!(!verdict(&view, d, 0).is_valid());
    assert!(verdict(&view, d, DEV_NESTED_VARIABLE).is_valid());
    // the nested switch does not excuse a different named type
    let d = "query($v: String) { g(l: [$v]) }";
    assert!(!verdict(&view, d, DEV_NESTED_VARIABLE).is_valid());
    // response keys, not selections; fragments entered once
    assert!(verdict(&view, "subscription { ...F ...F } fragment F on Subscription { s }", DEV_SUBSCRIPTION_SELECTIONS).is_valid());
    assert!(!verdict(&view, "subscription { ...F s } fragment F on Subscription { s }", DEV_SUBSCRIPTION_SELECTIONS).is_valid());
    assert!(verdict(&view, "subscription { ...F s } fragment F on Subscription { s }", 0).is_valid());
    // apollo rule: conditional root selections
    assert!(!verdict(&view, "subscription { s @skip(if: true) }", 0).is_valid());
    assert!(verdict(&view, "subscription { t { a @skip(if: true) } }", 0).is_valid());
    let mut p = Params::default();
    p.subscription_root_conditionals_are_error = false;
    assert!(validate_with(&view, &text::must("subscription { s @skip(if: true) }"), &p).is_valid());
    // undefined root type
    let small = SchemaView::new(&text::must("type Query { a: Int }"));
    assert_eq!(verdict(&small, "mutation { a }", 0).rules(), vec![RULE_UNDEFINED_ROOT]);
    // later duplicates of an input field are not looked at
    let d = "{ g(i: {r: 1, r: \"s\"}) }";
    assert!(verdict(&view, d, DEV_DUP_INPUT_FIELDS).is_valid());
    assert!(!verdict(&view, "{ g(i: {r: \"s\", r: 1}) }", DEV_DUP_INPUT_FIELDS).is_valid());
    assert!(!verdict(&view, "{ g(i: {r: 1, r: null}) }", DEV_DUP_INPUT_FIELDS).is_valid());
    // argument equality of objects with duplicate keys, as apollo computes it (asymmetric)
    assert!(verdict(&view, "{ g(i: {r: 1, o: 2}) g(i: {r: 1, r: 1}) }", DEV_DUP_INPUT_FIELDS).is_valid());
    assert!(!verdict(&view, "{ g(i: {r: 1, r: 1}) g(i: {r: 1, o: 2}) }", DEV_DUP_INPUT_FIELDS).is_valid());
    assert!(verdict(&view, "{ g(i: {r: 1, o: 2, o: $nope}) g(i: {o: 2, r: 1, o: 2}) }", DEV_DUP_INPUT_FIELDS).is_valid());
    assert!(!verdict(&view, "{ g(i: {r: 1, o: 2}) g(i: {r: 1, r: 1}) }", 0).is_valid());
    // list lengths
    assert!(!verdict(&view, "{ g(l: [1, 2]) g(l: [1, 3]) }", DEV_LIST_PREFIX).is_valid());
    assert!(verdict(&view, "{ g(l: []) g(l: [1, 3]) }", DEV_LIST_PREFIX).is_valid());
}

#[test]
fn schema_view_details() {
    let v = SchemaView::new(&text::must(
        "schema { query: Q } extend schema { mutation: M } type Q { a: Int } extend type Q { b: I } type M { m: Int } interface I { x: Int } type T implements I { x: Int } type V { x: Int } extend type V implements I union U = T extend union U = V scalar S enum E { A } extend enum E { B } input In { a: Int } extend input In { b: Int }",
    ));
    assert_eq!(v.root(OpKind::Query), Some("Q"));
    assert_eq!(v.root(OpKind::Mutation), Some("M"));
    assert_eq!(v.root(OpKind::Subscription), None);
    assert!(v.field("Q", "b").is_some() && v.field("Q", "__schema").is_some() && v.field("Q", "__type").is_some());
    assert!(v.field("M", "__schema").is_none() && v.field("M", "__typename").is_some());
    assert!(v.field("U", "__typename").is_some() && v.field("U", "x").is_none());
    assert!(v.field("S", "__typename").is_none());
    assert_eq!(v.possible_types("I").into_iter().collect::<Vec<_>>(), vec!["T", "V"]);
    assert_eq!(v.possible_types("U").into_iter().collect::<Vec<_>>(), vec!["T", "V"]);
    assert_eq!(v.ty("E").unwrap().values, vec!["A", "B"]);
    assert_eq!(v.ty("In").unwrap().input_fields.len(), 2);
    assert!(v.is_custom_scalar("S") && !v.is_custom_scalar("Int"));
    assert!(v.field("__Type", "ofType").is_some());
    // a type named Query is not the query root when the schema definition says otherwise
    let w = SchemaView::new(&text::must("schema { query: Q } type Q { a: Int } type Query { a: Int } type Mutation { m: Int }"));
    assert_eq!(w.root(OpKind::Mutation), None);
    assert!(w.field("Query", "__schema").is_none());
}

#[test]
fn schema_independent_subset() {
    let p = |d: &str| schema_independent_problems(&text::must(d)).into_iter().map(|v| v.rule).collect::<Vec<_>>();
    assert!(p("{ a }").is_empty());
    assert!(p("query($v: Boolean!) { a @skip(if: $v) @custom ...F } fragment F on Whatever { nope(x: {a: 1}) }").is_empty());
    assert_eq!(p("{ a } { b }"), vec!["LoneAnonymousOperation"]);
    assert_eq!(p("query A { a } query A { b }"), vec!["UniqueOperationNames"]);
    assert_eq!(p("{ ...F }"), vec!["KnownFragmentNames"]);
    assert_eq!(p("{ a } fragment F on T { a }"), vec!["NoUnusedFragments"]);
    assert_eq!(p("{ ...F } fragment F on T { ...F }"), vec!["NoFragmentCycles"]);
    assert_eq!(p("query($v: Int, $v: Int) { a(x: $v) }"), vec!["UniqueVariableNames"]);
    assert_eq!(p("{ a(x: $v) }"), vec!["NoUndefinedVariables"]);
    assert_eq!(p("query($v: Int) { a }"), vec!["NoUnusedVariables"]);
    assert_eq!(p("{ a(x: 1, x: 2) }"), vec!["UniqueArgumentNames"]);
    assert_eq!(p("{ a(x: {k: 1, k: 2}) }"), vec!["UniqueInputFieldNames"]);
    assert_eq!(p("{ a @skip(if: true) @skip(if: true) }"), vec!["UniqueDirectivesPerLocation"]);
    assert!(p("{ a @custom @custom }").is_empty());
    assert_eq!(p("{ a } type T { a: Int }"), vec!["ExecutableDefinitions"]);
    assert_eq!(p("subscription { a b }"), vec!["SingleFieldSubscriptions"]);
    assert!(applies_a_directive(&text::must("{ a { ... @x { b } } }")));
    assert!(!applies_a_directive(&text::must("{ a { ... { b } } }")));
}

#[test]
fn reference_traversals() {
    let d = text::must("{ a ...F b { c ...F } ... { d } ...G } fragment F on Q { e { f } } fragment G on Q { ...F g }");
    let op = d.operations().next().unwrap();
    let names = |v: Vec<&Field>| v.into_iter().map(|f| f.name.clone()).collect::<Vec<_>>().join(" ");
    assert_eq!(names(root_fields(&d, op)), "a e b d g");
    assert_eq!(names(all_fields(&d, op)), "a e f b c d g");
    assert!(spreads_acyclic(&d));
    assert!(!spreads_acyclic(&text::must("{ ...F } fragment F on Q { a { ...G } } fragment G on Q { ...F }")));
}

#[test]
fn text_reader_round_trips() {
    let texts = [
        "{ a }",
        "query Q($v: [Int!]! = [1, 2] @d(x: 1), $w: In = {r: 1, n: {r: null}}) @d { x: f(z: $v, e: A, s: \"a\\\"b\", fl: 1.5e3, b: true) @skip(if: false) { ...F @d ... on T @d { a } ... @d { a } ... { b } } }",
        "fragment F on T @d { a }",
        "subscription S { s }",
        "mutation { m }",
        "\"desc\" type T implements I & J @d { \"fd\" f(\"ad\" x: Int = 1 @d, y: [Int!]!): Int! @d g: T }",
        "extend type T { h: Int }",
        "interface I implements J { a: Int }",
        "union U @d = T | V",
        "extend union U = W",
        "enum E @d { \"v\" A @d B }",
        "input In @d { r: Int! o: Int = 1 @d n: In }",
        "scalar S @d",
        "\"d\" directive @d(x: Int = 1) repeatable on FIELD | QUERY",
        "\"s\" schema @d { query: Q mutation: M subscription: S }",
        "extend schema @d",
        "extend schema { subscription: S }",
    ];
    for t in texts {
        let d = text::parse(t).unwrap_or_else(|e| panic!("{t}: {e}"));
        let printed = d.print();
        let d2 = text::parse(&printed).unwrap_or_else(|e| panic!("{printed}: {e}"));
        assert_eq!(d, d2, "{t}");
        assert_eq!(printed, d2.print());
    }
    let all = texts.join("\n");
    let d = text::parse(&all).unwrap();
    assert_eq!(d.defs.len(), texts.len());
    assert_eq!(text::parse(&d.print()).unwrap(), d);
    assert!(text::parse("{ a ").is_err());
    assert!(text::parse("type").is_err());
    assert_eq!(text::parse_selections("a b { c }").unwrap().len(), 2);
    assert_eq!(text::parse("{ a }").unwrap().print(), "{ a }");
    assert_eq!(text::parse("query { a }").unwrap().print(), "query { a }");
}
