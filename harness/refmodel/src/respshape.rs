//! Reference "response shape" model for C33 (DESIGN.md §6 C33): given a schema and an operation in
//! the mini-AST and a JSON value, decide whether the value is a well-shaped response *data* for the
//! operation — exactly the response keys of `CollectFields` (spec §6.3.2) for some possible concrete
//! object type at every composite position, no null at non-null positions, list nesting equal to
//! the field type's, defined enum values, built-in scalars of the right JSON kind, `__typename`
//! naming the chosen concrete type. On success the value is returned annotated with the concrete
//! object type chosen at every object position (which is what a resolver needs to serve it).
//!
//! Preconditions (the statement's): no `@skip` / `@include`, no variables needed to decide the
//! shape, every abstract type has at least one possible object type, operation valid.
//!
//! Deviation switch (known finding `C33-nested-list-flattened`): with `flatten_inner_lists` a field
//! whose type has two or more list levels is expected as ONE list of non-null items of the inner
//! named type (what `ResponseBuilder::generate_field_value` produces when it looks only at
//! `is_list()` and `inner_named_type()`).

use crate::ast::*;
use serde_json::Value as Json;
use std::collections::{BTreeMap, BTreeSet};

#[derive(Debug, Clone, Copy, Default, PartialEq, Eq)]
pub struct Params {
    pub flatten_inner_lists: bool,
}

/// A checked value, annotated with the concrete type of every object.
#[derive(Debug, Clone, PartialEq)]
pub enum Ann {
    Null,
    Leaf(Json),
    List(Vec<Ann>),
    Obj { ty: String, fields: Vec<(String, Ann)> },
}

impl Ann {
    pub fn get(&self, key: &str) -> Option<&Ann> {
        match self {
            Ann::Obj { fields, .. } => fields.iter().find(|(k, _)| k == key).map(|(_, v)| v),
            _ => None,
        }
    }
}

pub struct Model<'a> {
    types: BTreeMap<&'a str, &'a TypeDef>,
    fragments: BTreeMap<&'a str, &'a Fragment>,
    roots: BTreeMap<OpKind, String>,
    pub params: Params,
    /// set when the deviation switch changed a sub-decision during the last `check_operation`
    pub switch_fired: std::cell::Cell<bool>,
}

const BUILTIN_SCALARS: &[&str] = &["Int", "Float", "String", "Boolean", "ID"];

impl<'a> Model<'a> {
    /// `schema` holds type definitions (no extensions), `exec` the operation(s) and fragments.
    pub fn new(schema: &'a Document, exec: &'a Document, params: Params) -> Model<'a> {
        let mut types = BTreeMap::new();
        let mut roots = BTreeMap::new();
        for d in &schema.defs {
            match d {
                Definition::Type(t) => {
                    assert!(!t.extend, "respshape: type extensions are outside the model");
                    types.insert(t.name.as_str(), t);
                }
                Definition::Schema(s) => {
                    for (k, n) in &s.roots {
                        roots.insert(*k, n.clone());
                    }
                }
                _ => {}
            }
        }
        if roots.is_empty() {
            for (k, n) in [(OpKind::Query, "Query"), (OpKind::Mutation, "Mutation"), (OpKind::Subscription, "Subscription")] {
                if types.contains_key(n) {
                    roots.insert(k, n.to_string());
                }
            }
        }
        let fragments = exec.fragments().map(|f| (f.name.as_str(), f)).collect();
        Model { types, fragments, roots, params, switch_fired: std::cell::Cell::new(false) }
    }

    pub fn root_type(&self, kind: OpKind) -> Option<&str> {
        self.roots.get(&kind).map(|s| s.as_str())
    }

    fn kind(&self, name: &str) -> Option<TypeKind> {
        if BUILTIN_SCALARS.contains(&name) {
            return Some(TypeKind::Scalar);
        }
        self.types.get(name).map(|t| t.kind)
    }

    /// Object types an (abstract) type can resolve to, in schema order.
    pub fn possible_types(&self, name: &str) -> Vec<&'a str> {
        let Some(t) = self.types.get(name) else { return vec![] };
        match t.kind {
            TypeKind::Object => vec![t.name.as_str()],
            TypeKind::Union => t.members.iter().map(|m| m.as_str()).collect(),
            TypeKind::Interface => {
                // document order of object definitions
                let mut v: Vec<&'a str> = Vec::new();
                for o in self.types.values().filter(|o| o.kind == TypeKind::Object) {
                    if o.implements.iter().any(|i| i == name) {
                        v.push(o.name.as_str());
                    }
                }
                v
            }
            _ => vec![],
        }
    }

    /// spec §6.3.2 DoesFragmentTypeApply
    pub fn does_fragment_type_apply(&self, object_type: &str, fragment_type: &str) -> bool {
        match self.kind(fragment_type) {
            Some(TypeKind::Object) => object_type == fragment_type,
            Some(TypeKind::Interface) | Some(TypeKind::Union) => self.possible_types(fragment_type).contains(&object_type),
            _ => false,
        }
    }

    /// spec §6.3.2 CollectFields (without @skip/@include, which are outside the precondition):
    /// response key -> fields, in first-occurrence order.
    pub fn collect_fields<'s>(
        &'s self,
        object_type: &str,
        selection: &'s [Selection],
        visited: &mut BTreeSet<&'s str>,
        out: &mut Vec<(&'s str, Vec<&'s Field>)>,
    ) {
        for s in selection {
            match s {
                Selection::Field(f) => {
                    assert!(
                        !f.directives.iter().any(|d| d.name == "skip" || d.name == "include"),
                        "respshape: @skip/@include are outside the precondition"
                    );
                    match out.iter_mut().find(|(k, _)| *k == f.key()) {
                        Some((_, v)) => v.push(f),
                        None => out.push((f.key(), vec![f])),
                    }
                }
                Selection::Spread { name, directives } => {
                    assert!(directives.is_empty(), "respshape: directives on spreads are outside the model");
                    if !visited.insert(name.as_str()) {
                        continue;
                    }
                    let Some(frag) = self.fragments.get(name.as_str()) else { continue };
                    if !self.does_fragment_type_apply(object_type, &frag.on) {
                        continue;
                    }
                    self.collect_fields(object_type, &frag.selection, visited, out);
                }
                Selection::Inline { on, directives, selection } => {
                    assert!(directives.is_empty(), "respshape: directives on inline fragments are outside the model");
                    if let Some(t) = on {
                        if !self.does_fragment_type_apply(object_type, t) {
                            continue;
                        }
                    }
                    self.collect_fields(object_type, selection, visited, out);
                }
            }
        }
    }

    fn field_type(&self, object_type: &str, field: &str) -> Option<Ty> {
        if field == "__typename" {
            return Some(Ty::named("String").non_null());
        }
        self.types.get(object_type)?.fields.iter().find(|f| f.name == field).map(|f| f.ty.clone())
    }

    fn list_depth(ty: &Ty) -> usize {
        match ty {
            Ty::Named(_) => 0,
            Ty::NonNull(t) => Self::list_depth(t),
            Ty::List(t) => 1 + Self::list_depth(t),
        }
    }

    /// The type the known defect generates for: one list level, non-null items of the inner named type.
    fn flattened(ty: &Ty) -> Ty {
        let inner = Ty::named(ty.inner_name()).non_null().list();
        if ty.is_non_null() {
            inner.non_null()
        } else {
            inner
        }
    }

    /// Check the response data of `op` (an object for the root type).
    pub fn check_operation(&self, op: &Operation, data: &Json) -> Result<Ann, String> {
        self.switch_fired.set(false);
        let root = self.root_type(op.kind).ok_or("no root type for the operation")?.to_string();
        self.check_object(&root, &op.selection, data, "data")
    }

    fn check_object(&self, static_type: &str, selections: &[Selection], value: &Json, path: &str) -> Result<Ann, String> {
        let Json::Object(map) = value else {
            return Err(format!("{path}: expected an object for type {static_type}, found {value}"));
        };
        let candidates = self.possible_types(static_type);
        if candidates.is_empty() {
            return Err(format!("{path}: type {static_type} has no possible object type (precondition)"));
        }
        let mut first_err = None;
        for cand in candidates {
            match self.check_object_as(cand, selections, map, path) {
                Ok(a) => return Ok(a),
                Err(e) => {
                    if first_err.is_none() {
                        first_err = Some(e);
                    }
                }
            }
        }
        Err(first_err.unwrap())
    }

    fn check_object_as(&self, concrete: &str, selections: &[Selection], map: &serde_json::Map<String, Json>, path: &str) -> Result<Ann, String> {
        let mut groups: Vec<(&str, Vec<&Field>)> = Vec::new();
        let mut visited = BTreeSet::new();
        self.collect_fields(concrete, selections, &mut visited, &mut groups);
        let expected: BTreeSet<&str> = groups.iter().map(|(k, _)| *k).collect();
        let got: BTreeSet<&str> = map.keys().map(|k| k.as_str()).collect();
        if expected != got {
            return Err(format!(
                "{path}: as {concrete} the response keys must be exactly {expected:?}, found {got:?}"
            ));
        }
        let mut fields = Vec::new();
        for (key, group) in &groups {
            let f0 = group[0];
            let sub = format!("{path}.{key}");
            let v = &map[*key];
            if f0.name == "__typename" {
                if v.as_str() != Some(concrete) {
                    return Err(format!("{sub}: __typename must be {concrete:?}, found {v}"));
                }
                fields.push((key.to_string(), Ann::Leaf(v.clone())));
                continue;
            }
            let ty = self
                .field_type(concrete, &f0.name)
                .ok_or_else(|| format!("{sub}: type {concrete} has no field {}", f0.name))?;
            // MergeSelectionSets
            let merged: Vec<Selection> = group.iter().flat_map(|f| f.selection.iter().cloned()).collect();
            let ty = if self.params.flatten_inner_lists && Self::list_depth(&ty) >= 2 {
                if !v.is_null() {
                    self.switch_fired.set(true);
                }
                Self::flattened(&ty)
            } else {
                ty
            };
            fields.push((key.to_string(), self.check_value(&ty, &merged, v, &sub)?));
        }
        Ok(Ann::Obj { ty: concrete.to_string(), fields })
    }

    fn check_value(&self, ty: &Ty, merged: &[Selection], v: &Json, path: &str) -> Result<Ann, String> {
        match ty {
            Ty::NonNull(inner) => {
                if v.is_null() {
                    return Err(format!("{path}: null at a non-null position (type {ty})"));
                }
                self.check_value(inner, merged, v, path)
            }
            _ if v.is_null() => Ok(Ann::Null),
            Ty::List(item) => {
                let Json::Array(items) = v else {
                    return Err(format!("{path}: type {ty} needs a list, found {v}"));
                };
                let mut out = Vec::new();
                for (i, it) in items.iter().enumerate() {
                    out.push(self.check_value(item, merged, it, &format!("{path}[{i}]"))?);
                }
                Ok(Ann::List(out))
            }
            Ty::Named(n) => match self.kind(n) {
                None => Err(format!("{path}: unknown type {n}")),
                Some(TypeKind::Scalar) => {
                    let ok = match n.as_str() {
                        "Int" => v.as_i64().is_some_and(|i| i >= i32::MIN as i64 && i <= i32::MAX as i64) && !v.is_f64(),
                        "Float" => v.is_number(),
                        "String" => v.is_string(),
                        "Boolean" => v.is_boolean(),
                        "ID" => v.is_string() || v.is_i64() || v.is_u64(),
                        _ => true, // custom scalar: any JSON value
                    };
                    if ok {
                        Ok(Ann::Leaf(v.clone()))
                    } else {
                        Err(format!("{path}: {v} is not a JSON value of the kind of built-in scalar {n}"))
                    }
                }
                Some(TypeKind::Enum) => {
                    let t = self.types[n.as_str()];
                    match v.as_str() {
                        Some(s) if t.values.iter().any(|ev| ev.name == s) => Ok(Ann::Leaf(v.clone())),
                        _ => Err(format!("{path}: {v} is not a defined value of enum {n}")),
                    }
                }
                Some(TypeKind::Input) => Err(format!("{path}: input object type {n} in output position")),
                Some(TypeKind::Object | TypeKind::Interface | TypeKind::Union) => {
                    self.check_object(n, merged, v, path)
                }
            },
        }
    }
}

#[cfg(test)]
mod tests {
    use super::*;
    use crate::sdl;
    use serde_json::json;

    fn check(schema: &str, op: &str, data: Json, params: Params) -> Result<Ann, String> {
        let s = sdl::must(schema);
        let e = sdl::must(op);
        let m = Model::new(&s, &e, params);
        let o = e.operations().next().unwrap();
        m.check_operation(o, &data)
    }

    const PETS: &str = "type Query { dog: Dog pet: Pet pets: [Pet!]! animals: [CatOrDog] }
        interface Pet { name: String! }
        type Dog implements Pet { name: String! nickname: String barkVolume: Int owner: Human }
        type Cat implements Pet { name: String! meowVolume: Int }
        type Human { name: String }
        union CatOrDog = Cat | Dog
        enum DogCommand { SIT DOWN }";

    /// spec §6.3.2: fields with the same response key are grouped, fragments are flattened,
    /// a fragment is visited once
    #[test]
    fn collect_fields_groups_and_flattens() {
        let s = sdl::must(PETS);
        let e = sdl::must("{ dog { name ...F ...F ... on Pet { n2: name } ... on Cat { meowVolume } } } fragment F on Dog { name barkVolume }");
        let m = Model::new(&s, &e, Params::default());
        let op = e.operations().next().unwrap();
        let Selection::Field(dog) = &op.selection[0] else { panic!() };
        let mut out = Vec::new();
        m.collect_fields("Dog", &dog.selection, &mut BTreeSet::new(), &mut out);
        let keys: Vec<(&str, usize)> = out.iter().map(|(k, v)| (*k, v.len())).collect();
        assert_eq!(keys, vec![("name", 2), ("barkVolume", 1), ("n2", 1)]);
    }

    #[test]
    fn exact_keys_and_nulls() {
        let q = "{ dog { name nickname } }";
        assert!(check(PETS, q, json!({"dog": {"name": "a", "nickname": null}}), Params::default()).is_ok());
        assert!(check(PETS, q, json!({"dog": null}), Params::default()).is_ok());
        // missing key, extra key, null at non-null
        assert!(check(PETS, q, json!({"dog": {"name": "a"}}), Params::default()).is_err());
        assert!(check(PETS, q, json!({"dog": {"name": "a", "nickname": "b", "x": 1}}), Params::default()).is_err());
        assert!(check(PETS, q, json!({"dog": {"name": null, "nickname": "b"}}), Params::default()).is_err());
        // wrong scalar kind
        assert!(check(PETS, q, json!({"dog": {"name": 1, "nickname": "b"}}), Params::default()).is_err());
    }

    #[test]
    fn abstract_types_pick_a_concrete_type() {
        let q = "{ pets { name ... on Dog { barkVolume } ... on Cat { meowVolume } } }";
        let r = check(PETS, q, json!({"pets": [{"name": "a", "barkVolume": 3}, {"name": "b", "meowVolume": null}]}), Params::default()).unwrap();
        let Ann::List(items) = r.get("pets").unwrap() else { panic!() };
        assert!(matches!(&items[0], Ann::Obj { ty, .. } if ty == "Dog"));
        assert!(matches!(&items[1], Ann::Obj { ty, .. } if ty == "Cat"));
        // keys of two different concrete types mixed: no candidate fits
        assert!(check(PETS, q, json!({"pets": [{"name": "a", "barkVolume": 3, "meowVolume": 1}]}), Params::default()).is_err());
        // list items of [Pet!]! may not be null; the list itself may not be null
        assert!(check(PETS, q, json!({"pets": [null]}), Params::default()).is_err());
        assert!(check(PETS, q, json!({"pets": null}), Params::default()).is_err());
        // __typename must name the chosen concrete type
        let q2 = "{ animals { __typename ... on Dog { name } } }";
        assert!(check(PETS, q2, json!({"animals": [{"__typename": "Dog", "name": "x"}, {"__typename": "Cat"}, null]}), Params::default()).is_ok());
        assert!(check(PETS, q2, json!({"animals": [{"__typename": "Cat", "name": "x"}]}), Params::default()).is_err());
        assert!(check(PETS, q2, json!({"animals": [{"__typename": "Human"}]}), Params::default()).is_err());
    }

    #[test]
    fn merged_subselections_and_aliases() {
        let q = "{ dog { owner { name } } dog { o2: owner { name } owner { n: name } } }";
        assert!(check(PETS, q, json!({"dog": {"owner": {"name": "a", "n": "a"}, "o2": {"name": null}}}), Params::default()).is_ok());
        assert!(check(PETS, q, json!({"dog": {"owner": {"name": "a"}, "o2": {"name": null}}}), Params::default()).is_err());
    }

    #[test]
    fn list_nesting_and_flatten_switch() {
        let s = "type Query { m: [[Int!]] n: [[T]!] e: [E] } type T { x: Int } enum E { A B }";
        let q = "{ m n { x } e }";
        let strict = Params::default();
        let dev = Params { flatten_inner_lists: true };
        let good = json!({"m": [[3], null], "n": [[{"x": 3}, null]], "e": ["A", null]});
        let flat = json!({"m": [3, 3], "n": [{"x": 3}], "e": ["B"]});
        assert!(check(s, q, good.clone(), strict).is_ok());
        assert!(check(s, q, flat.clone(), strict).is_err());
        assert!(check(s, q, flat, dev).is_ok());
        assert!(check(s, q, good, dev).is_err());
        assert!(check(s, q, json!({"m": null, "n": null, "e": ["C"]}), strict).is_err());
        // the switch predicts non-null items
        assert!(check(s, q, json!({"m": [null], "n": null, "e": null}), dev).is_err());
    }
}
