//! Text → mini-AST for documents written in the harness (calibration tables, base schemas,
//! replay files). A plain recursive descent over `lex` tokens for type-system definitions and
//! extensions, plus operations / fragments with simple selection sets. It is a convenience for
//! writing test data as text, not an oracle: `Document::print` of the result is what is fed to
//! the implementation, and `parse(print(d)) == d` is unit-tested on every base schema.

use crate::ast::*;
use crate::lex::{self, Kind};
use crate::strings;

struct P<'a> {
    toks: Vec<lex::Token<'a>>,
    i: usize,
}

type R<T> = Result<T, String>;

const TYPE_KEYWORDS: &[(&str, TypeKind)] = &[
    ("scalar", TypeKind::Scalar),
    ("type", TypeKind::Object),
    ("interface", TypeKind::Interface),
    ("union", TypeKind::Union),
    ("enum", TypeKind::Enum),
    ("input", TypeKind::Input),
];

impl<'a> P<'a> {
    fn peek(&self) -> Option<&lex::Token<'a>> {
        self.toks.get(self.i)
    }
    fn peek_text(&self) -> &str {
        self.peek().map(|t| t.text).unwrap_or("<EOF>")
    }
    fn at(&self, text: &str) -> bool {
        self.peek().is_some_and(|t| t.text == text && t.kind != Kind::Str)
    }
    fn eat(&mut self, text: &str) -> bool {
        if self.at(text) {
            self.i += 1;
            true
        } else {
            false
        }
    }
    fn expect(&mut self, text: &str) -> R<()> {
        if self.eat(text) {
            Ok(())
        } else {
            Err(format!("expected {text:?}, found {:?} (token {})", self.peek_text(), self.i))
        }
    }
    fn name(&mut self) -> R<String> {
        match self.peek() {
            Some(t) if t.kind == Kind::Name => {
                let s = t.text.to_string();
                self.i += 1;
                Ok(s)
            }
            _ => Err(format!("expected a name, found {:?} (token {})", self.peek_text(), self.i)),
        }
    }
    fn description(&mut self) -> R<Option<String>> {
        match self.peek() {
            Some(t) if t.kind == Kind::Str => {
                let v = strings::literal_value(t.text).ok_or("bad string literal")?;
                self.i += 1;
                Ok(Some(v))
            }
            _ => Ok(None),
        }
    }
    fn ty(&mut self) -> R<Ty> {
        let mut t = if self.eat("[") {
            let inner = self.ty()?;
            self.expect("]")?;
            Ty::List(Box::new(inner))
        } else {
            Ty::Named(self.name()?)
        };
        if self.eat("!") {
            t = Ty::NonNull(Box::new(t));
        }
        Ok(t)
    }
    fn value(&mut self) -> R<Value> {
        let Some(t) = self.peek().cloned() else { return Err("value expected at EOF".into()) };
        match t.kind {
            Kind::Int => {
                self.i += 1;
                Ok(Value::Int(t.text.to_string()))
            }
            Kind::Float => {
                self.i += 1;
                Ok(Value::Float(t.text.to_string()))
            }
            Kind::Str => {
                self.i += 1;
                Ok(Value::Str(strings::literal_value(t.text).ok_or("bad string literal")?))
            }
            Kind::Name => {
                self.i += 1;
                Ok(match t.text {
                    "true" => Value::Bool(true),
                    "false" => Value::Bool(false),
                    "null" => Value::Null,
                    n => Value::Enum(n.to_string()),
                })
            }
            Kind::Punct => match t.text {
                "$" => {
                    self.i += 1;
                    Ok(Value::Var(self.name()?))
                }
                "[" => {
                    self.i += 1;
                    let mut items = Vec::new();
                    while !self.eat("]") {
                        items.push(self.value()?);
                    }
                    Ok(Value::List(items))
                }
                "{" => {
                    self.i += 1;
                    let mut fields = Vec::new();
                    while !self.eat("}") {
                        let k = self.name()?;
                        self.expect(":")?;
                        fields.push((k, self.value()?));
                    }
                    Ok(Value::Object(fields))
                }
                other => Err(format!("value expected, found {other:?}")),
            },
            _ => Err("value expected".into()),
        }
    }
    fn arguments(&mut self) -> R<Vec<(Name, Value)>> {
        let mut args = Vec::new();
        if self.eat("(") {
            while !self.eat(")") {
                let k = self.name()?;
                self.expect(":")?;
                args.push((k, self.value()?));
            }
        }
        Ok(args)
    }
    fn directives(&mut self) -> R<Vec<Directive>> {
        let mut ds = Vec::new();
        while self.eat("@") {
            let name = self.name()?;
            let args = self.arguments()?;
            ds.push(Directive { name, args });
        }
        Ok(ds)
    }
    fn input_value(&mut self) -> R<InputValueDef> {
        let description = self.description()?;
        let name = self.name()?;
        self.expect(":")?;
        let ty = self.ty()?;
        let default = if self.eat("=") { Some(self.value()?) } else { None };
        let directives = self.directives()?;
        Ok(InputValueDef { description, name, ty, default, directives })
    }
    fn args_def(&mut self) -> R<Vec<InputValueDef>> {
        let mut v = Vec::new();
        if self.eat("(") {
            while !self.eat(")") {
                v.push(self.input_value()?);
            }
        }
        Ok(v)
    }
    fn selection_set(&mut self) -> R<Vec<Selection>> {
        self.expect("{")?;
        let mut sel = Vec::new();
        while !self.eat("}") {
            if self.eat("...") {
                if self.at("on") || self.at("{") || self.at("@") {
                    let on = if self.eat("on") { Some(self.name()?) } else { None };
                    let directives = self.directives()?;
                    let selection = self.selection_set()?;
                    sel.push(Selection::Inline { on, directives, selection });
                } else {
                    let name = self.name()?;
                    let directives = self.directives()?;
                    sel.push(Selection::Spread { name, directives });
                }
            } else {
                let first = self.name()?;
                let (alias, name) = if self.eat(":") { (Some(first), self.name()?) } else { (None, first) };
                let args = self.arguments()?;
                let directives = self.directives()?;
                let selection = if self.at("{") { self.selection_set()? } else { vec![] };
                sel.push(Selection::Field(Field { alias, name, args, directives, selection }));
            }
        }
        Ok(sel)
    }
    fn type_def(&mut self, kind: TypeKind, extend: bool, description: Option<String>) -> R<TypeDef> {
        let mut t = TypeDef::new(kind, &self.name()?);
        t.extend = extend;
        t.description = description;
        if matches!(kind, TypeKind::Object | TypeKind::Interface) && self.eat("implements") {
            self.eat("&");
            t.implements.push(self.name()?);
            while self.eat("&") {
                t.implements.push(self.name()?);
            }
        }
        t.directives = self.directives()?;
        match kind {
            TypeKind::Scalar => {}
            TypeKind::Object | TypeKind::Interface => {
                if self.eat("{") {
                    while !self.eat("}") {
                        let description = self.description()?;
                        let name = self.name()?;
                        let args = self.args_def()?;
                        self.expect(":")?;
                        let ty = self.ty()?;
                        let directives = self.directives()?;
                        t.fields.push(FieldDef { description, name, args, ty, directives });
                    }
                }
            }
            TypeKind::Union => {
                if self.eat("=") {
                    self.eat("|");
                    t.members.push(self.name()?);
                    while self.eat("|") {
                        t.members.push(self.name()?);
                    }
                }
            }
            TypeKind::Enum => {
                if self.eat("{") {
                    while !self.eat("}") {
                        let description = self.description()?;
                        let name = self.name()?;
                        let directives = self.directives()?;
                        t.values.push(EnumValueDef { description, name, directives });
                    }
                }
            }
            TypeKind::Input => {
                if self.eat("{") {
                    while !self.eat("}") {
                        t.input_fields.push(self.input_value()?);
                    }
                }
            }
        }
        Ok(t)
    }
    fn schema_def(&mut self, extend: bool, description: Option<String>) -> R<SchemaDef> {
        let directives = self.directives()?;
        let mut roots = Vec::new();
        if self.eat("{") {
            while !self.eat("}") {
                let k = match self.name()?.as_str() {
                    "query" => OpKind::Query,
                    "mutation" => OpKind::Mutation,
                    "subscription" => OpKind::Subscription,
                    other => return Err(format!("operation type expected, found {other:?}")),
                };
                self.expect(":")?;
                roots.push((k, self.name()?));
            }
        }
        Ok(SchemaDef { extend, description, directives, roots })
    }
    fn definition(&mut self) -> R<Definition> {
        if self.at("{") {
            let mut op = Operation::query(self.selection_set()?);
            op.shorthand = true;
            return Ok(Definition::Operation(op));
        }
        let description = self.description()?;
        let kw = self.name()?;
        let (extend, kw) = if kw == "extend" { (true, self.name()?) } else { (false, kw) };
        if let Some((_, kind)) = TYPE_KEYWORDS.iter().find(|(k, _)| *k == kw) {
            return Ok(Definition::Type(self.type_def(*kind, extend, description)?));
        }
        match kw.as_str() {
            "schema" => Ok(Definition::Schema(self.schema_def(extend, description)?)),
            "directive" if !extend => {
                self.expect("@")?;
                let name = self.name()?;
                let args = self.args_def()?;
                let repeatable = self.eat("repeatable");
                self.expect("on")?;
                self.eat("|");
                let mut locations = vec![self.name()?];
                while self.eat("|") {
                    locations.push(self.name()?);
                }
                Ok(Definition::Directive(DirectiveDef { description, name, args, repeatable, locations }))
            }
            "query" | "mutation" | "subscription" if !extend => {
                let kind = match kw.as_str() {
                    "query" => OpKind::Query,
                    "mutation" => OpKind::Mutation,
                    _ => OpKind::Subscription,
                };
                let name = if self.peek().is_some_and(|t| t.kind == Kind::Name) { Some(self.name()?) } else { None };
                let mut vars = Vec::new();
                if self.eat("(") {
                    while !self.eat(")") {
                        self.expect("$")?;
                        let name = self.name()?;
                        self.expect(":")?;
                        let ty = self.ty()?;
                        let default = if self.eat("=") { Some(self.value()?) } else { None };
                        let directives = self.directives()?;
                        vars.push(VarDef { name, ty, default, directives });
                    }
                }
                let directives = self.directives()?;
                let selection = self.selection_set()?;
                Ok(Definition::Operation(Operation { kind, name, vars, directives, selection, shorthand: false }))
            }
            "fragment" if !extend => {
                let name = self.name()?;
                self.expect("on")?;
                let on = self.name()?;
                let directives = self.directives()?;
                let selection = self.selection_set()?;
                Ok(Definition::Fragment(Fragment { name, on, directives, selection }))
            }
            other => Err(format!("definition keyword expected, found {other:?}")),
        }
    }
}

/// Parse a document written by the harness. Errors are for the harness author.
pub fn parse(text: &str) -> Result<Document, String> {
    let toks = lex::tokenize(text, lex::Params::default()).ok_or("not a valid token sequence")?;
    let toks: Vec<_> = toks.into_iter().filter(|t| !t.is_ignored()).collect();
    let mut p = P { toks, i: 0 };
    let mut defs = Vec::new();
    while p.peek().is_some() {
        defs.push(p.definition()?);
    }
    Ok(Document { defs })
}

/// `parse` for texts written in the harness itself.
pub fn must(text: &str) -> Document {
    match parse(text) {
        Ok(d) => d,
        Err(e) => panic!("harness text does not parse: {e}\n{text}"),
    }
}

#[cfg(test)]
mod tests {
    use super::*;
    #[test]
    fn round_trip() {
        for text in [
            "type Query implements I & J @d(x: [1, {a: \"s\", b: null}]) { \"doc\" f(x: [Int!]! = [1] @d, y: E = A): [Q]! @deprecated }",
            "extend schema @d { mutation: M }\nschema { query: Q }\nunion U = A | B\nextend union U @d\nenum E { A B @d }\ninput In { x: In y: Float = 1.5 }\nscalar S @specifiedBy(url: \"u\")",
            "directive @d(x: Int) repeatable on OBJECT | FIELD_DEFINITION\n\"d\" interface I implements J { a: Int }\nextend type Q",
            "type Q { a: Int }\n{ a }",
            "query N($v: Int = 1 @d) @d { x: a(b: $v) @d { c } ...F @d ... on T { a } ... @d { a } }\nfragment F on T { a }",
        ] {
            let d = parse(text).unwrap_or_else(|e| panic!("{text}: {e}"));
            assert_eq!(d.print(), text);
        }
        assert!(parse("type Query { a: }").is_err());
        assert!(parse("type Query { a: Int } }").is_err());
    }
}
