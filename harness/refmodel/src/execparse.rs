//! A small recursive-descent reader for the *printer's own* subset of GraphQL (no descriptions,
//! no extensions, no block strings): used to write schemas and calibration tables as text and to
//! make replay files self-contained. It shares nothing with apollo-parser. It is not an oracle:
//! nothing is judged by whether this reader accepts a text.

use crate::ast::*;

#[derive(Debug, Clone, PartialEq)]
enum Tok {
    Punct(&'static str),
    Name(String),
    Int(String),
    Float(String),
    Str(String),
    Eof,
}

fn lex(s: &str) -> Result<Vec<Tok>, String> {
    let b: Vec<char> = s.chars().collect();
    let mut i = 0;
    let mut out = Vec::new();
    while i < b.len() {
        let c = b[i];
        match c {
            ' ' | '\t' | '\n' | '\r' | ',' | '\u{feff}' => i += 1,
            '#' => {
                while i < b.len() && b[i] != '\n' {
                    i += 1;
                }
            }
            '{' | '}' | '(' | ')' | '[' | ']' | ':' | '=' | '!' | '$' | '@' | '|' | '&' => {
                out.push(Tok::Punct(match c {
                    '{' => "{",
                    '}' => "}",
                    '(' => "(",
                    ')' => ")",
                    '[' => "[",
                    ']' => "]",
                    ':' => ":",
                    '=' => "=",
                    '!' => "!",
                    '$' => "$",
                    '@' => "@",
                    '|' => "|",
                    _ => "&",
                }));
                i += 1;
            }
            '.' => {
                if b.get(i + 1) == Some(&'.') && b.get(i + 2) == Some(&'.') {
                    out.push(Tok::Punct("..."));
                    i += 3;
                } else {
                    return Err("stray '.'".into());
                }
            }
            '"' => {
                i += 1;
                let mut v = String::new();
                loop {
                    match b.get(i) {
                        None => return Err("unterminated string".into()),
                        Some('"') => {
                            i += 1;
                            break;
                        }
                        Some('\\') => {
                            i += 1;
                            match b.get(i) {
                                Some('n') => v.push('\n'),
                                Some('r') => v.push('\r'),
                                Some('t') => v.push('\t'),
                                Some('"') => v.push('"'),
                                Some('\\') => v.push('\\'),
                                Some('/') => v.push('/'),
                                Some('u') => {
                                    let hex: String = b.get(i + 1..i + 5).ok_or("bad \\u")?.iter().collect();
                                    let cp = u32::from_str_radix(&hex, 16).map_err(|e| e.to_string())?;
                                    v.push(char::from_u32(cp).ok_or("bad code point")?);
                                    i += 4;
                                }
                                other => return Err(format!("bad escape {other:?}")),
                            }
                            i += 1;
                        }
                        Some(ch) => {
                            v.push(*ch);
                            i += 1;
                        }
                    }
                }
                out.push(Tok::Str(v));
            }
            c if c == '_' || c.is_ascii_alphabetic() => {
                let st = i;
                while i < b.len() && (b[i] == '_' || b[i].is_ascii_alphanumeric()) {
                    i += 1;
                }
                out.push(Tok::Name(b[st..i].iter().collect()));
            }
            c if c == '-' || c.is_ascii_digit() => {
                let st = i;
                i += 1;
                let mut float = false;
                while i < b.len() && (b[i].is_ascii_digit() || matches!(b[i], '.' | 'e' | 'E' | '+' | '-')) {
                    if !b[i].is_ascii_digit() {
                        float = true;
                    }
                    i += 1;
                }
                let t: String = b[st..i].iter().collect();
                out.push(if float { Tok::Float(t) } else { Tok::Int(t) });
            }
            other => return Err(format!("unexpected character {other:?}")),
        }
    }
    out.push(Tok::Eof);
    Ok(out)
}

struct P {
    t: Vec<Tok>,
    i: usize,
}

type R<T> = Result<T, String>;

impl P {
    fn peek(&self) -> &Tok {
        &self.t[self.i]
    }
    fn bump(&mut self) -> Tok {
        let t = self.t[self.i].clone();
        if self.i + 1 < self.t.len() {
            self.i += 1;
        }
        t
    }
    fn at(&self, p: &str) -> bool {
        matches!(self.peek(), Tok::Punct(x) if *x == p)
    }
    fn at_name(&self, n: &str) -> bool {
        matches!(self.peek(), Tok::Name(x) if x == n)
    }
    fn eat(&mut self, p: &str) -> bool {
        if self.at(p) {
            self.bump();
            true
        } else {
            false
        }
    }
    fn expect(&mut self, p: &str) -> R<()> {
        if self.eat(p) {
            Ok(())
        } else {
            Err(format!("expected {p:?}, found {:?} (token {})", self.peek(), self.i))
        }
    }
    fn name(&mut self) -> R<String> {
        match self.bump() {
            Tok::Name(n) => Ok(n),
            other => Err(format!("expected a name, found {other:?}")),
        }
    }
    fn ty(&mut self) -> R<Ty> {
        let mut t = if self.eat("[") {
            let inner = self.ty()?;
            self.expect("]")?;
            Ty::List(Box::new(inner))
        } else {
            Ty::Named(self.name()?)
        };
        if self.eat("!") {
            t = Ty::NonNull(Box::new(t));
        }
        Ok(t)
    }
    fn value(&mut self) -> R<Value> {
        Ok(match self.bump() {
            Tok::Punct("$") => Value::Var(self.name()?),
            Tok::Punct("[") => {
                let mut items = Vec::new();
                while !self.eat("]") {
                    items.push(self.value()?);
                }
                Value::List(items)
            }
            Tok::Punct("{") => {
                let mut fields = Vec::new();
                while !self.eat("}") {
                    let k = self.name()?;
                    self.expect(":")?;
                    fields.push((k, self.value()?));
                }
                Value::Object(fields)
            }
            Tok::Int(s) => Value::Int(s),
            Tok::Float(s) => Value::Float(s),
            Tok::Str(s) => Value::Str(s),
            Tok::Name(n) => match n.as_str() {
                "true" => Value::Bool(true),
                "false" => Value::Bool(false),
                "null" => Value::Null,
                _ => Value::Enum(n),
            },
            other => return Err(format!("expected a value, found {other:?}")),
        })
    }
    fn args(&mut self) -> R<Vec<(Name, Value)>> {
        let mut out = Vec::new();
        if self.eat("(") {
            while !self.eat(")") {
                let k = self.name()?;
                self.expect(":")?;
                out.push((k, self.value()?));
            }
        }
        Ok(out)
    }
    fn directives(&mut self) -> R<Vec<Directive>> {
        let mut out = Vec::new();
        while self.eat("@") {
            let name = self.name()?;
            out.push(Directive { name, args: self.args()? });
        }
        Ok(out)
    }
    fn selection_set(&mut self) -> R<Vec<Selection>> {
        self.expect("{")?;
        let mut out = Vec::new();
        while !self.eat("}") {
            if self.eat("...") {
                if self.at_name("on") {
                    self.bump();
                    let on = Some(self.name()?);
                    let directives = self.directives()?;
                    out.push(Selection::Inline { on, directives, selection: self.selection_set()? });
                } else if matches!(self.peek(), Tok::Name(_)) {
                    let name = self.name()?;
                    out.push(Selection::Spread { name, directives: self.directives()? });
                } else {
                    let directives = self.directives()?;
                    out.push(Selection::Inline { on: None, directives, selection: self.selection_set()? });
                }
            } else {
                let mut name = self.name()?;
                let mut alias = None;
                if self.eat(":") {
                    alias = Some(name);
                    name = self.name()?;
                }
                let args = self.args()?;
                let directives = self.directives()?;
                let selection = if self.at("{") { self.selection_set()? } else { vec![] };
                out.push(Selection::Field(Field { alias, name, args, directives, selection }));
            }
        }
        Ok(out)
    }
    fn input_values(&mut self, open: &str, close: &str) -> R<Vec<InputValueDef>> {
        let mut out = Vec::new();
        if self.eat(open) {
            while !self.eat(close) {
                let name = self.name()?;
                self.expect(":")?;
                let ty = self.ty()?;
                let default = if self.eat("=") { Some(self.value()?) } else { None };
                let directives = self.directives()?;
                out.push(InputValueDef { description: None, name, ty, default, directives });
            }
        }
        Ok(out)
    }
    fn definition(&mut self) -> R<Definition> {
        if self.at("{") {
            let mut op = Operation::query(self.selection_set()?);
            op.shorthand = true;
            return Ok(Definition::Operation(op));
        }
        let kw = self.name()?;
        match kw.as_str() {
            "query" | "mutation" | "subscription" => {
                let kind = match kw.as_str() {
                    "query" => OpKind::Query,
                    "mutation" => OpKind::Mutation,
                    _ => OpKind::Subscription,
                };
                let name = if matches!(self.peek(), Tok::Name(_)) { Some(self.name()?) } else { None };
                let mut vars = Vec::new();
                if self.eat("(") {
                    while !self.eat(")") {
                        self.expect("$")?;
                        let name = self.name()?;
                        self.expect(":")?;
                        let ty = self.ty()?;
                        let default = if self.eat("=") { Some(self.value()?) } else { None };
                        let directives = self.directives()?;
                        vars.push(VarDef { name, ty, default, directives });
                    }
                }
                let directives = self.directives()?;
                let selection = self.selection_set()?;
                Ok(Definition::Operation(Operation { kind, name, vars, directives, selection, shorthand: false }))
            }
            "fragment" => {
                let name = self.name()?;
                if !self.at_name("on") {
                    return Err("expected 'on'".into());
                }
                self.bump();
                let on = self.name()?;
                let directives = self.directives()?;
                Ok(Definition::Fragment(Fragment { name, on, directives, selection: self.selection_set()? }))
            }
            "schema" => {
                let directives = self.directives()?;
                let mut roots = Vec::new();
                self.expect("{")?;
                while !self.eat("}") {
                    let k = match self.name()?.as_str() {
                        "query" => OpKind::Query,
                        "mutation" => OpKind::Mutation,
                        "subscription" => OpKind::Subscription,
                        other => return Err(format!("bad root operation {other}")),
                    };
                    self.expect(":")?;
                    roots.push((k, self.name()?));
                }
                Ok(Definition::Schema(SchemaDef { extend: false, description: None, directives, roots }))
            }
            "scalar" | "type" | "interface" | "union" | "enum" | "input" => {
                let kind = match kw.as_str() {
                    "scalar" => TypeKind::Scalar,
                    "type" => TypeKind::Object,
                    "interface" => TypeKind::Interface,
                    "union" => TypeKind::Union,
                    "enum" => TypeKind::Enum,
                    _ => TypeKind::Input,
                };
                let mut t = TypeDef::new(kind, &self.name()?);
                if self.at_name("implements") {
                    self.bump();
                    self.eat("&");
                    t.implements.push(self.name()?);
                    while self.eat("&") {
                        t.implements.push(self.name()?);
                    }
                }
                t.directives = self.directives()?;
                match kind {
                    TypeKind::Scalar => {}
                    TypeKind::Object | TypeKind::Interface => {
                        self.expect("{")?;
                        while !self.eat("}") {
                            let name = self.name()?;
                            let args = self.input_values("(", ")")?;
                            self.expect(":")?;
                            let ty = self.ty()?;
                            let directives = self.directives()?;
                            t.fields.push(FieldDef { description: None, name, args, ty, directives });
                        }
                    }
                    TypeKind::Union => {
                        self.expect("=")?;
                        self.eat("|");
                        t.members.push(self.name()?);
                        while self.eat("|") {
                            t.members.push(self.name()?);
                        }
                    }
                    TypeKind::Enum => {
                        self.expect("{")?;
                        while !self.eat("}") {
                            let name = self.name()?;
                            let directives = self.directives()?;
                            t.values.push(EnumValueDef { description: None, name, directives });
                        }
                    }
                    TypeKind::Input => {
                        t.input_fields = self.input_values("{", "}")?;
                    }
                }
                Ok(Definition::Type(t))
            }
            other => Err(format!("unexpected keyword {other:?}")),
        }
    }
}

/// Read a document written in the printer's subset. Panics never; errors are strings.
pub fn parse_document(text: &str) -> Result<Document, String> {
    let mut p = P { t: lex(text)?, i: 0 };
    let mut defs = Vec::new();
    while *p.peek() != Tok::Eof {
        defs.push(p.definition()?);
    }
    Ok(Document { defs })
}

#[cfg(test)]
mod tests {
    use super::*;
    #[test]
    fn round_trips_through_the_printer() {
        for text in [
            "type Query { f(x: Int = 1, y: [In!]): [Int!]! g: U }\nunion U = A | B\ninterface I { x: Int }\ntype A implements I { x: Int }\ntype B { y: E }\nenum E { P Q }\ninput In { a: Int = 2 b: String! }\nscalar C\nschema { query: Query }",
            "query($v: Boolean! = true, $w: [Int]) { a: f(x: 2, y: [{b: \"q\\n\"}, $w]) @skip(if: $v) { ...F ... on A @include(if: false) { x } ... { x } } }\nfragment F on A { x }",
            "mutation M { m1 m2 }",
        ] {
            let doc = parse_document(text).unwrap();
            assert_eq!(doc.print(), text);
            assert_eq!(parse_document(&doc.print()).unwrap(), doc);
        }
        let short = parse_document("{a}").unwrap();
        assert_eq!(short.print(), "{ a }");
    }
}
