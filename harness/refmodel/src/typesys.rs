//! Reference type-system validator (DESIGN.md A.3): the October 2021 §3 rules = graphql-js v16
//! `validateSDL` (SDL rules) + `validateSchema`, over the mini-AST, one named function per rule.
//! The three documented apollo-compiler differences are explicit parameters.
//!
//! "Boring" on purpose: extensions are merged first (keeping every duplicate, so that the
//! uniqueness rules can see them), then each rule is a separate scan of the merged schema.
//! Only the accept / reject verdict is meant to be compared; the violations name the rule.

use crate::ast::*;
use crate::compat::{self, TypeRelations};
use crate::values::{self, InputField, InputTypes, Named, ValueParams};
use std::collections::BTreeSet;

// ---------------------------------------------------------------------------------
// Built-in definitions (data transcribed from apollo-compiler/src/built_in_types.graphql,
// which matches graphql-js v16 `specifiedScalarTypes`, `specifiedDirectives`, `introspectionTypes`)
// ---------------------------------------------------------------------------------

pub const BUILTIN_SCALARS: [&str; 5] = ["Int", "Float", "String", "Boolean", "ID"];

pub const INTROSPECTION_TYPES: [(&str, TypeKind); 8] = [
    ("__Schema", TypeKind::Object),
    ("__Type", TypeKind::Object),
    ("__TypeKind", TypeKind::Enum),
    ("__Field", TypeKind::Object),
    ("__InputValue", TypeKind::Object),
    ("__EnumValue", TypeKind::Object),
    ("__Directive", TypeKind::Object),
    ("__DirectiveLocation", TypeKind::Enum),
];

/// Built-in scalars referenced by the built-in definitions themselves (introspection types and
/// built-in directives use `String` and `Boolean` only).
pub const SCALARS_REFERENCED_BY_BUILTINS: [&str; 2] = ["String", "Boolean"];

pub fn builtin_directives() -> Vec<DirectiveDef> {
    let d = |name: &str, args: Vec<InputValueDef>, locations: &[&str]| DirectiveDef {
        description: None,
        name: name.to_string(),
        args,
        repeatable: false,
        locations: locations.iter().map(|s| s.to_string()).collect(),
    };
    let mut reason = InputValueDef::new("reason", Ty::named("String"));
    reason.default = Some(Value::str("No longer supported"));
    vec![
        d(
            "skip",
            vec![InputValueDef::new("if", Ty::named("Boolean").non_null())],
            &["FIELD", "FRAGMENT_SPREAD", "INLINE_FRAGMENT"],
        ),
        d(
            "include",
            vec![InputValueDef::new("if", Ty::named("Boolean").non_null())],
            &["FIELD", "FRAGMENT_SPREAD", "INLINE_FRAGMENT"],
        ),
        d(
            "deprecated",
            vec![reason],
            &["FIELD_DEFINITION", "ARGUMENT_DEFINITION", "INPUT_FIELD_DEFINITION", "ENUM_VALUE"],
        ),
        d("specifiedBy", vec![InputValueDef::new("url", Ty::named("String").non_null())], &["SCALAR"]),
    ]
}

// ---------------------------------------------------------------------------------
// Parameters
// ---------------------------------------------------------------------------------

/// Deviation switches (DESIGN §2.2): each reproduces exactly one known wrong behaviour of
/// apollo-compiler; all off unless /verif/known_findings.json lists the finding as open.
#[derive(Debug, Clone, Copy, Default, PartialEq, Eq)]
pub struct Deviations {
    /// A type extension that *precedes* the definition of its type and has a different kind is
    /// dropped silently (no diagnostic, content not merged).
    pub orphan_extension_kind_mismatch_ignored: bool,
    /// Input-object literals with a repeated field name are not reported; only the first
    /// occurrence is type-checked (`values::ValueParams::duplicate_input_fields_first_wins`).
    pub duplicate_input_fields_first_wins: bool,
}

#[derive(Debug, Clone, Copy, PartialEq, Eq)]
pub struct Params {
    /// apollo difference 3: literal arguments of directive applications inside the schema must
    /// be of the argument's type (graphql-js does not run ValuesOfCorrectType on SDL).
    pub check_directive_argument_values: bool,
    /// apollo difference 1: default values of arguments / input fields are not validated.
    pub validate_default_values: bool,
    /// apollo difference 2: a built-in *directive* may be defined by the document this many
    /// times (graphql-js `buildSchema` from scratch behaves the same: once).
    pub builtin_directive_redefinitions_allowed: u32,
    pub dev: Deviations,
}

impl Params {
    /// The oracle of property C14.
    pub fn apollo_documented() -> Params {
        Params {
            check_directive_argument_values: true,
            validate_default_values: false,
            builtin_directive_redefinitions_allowed: 1,
            dev: Deviations::default(),
        }
    }
}

#[derive(Debug, Clone, PartialEq, Eq, PartialOrd, Ord)]
pub struct Violation {
    pub rule: &'static str,
    pub subject: String,
}

fn v(out: &mut Vec<Violation>, rule: &'static str, subject: impl Into<String>) {
    out.push(Violation { rule, subject: subject.into() });
}

/// Every rule name `validate` can report, in evaluation order. `DefaultValues` only fires with
/// `validate_default_values`.
pub const RULES: [&str; 39] = [
    "ExecutableDefinitions",
    "LoneSchemaDefinition",
    "UniqueOperationTypes",
    "UniqueTypeNames",
    "UniqueDirectiveNames",
    "PossibleExtensions",
    "QueryRootPresent",
    "RootTypesAreObjects",
    "RootTypesDistinct",
    "NonEmptyTypes",
    "UniqueFieldNames",
    "UniqueArgumentDefinitionNames",
    "UniqueEnumValueNames",
    "UniqueUnionMembers",
    "UniqueImplements",
    "ReservedNames",
    "KnownTypeNames",
    "OutputFieldTypes",
    "InputArgumentTypes",
    "UnionMembersAreObjects",
    "ImplementsInterfaces",
    "NoSelfImplementation",
    "TransitiveInterfaces",
    "Implementation.FieldPresent",
    "Implementation.FieldType",
    "Implementation.ArgumentPresent",
    "Implementation.ArgumentType",
    "Implementation.NoExtraRequiredArgument",
    "InputObjectCycles",
    "KnownDirectives",
    "DirectiveLocations",
    "UniqueDirectivesPerLocation",
    "KnownDirectiveArguments",
    "UniqueDirectiveArgumentNames",
    "RequiredDirectiveArguments",
    "DirectiveArgumentValues",
    "UniqueInputFieldNames",
    "DefaultValues",
    "VariableInConstValue",
];

// ---------------------------------------------------------------------------------
// Merging definitions and extensions
// ---------------------------------------------------------------------------------

/// A named type with all its extensions folded in. Members are concatenated in document order
/// (definition first) and **keep duplicates**.
#[derive(Debug, Clone, PartialEq, Eq)]
pub struct MType {
    pub kind: TypeKind,
    pub name: Name,
    pub implements: Vec<Name>,
    pub directives: Vec<Directive>,
    pub fields: Vec<FieldDef>,
    pub members: Vec<Name>,
    pub values: Vec<EnumValueDef>,
    pub input_fields: Vec<InputValueDef>,
}

#[derive(Debug, Clone, PartialEq, Eq)]
pub struct Root {
    pub op: OpKind,
    pub name: Name,
    /// false: taken from a type named `Query` / `Mutation` / `Subscription`
    pub explicit: bool,
}

#[derive(Debug, Clone, Default, PartialEq, Eq)]
pub struct Merged {
    pub executable_definitions: usize,
    pub schema_definitions: usize,
    pub schema_extensions: usize,
    /// every root operation type of the schema definition and its extensions, or the implicit
    /// ones (+ extensions) when there is no schema definition
    pub roots: Vec<Root>,
    pub schema_directives: Vec<Directive>,
    /// user-defined types, first definition of each name wins
    pub types: Vec<MType>,
    /// names defined more than once (one entry per extra definition)
    pub duplicate_type_definitions: Vec<Name>,
    /// extensions whose target is not defined at all
    pub orphan_extensions: Vec<Name>,
    /// extensions whose kind differs from the kind of the definition
    pub kind_mismatched_extensions: Vec<Name>,
    /// true: `extend schema` although there is neither a schema definition nor an implicit one
    pub schema_extension_without_schema: bool,
    /// all directive definitions of the document, in order
    pub user_directive_definitions: Vec<DirectiveDef>,
    /// effective definitions: the first user definition of each name, then the built-ins that the
    /// document does not define
    pub directive_definitions: Vec<DirectiveDef>,
}

fn fold(into: &mut MType, t: &TypeDef) {
    into.implements.extend(t.implements.iter().cloned());
    into.directives.extend(t.directives.iter().cloned());
    into.fields.extend(t.fields.iter().cloned());
    into.members.extend(t.members.iter().cloned());
    into.values.extend(t.values.iter().cloned());
    into.input_fields.extend(t.input_fields.iter().cloned());
}

pub fn default_root_name(op: OpKind) -> &'static str {
    match op {
        OpKind::Query => "Query",
        OpKind::Mutation => "Mutation",
        OpKind::Subscription => "Subscription",
    }
}

pub fn merge(doc: &Document, p: &Params) -> Merged {
    let mut m = Merged::default();
    // --- types
    let mut pending: Vec<&TypeDef> = Vec::new(); // extensions seen before their definition
    for def in &doc.defs {
        let Definition::Type(t) = def else { continue };
        let existing = m.types.iter().position(|x| x.name == t.name);
        match (t.extend, existing) {
            (false, Some(_)) => m.duplicate_type_definitions.push(t.name.clone()),
            (false, None) => {
                let mut mt = MType {
                    kind: t.kind,
                    name: t.name.clone(),
                    implements: vec![],
                    directives: vec![],
                    fields: vec![],
                    members: vec![],
                    values: vec![],
                    input_fields: vec![],
                };
                fold(&mut mt, t);
                let mut rest = Vec::new();
                for e in pending.drain(..) {
                    if e.name != t.name {
                        rest.push(e);
                    } else if e.kind == t.kind {
                        fold(&mut mt, e);
                    } else if !p.dev.orphan_extension_kind_mismatch_ignored {
                        m.kind_mismatched_extensions.push(e.name.clone());
                    }
                }
                pending = rest;
                m.types.push(mt);
            }
            (true, Some(i)) => {
                if m.types[i].kind == t.kind {
                    fold(&mut m.types[i], t);
                } else {
                    m.kind_mismatched_extensions.push(t.name.clone());
                }
            }
            (true, None) => pending.push(t),
        }
    }
    m.orphan_extensions = pending.iter().map(|t| t.name.clone()).collect();
    // --- schema definition and extensions
    let mut ext_roots = Vec::new();
    let mut ext_directives = Vec::new();
    for def in &doc.defs {
        match def {
            Definition::Operation(_) | Definition::Fragment(_) => m.executable_definitions += 1,
            Definition::Schema(s) if !s.extend => {
                m.schema_definitions += 1;
                if m.schema_definitions == 1 {
                    m.schema_directives.extend(s.directives.iter().cloned());
                    m.roots.extend(s.roots.iter().map(|(op, n)| Root { op: *op, name: n.clone(), explicit: true }));
                }
            }
            Definition::Schema(s) => {
                m.schema_extensions += 1;
                ext_directives.extend(s.directives.iter().cloned());
                ext_roots.extend(s.roots.iter().map(|(op, n)| Root { op: *op, name: n.clone(), explicit: true }));
            }
            Definition::Directive(d) => m.user_directive_definitions.push(d.clone()),
            Definition::Type(_) => {}
        }
    }
    if m.schema_definitions == 0 {
        // §3.3.1 default root operation type names
        for op in [OpKind::Query, OpKind::Mutation, OpKind::Subscription] {
            let n = default_root_name(op);
            if m.types.iter().any(|t| t.name == n && t.kind == TypeKind::Object) {
                m.roots.push(Root { op, name: n.to_string(), explicit: false });
            }
        }
        if m.roots.is_empty() && m.schema_extensions > 0 {
            m.schema_extension_without_schema = true;
        }
    }
    if !m.schema_extension_without_schema {
        m.roots.extend(ext_roots);
        m.schema_directives.extend(ext_directives);
    }
    // --- directive definitions
    for d in &m.user_directive_definitions {
        if !m.directive_definitions.iter().any(|x| x.name == d.name) {
            m.directive_definitions.push(d.clone());
        }
    }
    for b in builtin_directives() {
        if !m.directive_definitions.iter().any(|x| x.name == b.name) {
            m.directive_definitions.push(b);
        }
    }
    m
}

/// What a name denotes in the merged schema.
#[derive(Debug, Clone, Copy, PartialEq, Eq)]
pub enum Kind {
    BuiltinScalar,
    User(TypeKind),
    Introspection(TypeKind),
}

impl Kind {
    pub fn type_kind(self) -> TypeKind {
        match self {
            Kind::BuiltinScalar => TypeKind::Scalar,
            Kind::User(k) | Kind::Introspection(k) => k,
        }
    }
    pub fn is_input(self) -> bool {
        matches!(self.type_kind(), TypeKind::Scalar | TypeKind::Enum | TypeKind::Input)
    }
    pub fn is_output(self) -> bool {
        self.type_kind() != TypeKind::Input
    }
}

impl Merged {
    pub fn get(&self, name: &str) -> Option<&MType> {
        self.types.iter().find(|t| t.name == name)
    }
    pub fn kind(&self, name: &str) -> Option<Kind> {
        if let Some(t) = self.get(name) {
            return Some(Kind::User(t.kind));
        }
        if BUILTIN_SCALARS.contains(&name) {
            return Some(Kind::BuiltinScalar);
        }
        INTROSPECTION_TYPES.iter().find(|(n, _)| *n == name).map(|(_, k)| Kind::Introspection(*k))
    }
    pub fn directive(&self, name: &str) -> Option<&DirectiveDef> {
        self.directive_definitions.iter().find(|d| d.name == name)
    }
    fn is_kind(&self, name: &str, k: TypeKind) -> bool {
        self.get(name).is_some_and(|t| t.kind == k)
    }
}

impl TypeRelations for Merged {
    fn is_object(&self, name: &str) -> bool {
        self.is_kind(name, TypeKind::Object)
    }
    fn is_interface(&self, name: &str) -> bool {
        self.is_kind(name, TypeKind::Interface)
    }
    fn is_union(&self, name: &str) -> bool {
        self.is_kind(name, TypeKind::Union)
    }
    fn union_has_member(&self, union: &str, object: &str) -> bool {
        self.get(union).is_some_and(|u| u.kind == TypeKind::Union && u.members.iter().any(|m| m == object))
    }
    fn declares_implements(&self, ty: &str, iface: &str) -> bool {
        self.get(ty).is_some_and(|t| {
            matches!(t.kind, TypeKind::Object | TypeKind::Interface) && t.implements.iter().any(|i| i == iface)
        })
    }
}

impl InputTypes for Merged {
    fn lookup(&self, name: &str) -> Named {
        match self.kind(name) {
            None => Named::Undefined,
            Some(Kind::BuiltinScalar) => {
                Named::BuiltinScalar(BUILTIN_SCALARS.iter().find(|s| **s == name).copied().unwrap())
            }
            Some(Kind::Introspection(TypeKind::Enum)) => Named::Undefined, // never in the alphabet
            Some(Kind::Introspection(_)) => Named::NotInput,
            Some(Kind::User(k)) => {
                let t = self.get(name).unwrap();
                match k {
                    TypeKind::Scalar => Named::CustomScalar,
                    TypeKind::Enum => Named::Enum(t.values.iter().map(|v| v.name.clone()).collect()),
                    TypeKind::Input => {
                        // first definition of a field name wins (a repeated name is rejected by
                        // UniqueFieldNames anyway)
                        let mut fields: Vec<InputField> = Vec::new();
                        for f in &t.input_fields {
                            if !fields.iter().any(|x| x.name == f.name) {
                                fields.push(InputField {
                                    name: f.name.clone(),
                                    ty: f.ty.clone(),
                                    has_default: f.default.is_some(),
                                });
                            }
                        }
                        Named::InputObject(fields)
                    }
                    _ => Named::NotInput,
                }
            }
        }
    }
}

fn first_by_name<'a, T>(items: &'a [T], name_of: impl Fn(&T) -> &str, name: &str) -> Option<&'a T> {
    items.iter().find(|x| name_of(x) == name)
}

fn duplicates<'a>(names: impl Iterator<Item = &'a str>) -> Vec<&'a str> {
    let mut seen: Vec<&str> = Vec::new();
    let mut dups = Vec::new();
    for n in names {
        if seen.contains(&n) {
            dups.push(n);
        } else {
            seen.push(n);
        }
    }
    dups
}

/// An argument / input field is required when its type is Non-Null and it has no default value.
pub fn is_required(iv: &InputValueDef) -> bool {
    iv.ty.is_non_null() && iv.default.is_none()
}

// ---------------------------------------------------------------------------------
// The rules
// ---------------------------------------------------------------------------------

/// A schema document contains no operation or fragment definition.
pub fn executable_definitions(m: &Merged, out: &mut Vec<Violation>) {
    if m.executable_definitions > 0 {
        v(out, "ExecutableDefinitions", format!("{} executable definition(s)", m.executable_definitions));
    }
}

/// At most one `schema` definition.
pub fn lone_schema_definition(m: &Merged, out: &mut Vec<Violation>) {
    if m.schema_definitions > 1 {
        v(out, "LoneSchemaDefinition", "schema");
    }
}

/// Each operation type is given at most once across the schema definition and its extensions.
pub fn unique_operation_types(m: &Merged, out: &mut Vec<Violation>) {
    for op in [OpKind::Query, OpKind::Mutation, OpKind::Subscription] {
        if m.roots.iter().filter(|r| r.op == op).count() > 1 {
            v(out, "UniqueOperationTypes", op.keyword());
        }
    }
}

/// Type names are unique; redefining a built-in scalar or an introspection type is also a
/// collision (kept out of the C14 alphabet).
pub fn unique_type_names(m: &Merged, out: &mut Vec<Violation>) {
    for n in &m.duplicate_type_definitions {
        v(out, "UniqueTypeNames", n.clone());
    }
    for t in &m.types {
        if BUILTIN_SCALARS.contains(&t.name.as_str()) || INTROSPECTION_TYPES.iter().any(|(n, _)| *n == t.name) {
            v(out, "UniqueTypeNames", t.name.clone());
        }
    }
}

/// Directive definition names are unique; a built-in directive may be redefined
/// `builtin_directive_redefinitions_allowed` times.
pub fn unique_directive_names(m: &Merged, p: &Params, out: &mut Vec<Violation>) {
    let builtins = builtin_directives();
    let mut names: Vec<&str> = m.user_directive_definitions.iter().map(|d| d.name.as_str()).collect();
    names.sort();
    names.dedup();
    for n in names {
        let count = m.user_directive_definitions.iter().filter(|d| d.name == n).count() as u32;
        let allowed = if builtins.iter().any(|b| b.name == n) { p.builtin_directive_redefinitions_allowed } else { 1 };
        if count > allowed {
            v(out, "UniqueDirectiveNames", format!("@{n}"));
        }
    }
}

/// Extensions: the target is defined and has the same kind; `extend schema` needs a schema
/// (explicit, or implied by a default-named root object type).
pub fn possible_extensions(m: &Merged, out: &mut Vec<Violation>) {
    for n in &m.orphan_extensions {
        v(out, "PossibleExtensions", format!("{n} (undefined)"));
    }
    for n in &m.kind_mismatched_extensions {
        v(out, "PossibleExtensions", format!("{n} (kind)"));
    }
    if m.schema_extension_without_schema {
        v(out, "PossibleExtensions", "schema");
    }
}

/// The query root operation type must be provided.
pub fn query_root_present(m: &Merged, out: &mut Vec<Violation>) {
    if !m.roots.iter().any(|r| r.op == OpKind::Query) {
        v(out, "QueryRootPresent", "schema");
    }
}

/// Root operation types are Object types (an undefined one is KnownTypeNames's).
pub fn root_types_are_objects(m: &Merged, out: &mut Vec<Violation>) {
    for r in &m.roots {
        if let Some(k) = m.kind(&r.name) {
            if k != Kind::User(TypeKind::Object) {
                v(out, "RootTypesAreObjects", format!("{}: {}", r.op.keyword(), r.name));
            }
        }
    }
}

/// "The query, mutation, and subscription root types must all be different types if provided."
pub fn root_types_distinct(m: &Merged, out: &mut Vec<Violation>) {
    for (i, r) in m.roots.iter().enumerate() {
        if m.roots[..i].iter().any(|q| q.op != r.op && q.name == r.name) {
            v(out, "RootTypesDistinct", r.name.clone());
        }
    }
}

/// Object / interface: ≥ 1 field; union: ≥ 1 member; enum: ≥ 1 value; input object: ≥ 1 field.
pub fn non_empty_types(m: &Merged, out: &mut Vec<Violation>) {
    for t in &m.types {
        let empty = match t.kind {
            TypeKind::Scalar => false,
            TypeKind::Object | TypeKind::Interface => t.fields.is_empty(),
            TypeKind::Union => t.members.is_empty(),
            TypeKind::Enum => t.values.is_empty(),
            TypeKind::Input => t.input_fields.is_empty(),
        };
        if empty {
            v(out, "NonEmptyTypes", t.name.clone());
        }
    }
}

/// Field names are unique within an object / interface / input object type.
pub fn unique_field_names(m: &Merged, out: &mut Vec<Violation>) {
    for t in &m.types {
        for d in duplicates(t.fields.iter().map(|f| f.name.as_str())) {
            v(out, "UniqueFieldNames", format!("{}.{d}", t.name));
        }
        for d in duplicates(t.input_fields.iter().map(|f| f.name.as_str())) {
            v(out, "UniqueFieldNames", format!("{}.{d}", t.name));
        }
    }
}

/// Argument names are unique within a field definition / directive definition.
pub fn unique_argument_definition_names(m: &Merged, out: &mut Vec<Violation>) {
    for t in &m.types {
        for f in &t.fields {
            for d in duplicates(f.args.iter().map(|a| a.name.as_str())) {
                v(out, "UniqueArgumentDefinitionNames", format!("{}.{}({d}:)", t.name, f.name));
            }
        }
    }
    for dd in &m.user_directive_definitions {
        for d in duplicates(dd.args.iter().map(|a| a.name.as_str())) {
            v(out, "UniqueArgumentDefinitionNames", format!("@{}({d}:)", dd.name));
        }
    }
}

pub fn unique_enum_value_names(m: &Merged, out: &mut Vec<Violation>) {
    for t in &m.types {
        for d in duplicates(t.values.iter().map(|x| x.name.as_str())) {
            v(out, "UniqueEnumValueNames", format!("{}.{d}", t.name));
        }
    }
}

pub fn unique_union_members(m: &Merged, out: &mut Vec<Violation>) {
    for t in m.types.iter().filter(|t| t.kind == TypeKind::Union) {
        for d in duplicates(t.members.iter().map(|x| x.as_str())) {
            v(out, "UniqueUnionMembers", format!("{} = {d}", t.name));
        }
    }
}

/// "Type X can only implement Y once."
pub fn unique_implements(m: &Merged, out: &mut Vec<Violation>) {
    for t in &m.types {
        for d in duplicates(t.implements.iter().map(|x| x.as_str())) {
            v(out, "UniqueImplements", format!("{} implements {d}", t.name));
        }
    }
}

/// §3.? Reserved names: no user-defined type, field, argument, enum value, input field or
/// directive name begins with `__`.
pub fn reserved_names(m: &Merged, out: &mut Vec<Violation>) {
    let mut chk = |what: &str, n: &str| {
        if n.starts_with("__") {
            v(out, "ReservedNames", format!("{what} {n}"));
        }
    };
    for t in &m.types {
        chk("type", &t.name);
        for f in &t.fields {
            chk("field", &f.name);
            for a in &f.args {
                chk("argument", &a.name);
            }
        }
        for x in &t.values {
            chk("enum value", &x.name);
        }
        for f in &t.input_fields {
            chk("input field", &f.name);
        }
    }
    for d in &m.user_directive_definitions {
        chk("directive", &d.name);
        for a in &d.args {
            chk("argument", &a.name);
        }
    }
}

/// Every referenced type is defined (built-in scalars and introspection types always are).
pub fn known_type_names(m: &Merged, out: &mut Vec<Violation>) {
    let mut chk = |site: String, n: &str| {
        if m.kind(n).is_none() {
            v(out, "KnownTypeNames", format!("{site} -> {n}"));
        }
    };
    for r in &m.roots {
        chk(format!("schema.{}", r.op.keyword()), &r.name);
    }
    for t in &m.types {
        for i in &t.implements {
            chk(format!("{} implements", t.name), i);
        }
        for mem in &t.members {
            chk(format!("{} member", t.name), mem);
        }
        for f in &t.fields {
            chk(format!("{}.{}", t.name, f.name), f.ty.inner_name());
            for a in &f.args {
                chk(format!("{}.{}({}:)", t.name, f.name, a.name), a.ty.inner_name());
            }
        }
        for f in &t.input_fields {
            chk(format!("{}.{}", t.name, f.name), f.ty.inner_name());
        }
    }
    for d in &m.user_directive_definitions {
        for a in &d.args {
            chk(format!("@{}({}:)", d.name, a.name), a.ty.inner_name());
        }
    }
}

/// The type of an object / interface field is an output type.
pub fn output_field_types(m: &Merged, out: &mut Vec<Violation>) {
    for t in &m.types {
        for f in &t.fields {
            if m.kind(f.ty.inner_name()).is_some_and(|k| !k.is_output()) {
                v(out, "OutputFieldTypes", format!("{}.{}: {}", t.name, f.name, f.ty));
            }
        }
    }
}

/// The type of a field argument, a directive argument or an input field is an input type.
pub fn input_argument_types(m: &Merged, out: &mut Vec<Violation>) {
    let mut chk = |site: String, ty: &Ty| {
        if m.kind(ty.inner_name()).is_some_and(|k| !k.is_input()) {
            v(out, "InputArgumentTypes", format!("{site}: {ty}"));
        }
    };
    for t in &m.types {
        for f in &t.fields {
            for a in &f.args {
                chk(format!("{}.{}({}:)", t.name, f.name, a.name), &a.ty);
            }
        }
        for f in &t.input_fields {
            chk(format!("{}.{}", t.name, f.name), &f.ty);
        }
    }
    for d in &m.user_directive_definitions {
        for a in &d.args {
            chk(format!("@{}({}:)", d.name, a.name), &a.ty);
        }
    }
}

/// "The member types of a Union type must all be Object base types."
pub fn union_members_are_objects(m: &Merged, out: &mut Vec<Violation>) {
    for t in m.types.iter().filter(|t| t.kind == TypeKind::Union) {
        for mem in &t.members {
            if m.kind(mem).is_some_and(|k| k != Kind::User(TypeKind::Object)) {
                v(out, "UnionMembersAreObjects", format!("{} = {mem}", t.name));
            }
        }
    }
}

/// `implements` names Interface types only.
pub fn implements_interfaces(m: &Merged, out: &mut Vec<Violation>) {
    for t in &m.types {
        for i in &t.implements {
            if m.kind(i).is_some_and(|k| k != Kind::User(TypeKind::Interface)) {
                v(out, "ImplementsInterfaces", format!("{} implements {i}", t.name));
            }
        }
    }
}

/// "An interface type may not implement itself."
pub fn no_self_implementation(m: &Merged, out: &mut Vec<Violation>) {
    for t in m.types.iter().filter(|t| t.kind == TypeKind::Interface) {
        if t.implements.contains(&t.name) {
            v(out, "NoSelfImplementation", t.name.clone());
        }
    }
}

/// "The implementing type must also implement all interfaces that interface implements."
pub fn transitive_interfaces(m: &Merged, out: &mut Vec<Violation>) {
    for t in &m.types {
        for i in &t.implements {
            let Some(iface) = m.get(i).filter(|x| x.kind == TypeKind::Interface) else { continue };
            for j in &iface.implements {
                if !t.implements.contains(j) {
                    v(out, "TransitiveInterfaces", format!("{} implements {i} without {j}", t.name));
                }
            }
        }
    }
}

/// `IsValidImplementation(type, implementedType)` (§3.6 Objects, type validation 4.b), for
/// objects and interfaces alike.
pub fn implementation_contract(m: &Merged, out: &mut Vec<Violation>) {
    for t in &m.types {
        if !matches!(t.kind, TypeKind::Object | TypeKind::Interface) {
            continue;
        }
        let mut done: Vec<&str> = Vec::new();
        for i in &t.implements {
            if done.contains(&i.as_str()) {
                continue;
            }
            done.push(i);
            let Some(iface) = m.get(i).filter(|x| x.kind == TypeKind::Interface) else { continue };
            let mut seen_fields: Vec<&str> = Vec::new();
            for ifield in &iface.fields {
                if seen_fields.contains(&ifield.name.as_str()) {
                    continue;
                }
                seen_fields.push(&ifield.name);
                let subject = format!("{}.{} vs {}.{}", t.name, ifield.name, i, ifield.name);
                // a. type must include a field of the same name
                let Some(field) = first_by_name(&t.fields, |f| &f.name, &ifield.name) else {
                    v(out, "Implementation.FieldPresent", subject);
                    continue;
                };
                // b.iv: field must return a type which is equal to or a sub-type of it
                if !compat::is_valid_implementation_field_type(&field.ty, &ifield.ty, m) {
                    v(out, "Implementation.FieldType", format!("{subject}: {} vs {}", field.ty, ifield.ty));
                }
                // b.i/ii: every argument of the interface field, with the same type
                let mut seen_args: Vec<&str> = Vec::new();
                for iarg in &ifield.args {
                    if seen_args.contains(&iarg.name.as_str()) {
                        continue;
                    }
                    seen_args.push(&iarg.name);
                    match first_by_name(&field.args, |a| &a.name, &iarg.name) {
                        None => v(out, "Implementation.ArgumentPresent", format!("{subject} ({}:)", iarg.name)),
                        Some(arg) => {
                            if arg.ty != iarg.ty {
                                v(
                                    out,
                                    "Implementation.ArgumentType",
                                    format!("{subject} ({}: {} vs {})", iarg.name, arg.ty, iarg.ty),
                                );
                            }
                        }
                    }
                }
                // b.iii: additional arguments must not be required
                for arg in &field.args {
                    if !ifield.args.iter().any(|a| a.name == arg.name) && is_required(arg) {
                        v(out, "Implementation.NoExtraRequiredArgument", format!("{subject} ({}:)", arg.name));
                    }
                }
            }
        }
    }
}

/// §3.10 circular references: no cycle through Non-Null, non-list input-object fields.
pub fn input_object_cycles(m: &Merged, out: &mut Vec<Violation>) {
    fn edges<'a>(m: &'a Merged, t: &'a MType) -> Vec<&'a str> {
        t.input_fields
            .iter()
            .filter_map(|f| match &f.ty {
                Ty::NonNull(inner) => match &**inner {
                    Ty::Named(n) if m.is_kind(n, TypeKind::Input) => Some(n.as_str()),
                    _ => None,
                },
                _ => None,
            })
            .collect()
    }
    for t in m.types.iter().filter(|t| t.kind == TypeKind::Input) {
        // is `t` reachable from itself?
        let mut reached: BTreeSet<&str> = BTreeSet::new();
        let mut todo: Vec<&str> = edges(m, t);
        while let Some(n) = todo.pop() {
            if reached.insert(n) {
                if let Some(next) = m.get(n) {
                    todo.extend(edges(m, next));
                }
            }
        }
        if reached.contains(t.name.as_str()) {
            v(out, "InputObjectCycles", t.name.clone());
        }
    }
}

/// One place where directives are applied.
pub struct DirectiveSite<'a> {
    pub subject: String,
    pub location: &'static str,
    pub directives: &'a [Directive],
}

pub fn type_location(k: TypeKind) -> &'static str {
    match k {
        TypeKind::Scalar => "SCALAR",
        TypeKind::Object => "OBJECT",
        TypeKind::Interface => "INTERFACE",
        TypeKind::Union => "UNION",
        TypeKind::Enum => "ENUM",
        TypeKind::Input => "INPUT_OBJECT",
    }
}

pub fn directive_sites(m: &Merged) -> Vec<DirectiveSite<'_>> {
    let mut s = Vec::new();
    s.push(DirectiveSite { subject: "schema".into(), location: "SCHEMA", directives: &m.schema_directives });
    for t in &m.types {
        s.push(DirectiveSite { subject: t.name.clone(), location: type_location(t.kind), directives: &t.directives });
        for f in &t.fields {
            s.push(DirectiveSite {
                subject: format!("{}.{}", t.name, f.name),
                location: "FIELD_DEFINITION",
                directives: &f.directives,
            });
            for a in &f.args {
                s.push(DirectiveSite {
                    subject: format!("{}.{}({}:)", t.name, f.name, a.name),
                    location: "ARGUMENT_DEFINITION",
                    directives: &a.directives,
                });
            }
        }
        for x in &t.values {
            s.push(DirectiveSite {
                subject: format!("{}.{}", t.name, x.name),
                location: "ENUM_VALUE",
                directives: &x.directives,
            });
        }
        for f in &t.input_fields {
            s.push(DirectiveSite {
                subject: format!("{}.{}", t.name, f.name),
                location: "INPUT_FIELD_DEFINITION",
                directives: &f.directives,
            });
        }
    }
    for d in &m.user_directive_definitions {
        for a in &d.args {
            s.push(DirectiveSite {
                subject: format!("@{}({}:)", d.name, a.name),
                location: "ARGUMENT_DEFINITION",
                directives: &a.directives,
            });
        }
    }
    s.retain(|x| !x.directives.is_empty());
    s
}

/// Every applied directive is defined.
pub fn known_directives(m: &Merged, out: &mut Vec<Violation>) {
    for s in directive_sites(m) {
        for d in s.directives {
            if m.directive(&d.name).is_none() {
                v(out, "KnownDirectives", format!("@{} on {}", d.name, s.subject));
            }
        }
    }
}

/// A directive is applied only at a location its definition lists.
pub fn directive_locations(m: &Merged, out: &mut Vec<Violation>) {
    for s in directive_sites(m) {
        for d in s.directives {
            if m.directive(&d.name).is_some_and(|def| !def.locations.iter().any(|l| l == s.location)) {
                v(out, "DirectiveLocations", format!("@{} on {} ({})", d.name, s.subject, s.location));
            }
        }
    }
}

/// A directive that is not `repeatable` is applied at most once per location (a type's
/// definition and its extensions are one location).
pub fn unique_directives_per_location(m: &Merged, out: &mut Vec<Violation>) {
    for s in directive_sites(m) {
        for n in duplicates(s.directives.iter().map(|d| d.name.as_str())) {
            if m.directive(n).is_some_and(|def| !def.repeatable) {
                v(out, "UniqueDirectivesPerLocation", format!("@{n} on {}", s.subject));
            }
        }
    }
}

/// Every argument of a directive application is defined by the directive.
pub fn known_directive_arguments(m: &Merged, out: &mut Vec<Violation>) {
    for s in directive_sites(m) {
        for d in s.directives {
            let Some(def) = m.directive(&d.name) else { continue };
            for (k, _) in &d.args {
                if !def.args.iter().any(|a| &a.name == k) {
                    v(out, "KnownDirectiveArguments", format!("@{}({k}:) on {}", d.name, s.subject));
                }
            }
        }
    }
}

/// No argument name is given twice in one directive application.
pub fn unique_directive_argument_names(m: &Merged, out: &mut Vec<Violation>) {
    for s in directive_sites(m) {
        for d in s.directives {
            for k in duplicates(d.args.iter().map(|(k, _)| k.as_str())) {
                v(out, "UniqueDirectiveArgumentNames", format!("@{}({k}:) on {}", d.name, s.subject));
            }
        }
    }
}

/// Required arguments (Non-Null type, no default value) are provided. (A literal `null` for
/// them is DirectiveArgumentValues's.)
pub fn required_directive_arguments(m: &Merged, out: &mut Vec<Violation>) {
    for s in directive_sites(m) {
        for d in s.directives {
            let Some(def) = m.directive(&d.name) else { continue };
            let mut seen: Vec<&str> = Vec::new();
            for a in &def.args {
                if seen.contains(&a.name.as_str()) {
                    continue;
                }
                seen.push(&a.name);
                if is_required(a) && d.arg(&a.name).is_none() {
                    v(out, "RequiredDirectiveArguments", format!("@{}({}:) on {}", d.name, a.name, s.subject));
                }
            }
        }
    }
}

fn value_params(p: &Params) -> ValueParams {
    ValueParams { allow_variables: true, duplicate_input_fields_first_wins: p.dev.duplicate_input_fields_first_wins }
}

/// Parameter `check_directive_argument_values`: the literal given for a directive argument is
/// of the argument's type (`values::check_value`).
pub fn directive_argument_values(m: &Merged, p: &Params, out: &mut Vec<Violation>) {
    if !p.check_directive_argument_values {
        return;
    }
    for s in directive_sites(m) {
        for d in s.directives {
            let Some(def) = m.directive(&d.name) else { continue };
            for (k, val) in &d.args {
                let Some(a) = first_by_name(&def.args, |a| &a.name, k) else { continue };
                for issue in values::check_value(m, &a.ty, val, value_params(p)) {
                    if issue.kind != "duplicate-field" {
                        v(
                            out,
                            "DirectiveArgumentValues",
                            format!("@{}({k}:{}) on {}: {}", d.name, issue.path, s.subject, issue.kind),
                        );
                    }
                }
            }
        }
    }
}

fn all_const_values(m: &Merged) -> Vec<(String, &Value)> {
    let mut vals: Vec<(String, &Value)> = Vec::new();
    for s in directive_sites(m) {
        for d in s.directives {
            for (k, val) in &d.args {
                vals.push((format!("@{}({k}:) on {}", d.name, s.subject), val));
            }
        }
    }
    for (site, iv) in input_value_definitions(m) {
        if let Some(d) = &iv.default {
            vals.push((format!("default of {site}"), d));
        }
    }
    vals
}

/// `UniqueInputFieldNames` (an SDL rule of graphql-js): syntactic, over every object literal of
/// the document — directive arguments and default values.
pub fn unique_input_field_names(m: &Merged, p: &Params, out: &mut Vec<Violation>) {
    if p.dev.duplicate_input_fields_first_wins {
        return;
    }
    for (site, val) in all_const_values(m) {
        let mut issues = Vec::new();
        values::duplicate_input_fields(val, "", &mut issues);
        for i in issues {
            v(out, "UniqueInputFieldNames", format!("{site}{}", i.path));
        }
    }
}

/// Const values contain no variable (a syntax error in the grammar's `Value[Const]`; never
/// generated, here for completeness).
pub fn no_variables_in_const_values(m: &Merged, out: &mut Vec<Violation>) {
    fn has_var(v: &Value) -> bool {
        match v {
            Value::Var(_) => true,
            Value::List(items) => items.iter().any(has_var),
            Value::Object(fields) => fields.iter().any(|(_, x)| has_var(x)),
            _ => false,
        }
    }
    for (site, val) in all_const_values(m) {
        if has_var(val) {
            v(out, "VariableInConstValue", site);
        }
    }
}

/// All argument and input-field definitions with a printable site.
pub fn input_value_definitions(m: &Merged) -> Vec<(String, &InputValueDef)> {
    let mut r = Vec::new();
    for t in &m.types {
        for f in &t.fields {
            for a in &f.args {
                r.push((format!("{}.{}({}:)", t.name, f.name, a.name), a));
            }
        }
        for f in &t.input_fields {
            r.push((format!("{}.{}", t.name, f.name), f));
        }
    }
    for d in &m.user_directive_definitions {
        for a in &d.args {
            r.push((format!("@{}({}:)", d.name, a.name), a));
        }
    }
    r
}

/// Parameter `validate_default_values` (off for apollo): a default value is of its type.
pub fn default_values(m: &Merged, p: &Params, out: &mut Vec<Violation>) {
    if !p.validate_default_values {
        return;
    }
    for (site, iv) in input_value_definitions(m) {
        if let Some(d) = &iv.default {
            for issue in values::check_value(m, &iv.ty, d, value_params(p)) {
                if issue.kind != "duplicate-field" {
                    v(out, "DefaultValues", format!("{site}{}: {}", issue.path, issue.kind));
                }
            }
        }
    }
}

// ---------------------------------------------------------------------------------
// Entry points
// ---------------------------------------------------------------------------------

pub fn validate_merged(m: &Merged, p: &Params) -> Vec<Violation> {
    let mut out = Vec::new();
    executable_definitions(m, &mut out);
    lone_schema_definition(m, &mut out);
    unique_operation_types(m, &mut out);
    unique_type_names(m, &mut out);
    unique_directive_names(m, p, &mut out);
    possible_extensions(m, &mut out);
    query_root_present(m, &mut out);
    root_types_are_objects(m, &mut out);
    root_types_distinct(m, &mut out);
    non_empty_types(m, &mut out);
    unique_field_names(m, &mut out);
    unique_argument_definition_names(m, &mut out);
    unique_enum_value_names(m, &mut out);
    unique_union_members(m, &mut out);
    unique_implements(m, &mut out);
    reserved_names(m, &mut out);
    known_type_names(m, &mut out);
    output_field_types(m, &mut out);
    input_argument_types(m, &mut out);
    union_members_are_objects(m, &mut out);
    implements_interfaces(m, &mut out);
    no_self_implementation(m, &mut out);
    transitive_interfaces(m, &mut out);
    implementation_contract(m, &mut out);
    input_object_cycles(m, &mut out);
    known_directives(m, &mut out);
    directive_locations(m, &mut out);
    unique_directives_per_location(m, &mut out);
    known_directive_arguments(m, &mut out);
    unique_directive_argument_names(m, &mut out);
    required_directive_arguments(m, &mut out);
    directive_argument_values(m, p, &mut out);
    unique_input_field_names(m, p, &mut out);
    default_values(m, p, &mut out);
    no_variables_in_const_values(m, &mut out);
    out
}

/// All violations of the type-system rules in `doc`. Accept ⇔ empty.
pub fn validate(doc: &Document, p: &Params) -> Vec<Violation> {
    validate_merged(&merge(doc, p), p)
}

/// The distinct rule names that fired, in `RULES` order.
pub fn rules_fired(violations: &[Violation]) -> Vec<&'static str> {
    RULES.iter().copied().filter(|r| violations.iter().any(|x| x.rule == *r)).collect()
}

#[cfg(test)]
mod tests {
    use super::*;
    use crate::sdl::must;

    fn fired(text: &str) -> Vec<&'static str> {
        rules_fired(&validate(&must(text), &Params::apollo_documented()))
    }
    fn valid(text: &str) -> bool {
        fired(text).is_empty()
    }

    /// /verif/calibration/c14_schema_cases.tsv: 76 schemas whose expected verdicts apollo-compiler
    /// agreed with during the design phase.
    #[test]
    fn calibration_table() {
        let table = include_str!("../../../calibration/c14_schema_cases.tsv");
        let mut n = 0;
        for line in table.lines() {
            if line.starts_with('#') || line.starts_with("expected_valid") || line.trim().is_empty() {
                continue;
            }
            let (exp, schema) = line.split_once('\t').expect("two columns");
            let exp = match exp {
                "true" => true,
                "false" => false,
                other => panic!("bad verdict {other}"),
            };
            let doc = must(schema);
            assert_eq!(must(&doc.print()), doc, "printer/parser round trip: {schema}");
            let f = fired(schema);
            assert_eq!(f.is_empty(), exp, "{schema}: fired {f:?}");
            n += 1;
        }
        assert_eq!(n, 76);
    }

    #[test]
    fn rule_names_are_listed() {
        let mut sorted = RULES.to_vec();
        sorted.sort();
        sorted.dedup();
        assert_eq!(sorted.len(), RULES.len());
    }

    /// Each calibration row fires the rule it was written for.
    #[test]
    fn rules_by_name() {
        let cases: &[(&str, &[&str])] = &[
            ("type Q { a: Int }", &["QueryRootPresent"]),
            ("schema { query: I } interface I { a: Int }", &["RootTypesAreObjects"]),
            ("schema { query: U } type Q { a: Int }", &["KnownTypeNames"]),
            ("schema { query: Q mutation: Q } type Q { a: Int }", &["RootTypesDistinct"]),
            ("schema { query: Q query: Q } type Q { a: Int }", &["UniqueOperationTypes"]),
            ("type Query { a: In } input In { x: Int }", &["OutputFieldTypes"]),
            ("type Query { a(x: Query): Int }", &["InputArgumentTypes"]),
            ("type Query { a: Undefined }", &["KnownTypeNames"]),
            ("type Query", &["NonEmptyTypes"]),
            ("type Query { a: Int } union U = Query | Query", &["UniqueUnionMembers"]),
            ("type Query { a: Int } union U = I interface I { a: Int }", &["UnionMembersAreObjects"]),
            ("type Query { a: Int } enum E { A A }", &["UniqueEnumValueNames"]),
            ("type Query { a: Int a: Int }", &["UniqueFieldNames"]),
            ("type Query { a(x: Int, x: Int): Int }", &["UniqueArgumentDefinitionNames"]),
            ("type Query { a: Int } type Query { b: Int }", &["UniqueTypeNames"]),
            ("type Query { a: Int } directive @d on FIELD directive @d on FIELD", &["UniqueDirectiveNames"]),
            ("type Query { a: Int } type __T { a: Int }", &["ReservedNames"]),
            ("type Query implements Nope { a: Int }", &["KnownTypeNames"]),
            ("type Query implements U { a: Int } union U = Query", &["ImplementsInterfaces"]),
            ("type Query { a: Int } interface I implements I { a: Int }", &["NoSelfImplementation"]),
            ("type Query implements I & I { a: Int } interface I { a: Int }", &["UniqueImplements"]),
            (
                "type Query implements I { a: Int } interface I implements J { a: Int } interface J { a: Int }",
                &["TransitiveInterfaces"],
            ),
            ("type Query implements I { b: Int } interface I { a: Int }", &["Implementation.FieldPresent"]),
            ("type Query implements I { a: String } interface I { a: Int }", &["Implementation.FieldType"]),
            ("type Query implements I { a: Int } interface I { a(x: Int): Int }", &["Implementation.ArgumentPresent"]),
            (
                "type Query implements I { a(x: String): Int } interface I { a(x: Int): Int }",
                &["Implementation.ArgumentType"],
            ),
            (
                "type Query implements I { a(x: Int, y: Int!): Int } interface I { a(x: Int): Int }",
                &["Implementation.NoExtraRequiredArgument"],
            ),
            ("type Query { a: Int } input In { x: In! }", &["InputObjectCycles"]),
            ("type Query { a: Int } input A { b: B! } input B { c: C! } input C { a: A! }", &["InputObjectCycles"]),
            ("type Query @nope { a: Int }", &["KnownDirectives"]),
            ("type Query @d { a: Int } directive @d on FIELD", &["DirectiveLocations"]),
            ("type Query @d @d { a: Int } directive @d on OBJECT", &["UniqueDirectivesPerLocation"]),
            ("type Query @d { a: Int } extend type Query @d directive @d on OBJECT", &["UniqueDirectivesPerLocation"]),
            ("type Query @d { a: Int } directive @d(x: Int!) on OBJECT", &["RequiredDirectiveArguments"]),
            ("type Query @d(x: null) { a: Int } directive @d(x: Int!) on OBJECT", &["DirectiveArgumentValues"]),
            ("type Query @d(y: 1) { a: Int } directive @d(x: Int) on OBJECT", &["KnownDirectiveArguments"]),
            ("type Query @d(x: 1, x: 1) { a: Int } directive @d(x: Int) on OBJECT", &["UniqueDirectiveArgumentNames"]),
            ("type Query @d(x: \"s\") { a: Int } directive @d(x: Int) on OBJECT", &["DirectiveArgumentValues"]),
            (
                "type Query @d(x: {a: 1, a: 1}) { a: Int } directive @d(x: S) on OBJECT scalar S",
                &["UniqueInputFieldNames"],
            ),
            (
                "type Query { a: Int } directive @skip(if: Boolean!) on FIELD directive @skip(if: Boolean!) on FIELD",
                &["UniqueDirectiveNames"],
            ),
            ("type Query { a: Int } extend type Nope { b: Int }", &["PossibleExtensions"]),
            ("type Query { a: Int } extend interface Query { b: Int }", &["PossibleExtensions"]),
            ("extend interface Query { b: Int } type Query { a: Int }", &["PossibleExtensions"]),
            ("type Query { a: Int } { a }", &["ExecutableDefinitions"]),
            ("type Query { a: Int } schema { query: Query } schema { query: Query }", &["LoneSchemaDefinition"]),
            ("extend schema { query: Q } type Q { a: Int }", &["PossibleExtensions", "QueryRootPresent"]),
            ("type Query { a: Int } directive @d(x: Query) on FIELD", &["InputArgumentTypes"]),
            ("type Query { a: Int } directive @d(x: Int, x: Int) on FIELD", &["UniqueArgumentDefinitionNames"]),
            ("type Query { a: Int @skip(if: true) }", &["DirectiveLocations"]),
            ("scalar S @specifiedBy type Query { a: S }", &["RequiredDirectiveArguments"]),
        ];
        for (text, expect) in cases {
            assert_eq!(fired(text), *expect, "{text}");
        }
    }

    /// Spec §3.6 examples 62–64 (object fields / arguments), §3.7 examples 67–73 (interfaces
    /// implementing interfaces, covariance), §3.10 examples 82–85 (circular input objects).
    #[test]
    fn spec_examples() {
        // Example № 69-70: transitive interface
        assert!(valid(
            "type Query { n: Node } interface Node { id: ID! } interface Resource implements Node { id: ID! url: String } \
             interface Image implements Resource & Node { id: ID! url: String thumbnail: String }"
        ));
        // counter-example: Image implements Resource without Node
        assert_eq!(
            fired(
                "type Query { n: Node } interface Node { id: ID! } interface Resource implements Node { id: ID! url: String } \
                 interface Image implements Resource { id: ID! url: String thumbnail: String }"
            ),
            ["TransitiveInterfaces"]
        );
        // Counter Example № 71-72: cyclic interfaces
        assert!(!valid(
            "type Query { a: Int } interface Node implements Named & Node { id: ID! name: String } \
             interface Named implements Node & Named { id: ID! name: String }"
        ));
        // §3.6: covariant field types (object for interface, object for union, non-null for nullable,
        // list of sub-type)
        assert!(valid(
            "type Query implements I { a: Query! b: [Query!]! c: Query } interface I { a: I b: [I] c: U } union U = Query"
        ));
        assert!(!valid("type Query implements I { a: [I] } interface I { a: [I]! }"));
        assert!(!valid("type Query implements I { a: Int } interface I { a: [Int] }"));
        assert!(!valid("type Query implements I { a: [Int] } interface I { a: Int }"));
        assert!(!valid("type Query implements I { a: [Query]! } interface I { a: [Query!] }"));
        // object may declare extra fields and extra optional arguments
        assert!(valid("type Query implements I { a(x: Int, y: Int): Int b: Int } interface I { a(x: Int): Int }"));
        // Example № 82-85 input objects
        assert!(valid("type Query { a: Int } input Example { self: Example value: String }"));
        assert!(valid("type Query { a: Int } input Example { self: [Example!]! value: String }"));
        assert!(!valid("type Query { a: Int } input Example { value: String self: Example! }"));
        assert!(!valid(
            "type Query { a: Int } input First { second: Second! value: String } input Second { first: First! value: String }"
        ));
        // a cycle that does not include the type under inspection: only B and C are reported
        let vs = validate(
            &must("type Query { a: Int } input A { b: B! } input B { c: C! } input C { b: B! }"),
            &Params::apollo_documented(),
        );
        let subjects: Vec<&str> = vs.iter().map(|x| x.subject.as_str()).collect();
        assert_eq!(subjects, ["B", "C"]);
        // §3.3: default root names, explicit schema definition overrides them
        assert!(valid("type Query { a: Int } type Mutation { b: Int }"));
        assert!(!valid("schema { mutation: Mutation } type Query { a: Int } type Mutation { b: Int }"));
        assert!(valid("schema { query: MyQueryRootType } type MyQueryRootType { someField: String }"));
        // §3.5.? built-in scalars need no definition, custom scalars do
        assert!(valid("type Query { a: DateTime } scalar DateTime @specifiedBy(url: \"https://tools.ietf.org/html/rfc3339\")"));
        assert!(!valid("type Query { a: DateTime }"));
        // §3.13 directives: example № 97-98
        assert!(valid(
            "directive @example on FIELD_DEFINITION | ARGUMENT_DEFINITION type Query { field(arg: Int @example): String @example }"
        ));
        assert!(valid("directive @delegateField(name: String!) repeatable on OBJECT | INTERFACE \
                       type Query @delegateField(name: \"a\") { a: Int } extend type Query @delegateField(name: \"b\")"));
        // §3.13.3 @deprecated
        assert!(valid("type Query { newField: String oldField: String @deprecated(reason: \"Use `newField`.\") }"));
    }

    #[test]
    fn parameters() {
        let mut p = Params::apollo_documented();
        let bad_arg = must("type Query @d(x: \"s\") { a: Int } directive @d(x: Int) on OBJECT");
        assert!(!validate(&bad_arg, &p).is_empty());
        p.check_directive_argument_values = false;
        assert!(validate(&bad_arg, &p).is_empty());
        let bad_default = must("type Query { a(x: Int = \"s\"): Int }");
        assert!(validate(&bad_default, &p).is_empty());
        p.validate_default_values = true;
        assert_eq!(rules_fired(&validate(&bad_default, &p)), ["DefaultValues"]);
        let redefine = must("type Query { a: Int } directive @skip(if: Boolean!) on FIELD");
        assert!(validate(&redefine, &p).is_empty());
        p.builtin_directive_redefinitions_allowed = 0;
        assert_eq!(rules_fired(&validate(&redefine, &p)), ["UniqueDirectiveNames"]);
        // a redefinition replaces the built-in for the applications in the document
        let mut p = Params::apollo_documented();
        let moved = must("type Query @deprecated { a: Int } directive @deprecated on OBJECT");
        assert!(validate(&moved, &p).is_empty());
        let moved2 = must("type Query { a: Int @deprecated } directive @deprecated on OBJECT");
        assert_eq!(rules_fired(&validate(&moved2, &p)), ["DirectiveLocations"]);
        // deviation switches
        let orphan = must("extend interface Query { b: Int } type Query { a: Int }");
        assert!(!validate(&orphan, &p).is_empty());
        p.dev.orphan_extension_kind_mismatch_ignored = true;
        assert!(validate(&orphan, &p).is_empty());
        let orphan_needed = must("extend interface Query { a: Int } type Query");
        assert_eq!(rules_fired(&validate(&orphan_needed, &p)), ["NonEmptyTypes"]);
        let after = must("type Query { a: Int } extend interface Query { b: Int }");
        assert!(!validate(&after, &p).is_empty());
    }
}
