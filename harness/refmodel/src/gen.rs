//! `derive`: deterministic, index-addressable enumeration of mini-AST documents by size from a
//! generative grammar whose productions mirror the October 2021 grammar (DESIGN.md §4, §5.3).
//!
//! * A derivation is a tree of production applications; its **size** is the sum of the costs of
//!   the productions applied (cost table below: productions that emit syntax cost 1 or more,
//!   ε / unit / "optional part absent" productions cost 0).
//! * [`Derive::new(max)`] counts the derivations of `Document` of every size `<= max`;
//!   [`Derive::nth`] unranks the `i`-th one (size first, then production order, then the sizes
//!   and ranks of the children left to right). No randomness, no state: index ranges can be
//!   sharded freely.
//! * Lists (`X+`) are derived with one or two elements (two are enough to see every separator);
//!   documents have one to three definitions.
//! * Names come from tiny pools, chosen by *position*: the first element of a list gets the
//!   plain name (`a`, `v`, `d` …), the second one a name that is also a keyword of the grammar
//!   (`type`, `on`, `query`, `schema` …) — keywords are not reserved in GraphQL.
//! * Every production has a usage counter (`usage[p as usize]` is incremented per application);
//!   the evidence lists productions with zero uses.
//! * One filter: the anonymous-query shorthand `{ … }` directly after a definition that ends in
//!   an *absent optional brace block* (`type T`, `extend schema @d`, …) is not derivable in the
//!   spec's grammar (`[lookahead != {]`), so `nth` returns `None` for those derivations.

use crate::ast::*;

#[derive(Clone, Copy, PartialEq, Eq, Debug, PartialOrd, Ord)]
#[repr(u8)]
pub enum Nt {
    Document,
    Definition,
    ExecutableDefinition,
    OperationDefinition,
    OperationType,
    OptName,
    OptVariableDefinitions,
    VariableDefinitions,
    VariableDefinition,
    OptDefaultValue,
    Type,
    ListType,
    NonNullType,
    OptDirectives,
    Directives,
    Directive,
    OptDirectivesConst,
    DirectivesConst,
    DirectiveConst,
    OptArguments,
    Arguments,
    Argument,
    OptArgumentsConst,
    ArgumentsConst,
    ArgumentConst,
    Value,
    ListValue,
    ObjectValue,
    ConstValue,
    ListValueConst,
    ObjectValueConst,
    StringValue,
    BooleanValue,
    SelectionSet,
    Selection,
    Field,
    OptAlias,
    OptSelectionSet,
    FragmentSpread,
    InlineFragment,
    OptTypeCondition,
    FragmentDefinition,
    TypeSystemDefinition,
    SchemaDefinition,
    RootOperationTypeDefinitions,
    OptDescription,
    TypeDefinition,
    ScalarTypeDefinition,
    ObjectTypeDefinition,
    OptImplementsInterfaces,
    ImplementsInterfaces,
    OptFieldsDefinition,
    FieldsDefinition,
    FieldDefinition,
    OptArgumentsDefinition,
    ArgumentsDefinition,
    InputValueDefinition,
    InterfaceTypeDefinition,
    UnionTypeDefinition,
    OptUnionMemberTypes,
    UnionMemberTypes,
    EnumTypeDefinition,
    OptEnumValuesDefinition,
    EnumValuesDefinition,
    EnumValueDefinition,
    InputObjectTypeDefinition,
    OptInputFieldsDefinition,
    InputFieldsDefinition,
    DirectiveDefinition,
    OptRepeatable,
    DirectiveLocations,
    DirectiveLocation,
    ExecutableDirectiveLocation,
    TypeSystemDirectiveLocation,
    TypeSystemExtension,
    SchemaExtension,
    TypeExtension,
    ScalarTypeExtension,
    ObjectTypeExtension,
    InterfaceTypeExtension,
    UnionTypeExtension,
    EnumTypeExtension,
    InputObjectTypeExtension,
}
const NT_COUNT: usize = Nt::InputObjectTypeExtension as usize + 1;

pub struct Prod {
    pub p: P,
    pub name: &'static str,
    pub lhs: Nt,
    pub cost: u32,
    pub rhs: &'static [Nt],
}

macro_rules! grammar {
    ($( $p:ident : $lhs:ident -> [$($rhs:ident),*] $c:expr ;)*) => {
        /// Production identifiers, in table order.
        #[allow(non_camel_case_types)]
        #[derive(Clone, Copy, PartialEq, Eq, Debug, PartialOrd, Ord)]
        #[repr(u16)]
        pub enum P { $($p),* }
        pub const PRODS: &[Prod] = &[
            $(Prod { p: P::$p, name: stringify!($p), lhs: Nt::$lhs, cost: $c, rhs: &[$(Nt::$rhs),*] }),*
        ];
    };
}

grammar! {
    // ---- Document : Definition+ (1..3)
    Document1: Document -> [Definition] 0;
    Document2: Document -> [Definition, Definition] 1;
    Document3: Document -> [Definition, Definition, Definition] 2;
    DefinitionExecutable: Definition -> [ExecutableDefinition] 0;
    DefinitionTypeSystem: Definition -> [TypeSystemDefinition] 0;
    DefinitionTypeSystemExtension: Definition -> [TypeSystemExtension] 0;
    ExecutableOperation: ExecutableDefinition -> [OperationDefinition] 0;
    ExecutableFragment: ExecutableDefinition -> [FragmentDefinition] 0;

    // ---- OperationDefinition : SelectionSet | OperationType Name? VariableDefinitions? Directives? SelectionSet
    OperationShorthand: OperationDefinition -> [SelectionSet] 0;
    OperationFull: OperationDefinition -> [OperationType, OptName, OptVariableDefinitions, OptDirectives, SelectionSet] 0;
    OperationTypeQuery: OperationType -> [] 1;
    OperationTypeMutation: OperationType -> [] 1;
    OperationTypeSubscription: OperationType -> [] 1;
    NameAbsent: OptName -> [] 0;
    NamePresent: OptName -> [] 1;

    // ---- VariableDefinitions : ( VariableDefinition+ )
    VariableDefinitionsAbsent: OptVariableDefinitions -> [] 0;
    VariableDefinitionsPresent: OptVariableDefinitions -> [VariableDefinitions] 0;
    VariableDefinitions1: VariableDefinitions -> [VariableDefinition] 0;
    VariableDefinitions2: VariableDefinitions -> [VariableDefinition, VariableDefinition] 1;
    VariableDefinitionP: VariableDefinition -> [Type, OptDefaultValue, OptDirectivesConst] 1;
    DefaultValueAbsent: OptDefaultValue -> [] 0;
    DefaultValuePresent: OptDefaultValue -> [ConstValue] 0;

    // ---- Type : NamedType | ListType | NonNullType
    TypeNamed: Type -> [] 0;
    TypeList: Type -> [ListType] 0;
    TypeNonNull: Type -> [NonNullType] 0;
    ListTypeP: ListType -> [Type] 1;
    NonNullNamed: NonNullType -> [] 1;
    NonNullList: NonNullType -> [ListType] 1;

    // ---- Directives : Directive+ ; Directive : @ Name Arguments?
    DirectivesAbsent: OptDirectives -> [] 0;
    DirectivesPresent: OptDirectives -> [Directives] 0;
    Directives1: Directives -> [Directive] 0;
    Directives2: Directives -> [Directive, Directive] 1;
    DirectiveP: Directive -> [OptArguments] 1;
    DirectivesConstAbsent: OptDirectivesConst -> [] 0;
    DirectivesConstPresent: OptDirectivesConst -> [DirectivesConst] 0;
    DirectivesConst1: DirectivesConst -> [DirectiveConst] 0;
    DirectivesConst2: DirectivesConst -> [DirectiveConst, DirectiveConst] 1;
    DirectiveConstP: DirectiveConst -> [OptArgumentsConst] 1;

    // ---- Arguments : ( Argument+ ) ; Argument : Name : Value
    ArgumentsAbsent: OptArguments -> [] 0;
    ArgumentsPresent: OptArguments -> [Arguments] 0;
    Arguments1: Arguments -> [Argument] 0;
    Arguments2: Arguments -> [Argument, Argument] 0;
    ArgumentP: Argument -> [Value] 1;
    ArgumentsConstAbsent: OptArgumentsConst -> [] 0;
    ArgumentsConstPresent: OptArgumentsConst -> [ArgumentsConst] 0;
    ArgumentsConst1: ArgumentsConst -> [ArgumentConst] 0;
    ArgumentsConst2: ArgumentsConst -> [ArgumentConst, ArgumentConst] 0;
    ArgumentConstP: ArgumentConst -> [ConstValue] 1;

    // ---- Value : Variable | IntValue | FloatValue | StringValue | BooleanValue | NullValue | EnumValue | ListValue | ObjectValue
    ValueVariable: Value -> [] 1;
    ValueInt: Value -> [] 1;
    ValueFloat: Value -> [] 1;
    ValueString: Value -> [StringValue] 0;
    ValueBoolean: Value -> [BooleanValue] 0;
    ValueNull: Value -> [] 1;
    ValueEnum: Value -> [] 1;
    ValueList: Value -> [ListValue] 0;
    ValueObject: Value -> [ObjectValue] 0;
    ListValueEmpty: ListValue -> [] 1;
    ListValue1: ListValue -> [Value] 1;
    ListValue2: ListValue -> [Value, Value] 1;
    ObjectValueEmpty: ObjectValue -> [] 1;
    ObjectValue1: ObjectValue -> [Value] 1;
    ObjectValue2: ObjectValue -> [Value, Value] 1;
    ConstInt: ConstValue -> [] 1;
    ConstFloat: ConstValue -> [] 1;
    ConstString: ConstValue -> [StringValue] 0;
    ConstBoolean: ConstValue -> [BooleanValue] 0;
    ConstNull: ConstValue -> [] 1;
    ConstEnum: ConstValue -> [] 1;
    ConstList: ConstValue -> [ListValueConst] 0;
    ConstObject: ConstValue -> [ObjectValueConst] 0;
    ListValueConstEmpty: ListValueConst -> [] 1;
    ListValueConst1: ListValueConst -> [ConstValue] 1;
    ListValueConst2: ListValueConst -> [ConstValue, ConstValue] 1;
    ObjectValueConstEmpty: ObjectValueConst -> [] 1;
    ObjectValueConst1: ObjectValueConst -> [ConstValue] 1;
    ObjectValueConst2: ObjectValueConst -> [ConstValue, ConstValue] 1;
    StringPlain: StringValue -> [] 1;
    StringWithNewline: StringValue -> [] 2;
    BooleanTrue: BooleanValue -> [] 1;
    BooleanFalse: BooleanValue -> [] 1;

    // ---- SelectionSet : { Selection+ } ; Selection : Field | FragmentSpread | InlineFragment
    SelectionSet1: SelectionSet -> [Selection] 0;
    SelectionSet2: SelectionSet -> [Selection, Selection] 1;
    SelectionField: Selection -> [Field] 0;
    SelectionFragmentSpread: Selection -> [FragmentSpread] 0;
    SelectionInlineFragment: Selection -> [InlineFragment] 0;
    FieldP: Field -> [OptAlias, OptArguments, OptDirectives, OptSelectionSet] 1;
    AliasAbsent: OptAlias -> [] 0;
    AliasPresent: OptAlias -> [] 1;
    SelectionSetAbsent: OptSelectionSet -> [] 0;
    SelectionSetPresent: OptSelectionSet -> [SelectionSet] 0;
    FragmentSpreadP: FragmentSpread -> [OptDirectives] 1;
    InlineFragmentP: InlineFragment -> [OptTypeCondition, OptDirectives, SelectionSet] 1;
    TypeConditionAbsent: OptTypeCondition -> [] 0;
    TypeConditionPresent: OptTypeCondition -> [] 1;
    FragmentDefinitionP: FragmentDefinition -> [OptDirectives, SelectionSet] 1;

    // ---- TypeSystemDefinition : SchemaDefinition | TypeDefinition | DirectiveDefinition
    TypeSystemSchema: TypeSystemDefinition -> [SchemaDefinition] 0;
    TypeSystemType: TypeSystemDefinition -> [TypeDefinition] 0;
    TypeSystemDirective: TypeSystemDefinition -> [DirectiveDefinition] 0;
    SchemaDefinitionP: SchemaDefinition -> [OptDescription, OptDirectivesConst, RootOperationTypeDefinitions] 1;
    RootOperationTypes1: RootOperationTypeDefinitions -> [] 1;
    RootOperationTypes2: RootOperationTypeDefinitions -> [] 2;
    RootOperationTypes3: RootOperationTypeDefinitions -> [] 3;
    DescriptionAbsent: OptDescription -> [] 0;
    DescriptionPresent: OptDescription -> [StringValue] 0;

    TypeDefinitionScalar: TypeDefinition -> [ScalarTypeDefinition] 0;
    TypeDefinitionObject: TypeDefinition -> [ObjectTypeDefinition] 0;
    TypeDefinitionInterface: TypeDefinition -> [InterfaceTypeDefinition] 0;
    TypeDefinitionUnion: TypeDefinition -> [UnionTypeDefinition] 0;
    TypeDefinitionEnum: TypeDefinition -> [EnumTypeDefinition] 0;
    TypeDefinitionInputObject: TypeDefinition -> [InputObjectTypeDefinition] 0;

    ScalarTypeDefinitionP: ScalarTypeDefinition -> [OptDescription, OptDirectivesConst] 1;
    ObjectTypeDefinitionP: ObjectTypeDefinition -> [OptDescription, OptImplementsInterfaces, OptDirectivesConst, OptFieldsDefinition] 1;
    ImplementsInterfacesAbsent: OptImplementsInterfaces -> [] 0;
    ImplementsInterfacesPresent: OptImplementsInterfaces -> [ImplementsInterfaces] 0;
    ImplementsInterfaces1: ImplementsInterfaces -> [] 1;
    ImplementsInterfaces2: ImplementsInterfaces -> [] 2;
    FieldsDefinitionAbsent: OptFieldsDefinition -> [] 0;
    FieldsDefinitionPresent: OptFieldsDefinition -> [FieldsDefinition] 0;
    FieldsDefinition1: FieldsDefinition -> [FieldDefinition] 0;
    FieldsDefinition2: FieldsDefinition -> [FieldDefinition, FieldDefinition] 1;
    FieldDefinitionP: FieldDefinition -> [OptDescription, OptArgumentsDefinition, Type, OptDirectivesConst] 1;
    ArgumentsDefinitionAbsent: OptArgumentsDefinition -> [] 0;
    ArgumentsDefinitionPresent: OptArgumentsDefinition -> [ArgumentsDefinition] 0;
    ArgumentsDefinition1: ArgumentsDefinition -> [InputValueDefinition] 0;
    ArgumentsDefinition2: ArgumentsDefinition -> [InputValueDefinition, InputValueDefinition] 1;
    InputValueDefinitionP: InputValueDefinition -> [OptDescription, Type, OptDefaultValue, OptDirectivesConst] 1;
    InterfaceTypeDefinitionP: InterfaceTypeDefinition -> [OptDescription, OptImplementsInterfaces, OptDirectivesConst, OptFieldsDefinition] 1;
    UnionTypeDefinitionP: UnionTypeDefinition -> [OptDescription, OptDirectivesConst, OptUnionMemberTypes] 1;
    UnionMemberTypesAbsent: OptUnionMemberTypes -> [] 0;
    UnionMemberTypesPresent: OptUnionMemberTypes -> [UnionMemberTypes] 0;
    UnionMemberTypes1: UnionMemberTypes -> [] 1;
    UnionMemberTypes2: UnionMemberTypes -> [] 2;
    EnumTypeDefinitionP: EnumTypeDefinition -> [OptDescription, OptDirectivesConst, OptEnumValuesDefinition] 1;
    EnumValuesDefinitionAbsent: OptEnumValuesDefinition -> [] 0;
    EnumValuesDefinitionPresent: OptEnumValuesDefinition -> [EnumValuesDefinition] 0;
    EnumValuesDefinition1: EnumValuesDefinition -> [EnumValueDefinition] 0;
    EnumValuesDefinition2: EnumValuesDefinition -> [EnumValueDefinition, EnumValueDefinition] 1;
    EnumValueDefinitionP: EnumValueDefinition -> [OptDescription, OptDirectivesConst] 1;
    InputObjectTypeDefinitionP: InputObjectTypeDefinition -> [OptDescription, OptDirectivesConst, OptInputFieldsDefinition] 1;
    InputFieldsDefinitionAbsent: OptInputFieldsDefinition -> [] 0;
    InputFieldsDefinitionPresent: OptInputFieldsDefinition -> [InputFieldsDefinition] 0;
    InputFieldsDefinition1: InputFieldsDefinition -> [InputValueDefinition] 0;
    InputFieldsDefinition2: InputFieldsDefinition -> [InputValueDefinition, InputValueDefinition] 1;

    // ---- DirectiveDefinition : Description? directive @ Name ArgumentsDefinition? repeatable? on DirectiveLocations
    DirectiveDefinitionP: DirectiveDefinition -> [OptDescription, OptArgumentsDefinition, OptRepeatable, DirectiveLocations] 1;
    RepeatableAbsent: OptRepeatable -> [] 0;
    RepeatablePresent: OptRepeatable -> [] 1;
    DirectiveLocations1: DirectiveLocations -> [DirectiveLocation] 0;
    DirectiveLocations2: DirectiveLocations -> [DirectiveLocation, DirectiveLocation] 2;
    DirectiveLocationExecutable: DirectiveLocation -> [ExecutableDirectiveLocation] 0;
    DirectiveLocationTypeSystem: DirectiveLocation -> [TypeSystemDirectiveLocation] 0;
    LocQUERY: ExecutableDirectiveLocation -> [] 1;
    LocMUTATION: ExecutableDirectiveLocation -> [] 1;
    LocSUBSCRIPTION: ExecutableDirectiveLocation -> [] 1;
    LocFIELD: ExecutableDirectiveLocation -> [] 1;
    LocFRAGMENT_DEFINITION: ExecutableDirectiveLocation -> [] 1;
    LocFRAGMENT_SPREAD: ExecutableDirectiveLocation -> [] 1;
    LocINLINE_FRAGMENT: ExecutableDirectiveLocation -> [] 1;
    LocVARIABLE_DEFINITION: ExecutableDirectiveLocation -> [] 1;
    LocSCHEMA: TypeSystemDirectiveLocation -> [] 1;
    LocSCALAR: TypeSystemDirectiveLocation -> [] 1;
    LocOBJECT: TypeSystemDirectiveLocation -> [] 1;
    LocFIELD_DEFINITION: TypeSystemDirectiveLocation -> [] 1;
    LocARGUMENT_DEFINITION: TypeSystemDirectiveLocation -> [] 1;
    LocINTERFACE: TypeSystemDirectiveLocation -> [] 1;
    LocUNION: TypeSystemDirectiveLocation -> [] 1;
    LocENUM: TypeSystemDirectiveLocation -> [] 1;
    LocENUM_VALUE: TypeSystemDirectiveLocation -> [] 1;
    LocINPUT_OBJECT: TypeSystemDirectiveLocation -> [] 1;
    LocINPUT_FIELD_DEFINITION: TypeSystemDirectiveLocation -> [] 1;

    // ---- TypeSystemExtension : SchemaExtension | TypeExtension (each alternative of the spec)
    ExtensionSchema: TypeSystemExtension -> [SchemaExtension] 0;
    ExtensionType: TypeSystemExtension -> [TypeExtension] 0;
    SchemaExtensionWithRoots: SchemaExtension -> [OptDirectivesConst, RootOperationTypeDefinitions] 1;
    SchemaExtensionDirectivesOnly: SchemaExtension -> [DirectivesConst] 1;
    TypeExtensionScalar: TypeExtension -> [ScalarTypeExtension] 0;
    TypeExtensionObject: TypeExtension -> [ObjectTypeExtension] 0;
    TypeExtensionInterface: TypeExtension -> [InterfaceTypeExtension] 0;
    TypeExtensionUnion: TypeExtension -> [UnionTypeExtension] 0;
    TypeExtensionEnum: TypeExtension -> [EnumTypeExtension] 0;
    TypeExtensionInputObject: TypeExtension -> [InputObjectTypeExtension] 0;
    ScalarTypeExtensionP: ScalarTypeExtension -> [DirectivesConst] 1;
    ObjectTypeExtensionFields: ObjectTypeExtension -> [OptImplementsInterfaces, OptDirectivesConst, FieldsDefinition] 1;
    ObjectTypeExtensionDirectives: ObjectTypeExtension -> [OptImplementsInterfaces, DirectivesConst] 1;
    ObjectTypeExtensionImplements: ObjectTypeExtension -> [ImplementsInterfaces] 1;
    InterfaceTypeExtensionFields: InterfaceTypeExtension -> [OptImplementsInterfaces, OptDirectivesConst, FieldsDefinition] 1;
    InterfaceTypeExtensionDirectives: InterfaceTypeExtension -> [OptImplementsInterfaces, DirectivesConst] 1;
    InterfaceTypeExtensionImplements: InterfaceTypeExtension -> [ImplementsInterfaces] 1;
    UnionTypeExtensionMembers: UnionTypeExtension -> [OptDirectivesConst, UnionMemberTypes] 1;
    UnionTypeExtensionDirectives: UnionTypeExtension -> [DirectivesConst] 1;
    EnumTypeExtensionValues: EnumTypeExtension -> [OptDirectivesConst, EnumValuesDefinition] 1;
    EnumTypeExtensionDirectives: EnumTypeExtension -> [DirectivesConst] 1;
    InputObjectTypeExtensionFields: InputObjectTypeExtension -> [OptDirectivesConst, InputFieldsDefinition] 1;
    InputObjectTypeExtensionDirectives: InputObjectTypeExtension -> [DirectivesConst] 1;
}

pub fn production_count() -> usize {
    PRODS.len()
}
pub fn production_name(i: usize) -> &'static str {
    PRODS[i].name
}

/// One application of a production.
#[derive(Clone, Debug, PartialEq, Eq)]
pub struct Tree {
    pub p: P,
    pub kids: Vec<Tree>,
}

/// Counting tables for `Document` derivations up to `max_size`.
pub struct Derive {
    pub max_size: u32,
    /// prods_of[nt] = indices into PRODS
    prods_of: Vec<Vec<usize>>,
    /// cnt[nt][n] = number of derivations of `nt` with size exactly n
    cnt: Vec<Vec<u64>>,
    /// seq[p][k][m] = number of ways rhs[k..] of production p derives total size m
    seq: Vec<Vec<Vec<u64>>>,
    /// cumulative number of documents with size < n
    before: Vec<u64>,
}

impl Derive {
    pub fn new(max_size: u32) -> Derive {
        for (i, p) in PRODS.iter().enumerate() {
            assert_eq!(p.p as usize, i);
        }
        let n = max_size as usize;
        let mut prods_of = vec![Vec::new(); NT_COUNT];
        for (i, p) in PRODS.iter().enumerate() {
            prods_of[p.lhs as usize].push(i);
        }
        for (nt, ps) in prods_of.iter().enumerate() {
            assert!(!ps.is_empty(), "nonterminal #{nt} has no production");
        }
        let mut d = Derive {
            max_size,
            prods_of,
            cnt: vec![vec![0; n + 1]; NT_COUNT],
            seq: PRODS.iter().map(|p| vec![vec![0; n + 1]; p.rhs.len() + 1]).collect(),
            before: Vec::new(),
        };
        // memoised evaluation; zero-cost chains are resolved by recursion (cycle = bug)
        let mut state = vec![vec![0u8; n + 1]; NT_COUNT]; // 0 new, 1 in progress, 2 done
        for size in 0..=n {
            for nt in 0..NT_COUNT {
                d.eval(nt, size, &mut state);
            }
        }
        // sequence tables
        for (pi, p) in PRODS.iter().enumerate() {
            let k = p.rhs.len();
            d.seq[pi][k][0] = 1;
            for j in (0..k).rev() {
                for m in 0..=n {
                    let mut s = 0u64;
                    for a in 0..=m {
                        s += d.cnt[p.rhs[j] as usize][a] * d.seq[pi][j + 1][m - a];
                    }
                    d.seq[pi][j][m] = s;
                }
            }
        }
        let mut acc = 0;
        for size in 0..=n {
            d.before.push(acc);
            acc += d.cnt[Nt::Document as usize][size];
        }
        d.before.push(acc);
        d
    }

    fn eval(&mut self, nt: usize, size: usize, state: &mut Vec<Vec<u8>>) -> u64 {
        match state[nt][size] {
            2 => return self.cnt[nt][size],
            1 => panic!("zero-cost cycle through nonterminal #{nt}"),
            _ => {}
        }
        state[nt][size] = 1;
        let mut total = 0u64;
        for pi in self.prods_of[nt].clone() {
            let p = &PRODS[pi];
            if (p.cost as usize) > size {
                continue;
            }
            total += self.eval_seq(p.rhs, size - p.cost as usize, state);
        }
        self.cnt[nt][size] = total;
        state[nt][size] = 2;
        total
    }

    fn eval_seq(&mut self, rhs: &[Nt], m: usize, state: &mut Vec<Vec<u8>>) -> u64 {
        match rhs.split_first() {
            None => (m == 0) as u64,
            Some((first, rest)) => {
                let mut s = 0u64;
                for a in 0..=m {
                    // evaluate the tail first: if it is impossible, the head need not be evaluated
                    // (this is what keeps `X -> Y Z` at equal size from looking like a cycle)
                    let tail = self.eval_seq(rest, m - a, state);
                    if tail == 0 {
                        continue;
                    }
                    let head = self.eval(*first as usize, a, state);
                    s += head * tail;
                }
                s
            }
        }
    }

    /// Number of derivations with size `<= max_size` (including the filtered ones).
    pub fn total(&self) -> u64 {
        *self.before.last().unwrap()
    }
    /// Number of derivations with exactly this size.
    pub fn count_of_size(&self, size: u32) -> u64 {
        self.cnt[Nt::Document as usize][size as usize]
    }

    /// The derivation tree with global index `idx` (`0 <= idx < total()`), and its size.
    pub fn tree(&self, idx: u64) -> (Tree, u32) {
        assert!(idx < self.total());
        let mut size = 0usize;
        while self.before[size + 1] <= idx {
            size += 1;
        }
        (self.unrank(Nt::Document, size, idx - self.before[size]), size as u32)
    }

    fn unrank(&self, nt: Nt, size: usize, mut idx: u64) -> Tree {
        for &pi in &self.prods_of[nt as usize] {
            let p = &PRODS[pi];
            if (p.cost as usize) > size {
                continue;
            }
            let m = size - p.cost as usize;
            let c = self.seq[pi][0][m];
            if idx < c {
                let mut kids = Vec::with_capacity(p.rhs.len());
                self.unrank_seq(pi, 0, m, idx, &mut kids);
                return Tree { p: p.p, kids };
            }
            idx -= c;
        }
        panic!("unrank: index out of range for {nt:?} size {size}");
    }

    fn unrank_seq(&self, pi: usize, k: usize, m: usize, mut idx: u64, out: &mut Vec<Tree>) {
        let rhs = PRODS[pi].rhs;
        if k == rhs.len() {
            debug_assert!(m == 0 && idx == 0);
            return;
        }
        for a in 0..=m {
            let ca = self.cnt[rhs[k] as usize][a];
            let cs = self.seq[pi][k + 1][m - a];
            let block = ca * cs;
            if idx < block {
                out.push(self.unrank(rhs[k], a, idx / cs));
                self.unrank_seq(pi, k + 1, m - a, idx % cs, out);
                return;
            }
            idx -= block;
        }
        panic!("unrank_seq: index out of range");
    }

    /// The `idx`-th document. `usage[p]` is incremented for every production applied (also for
    /// filtered derivations). `None`: the derivation puts the query shorthand after an absent
    /// optional brace block, which the grammar's `[lookahead != {]` excludes.
    pub fn nth(&self, idx: u64, usage: &mut [u32]) -> Option<Derived> {
        let (tree, size) = self.tree(idx);
        count_usage(&tree, usage);
        let document = build_document(&tree)?;
        Some(Derived { index: idx, size, document })
    }
}

#[derive(Clone, Debug)]
pub struct Derived {
    pub index: u64,
    pub size: u32,
    pub document: Document,
}

pub fn count_usage(t: &Tree, usage: &mut [u32]) {
    usage[t.p as usize] += 1;
    for k in &t.kids {
        count_usage(k, usage);
    }
}

/// All documents up to `max_size` as a deterministic `Vec` (small bounds / tests).
pub fn derive(max_size: u32) -> Vec<Derived> {
    let d = Derive::new(max_size);
    let mut usage = vec![0u32; PRODS.len()];
    (0..d.total()).filter_map(|i| d.nth(i, &mut usage)).collect()
}

// ---------------------------------------------------------------------------------
// Derivation tree -> mini-AST. Names are chosen by position (see the module comment).
// ---------------------------------------------------------------------------------

const FIELD_NAMES: [&str; 2] = ["a", "type"];
const ARG_NAMES: [&str; 2] = ["a", "on"];
const OBJ_FIELD_NAMES: [&str; 2] = ["a", "null"];
const VAR_NAMES: [&str; 2] = ["v", "query"];
const DIRECTIVE_NAMES: [&str; 2] = ["d", "schema"];
const INTERFACE_NAMES: [&str; 2] = ["I", "interface"];
const MEMBER_NAMES: [&str; 2] = ["T", "union"];
const ENUM_VALUE_NAMES: [&str; 2] = ["A", "extend"];
const INPUT_FIELD_NAMES: [&str; 2] = ["a", "input"];
const ARG_DEF_NAMES: [&str; 2] = ["a", "fragment"];
pub const STRING_PLAIN: &str = "s";
pub const STRING_WITH_NEWLINE: &str = "p\n  \n q";

fn opt(t: &Tree) -> Option<&Tree> {
    t.kids.first()
}
/// items of an optional list: `OptX -> ε | X`, `X -> item | item item`
fn opt_items(t: &Tree) -> &[Tree] {
    match t.kids.first() {
        Some(list) => &list.kids,
        None => &[],
    }
}

fn b_string(t: &Tree) -> String {
    match t.p {
        P::StringPlain => STRING_PLAIN.to_string(),
        P::StringWithNewline => STRING_WITH_NEWLINE.to_string(),
        p => unreachable!("{p:?}"),
    }
}

fn b_value(t: &Tree) -> Value {
    match t.p {
        P::ValueVariable => Value::var(VAR_NAMES[0]),
        P::ValueInt | P::ConstInt => Value::Int("7".into()),
        P::ValueFloat | P::ConstFloat => Value::Float("2.5e3".into()),
        P::ValueString | P::ConstString => Value::Str(b_string(&t.kids[0])),
        P::ValueBoolean | P::ConstBoolean => Value::Bool(t.kids[0].p == P::BooleanTrue),
        P::ValueNull | P::ConstNull => Value::Null,
        P::ValueEnum | P::ConstEnum => Value::en("EV"),
        P::ValueList | P::ConstList => Value::List(t.kids[0].kids.iter().map(b_value).collect()),
        P::ValueObject | P::ConstObject => Value::Object(
            t.kids[0]
                .kids
                .iter()
                .enumerate()
                .map(|(i, v)| (OBJ_FIELD_NAMES[i].to_string(), b_value(v)))
                .collect(),
        ),
        p => unreachable!("{p:?}"),
    }
}

fn b_args(items: &[Tree]) -> Vec<(Name, Value)> {
    items
        .iter()
        .enumerate()
        .map(|(i, a)| (ARG_NAMES[i].to_string(), b_value(&a.kids[0])))
        .collect()
}

fn b_directives(items: &[Tree]) -> Vec<Directive> {
    items
        .iter()
        .enumerate()
        .map(|(i, d)| Directive { name: DIRECTIVE_NAMES[i].to_string(), args: b_args(opt_items(&d.kids[0])) })
        .collect()
}

fn b_list_type(t: &Tree) -> Ty {
    b_type(&t.kids[0]).list()
}

fn b_type(t: &Tree) -> Ty {
    match t.p {
        P::TypeNamed => Ty::named("Int"),
        P::TypeList => b_list_type(&t.kids[0]),
        P::TypeNonNull => {
            let nn = &t.kids[0];
            match nn.p {
                P::NonNullNamed => Ty::named("T").non_null(),
                P::NonNullList => b_list_type(&nn.kids[0]).non_null(),
                p => unreachable!("{p:?}"),
            }
        }
        p => unreachable!("{p:?}"),
    }
}

fn b_selection_set(t: &Tree) -> Vec<Selection> {
    t.kids
        .iter()
        .enumerate()
        .map(|(i, s)| {
            let inner = &s.kids[0];
            match s.p {
                P::SelectionField => Selection::Field(Field {
                    alias: opt_flag(&inner.kids[0], P::AliasPresent).then(|| "x".to_string()),
                    name: FIELD_NAMES[i].to_string(),
                    args: b_args(opt_items(&inner.kids[1])),
                    directives: b_directives(opt_items(&inner.kids[2])),
                    selection: opt(&inner.kids[3]).map(b_selection_set).unwrap_or_default(),
                }),
                P::SelectionFragmentSpread => Selection::Spread {
                    name: "F".to_string(),
                    directives: b_directives(opt_items(&inner.kids[0])),
                },
                P::SelectionInlineFragment => Selection::Inline {
                    on: opt_flag(&inner.kids[0], P::TypeConditionPresent).then(|| "T".to_string()),
                    directives: b_directives(opt_items(&inner.kids[1])),
                    selection: b_selection_set(&inner.kids[2]),
                },
                p => unreachable!("{p:?}"),
            }
        })
        .collect()
}

fn opt_flag(t: &Tree, present: P) -> bool {
    t.p == present
}

fn b_description(t: &Tree) -> Option<String> {
    opt(t).map(b_string)
}

fn b_input_value(t: &Tree, name: &str) -> InputValueDef {
    InputValueDef {
        description: b_description(&t.kids[0]),
        name: name.to_string(),
        ty: b_type(&t.kids[1]),
        default: opt(&t.kids[2]).map(b_value),
        directives: b_directives(opt_items(&t.kids[3])),
    }
}

fn b_arguments_definition(items: &[Tree]) -> Vec<InputValueDef> {
    items.iter().enumerate().map(|(i, a)| b_input_value(a, ARG_DEF_NAMES[i])).collect()
}

fn b_fields_definition(items: &[Tree]) -> Vec<FieldDef> {
    items
        .iter()
        .enumerate()
        .map(|(i, f)| FieldDef {
            description: b_description(&f.kids[0]),
            name: FIELD_NAMES[i].to_string(),
            args: b_arguments_definition(opt_items(&f.kids[1])),
            ty: b_type(&f.kids[2]),
            directives: b_directives(opt_items(&f.kids[3])),
        })
        .collect()
}

fn b_enum_values(items: &[Tree]) -> Vec<EnumValueDef> {
    items
        .iter()
        .enumerate()
        .map(|(i, v)| EnumValueDef {
            description: b_description(&v.kids[0]),
            name: ENUM_VALUE_NAMES[i].to_string(),
            directives: b_directives(opt_items(&v.kids[1])),
        })
        .collect()
}

fn b_input_fields(items: &[Tree]) -> Vec<InputValueDef> {
    items.iter().enumerate().map(|(i, a)| b_input_value(a, INPUT_FIELD_NAMES[i])).collect()
}

fn names(pool: &[&str; 2], t: &Tree, one: P, two: P) -> Vec<Name> {
    let n = if t.p == one {
        1
    } else if t.p == two {
        2
    } else {
        unreachable!("{:?}", t.p)
    };
    pool[..n].iter().map(|s| s.to_string()).collect()
}

fn b_implements(t: &Tree) -> Vec<Name> {
    names(&INTERFACE_NAMES, t, P::ImplementsInterfaces1, P::ImplementsInterfaces2)
}
fn b_members(t: &Tree) -> Vec<Name> {
    names(&MEMBER_NAMES, t, P::UnionMemberTypes1, P::UnionMemberTypes2)
}

fn b_roots(t: &Tree) -> Vec<(OpKind, Name)> {
    let all = [
        (OpKind::Query, "Q".to_string()),
        (OpKind::Mutation, "M".to_string()),
        (OpKind::Subscription, "S".to_string()),
    ];
    let n = match t.p {
        P::RootOperationTypes1 => 1,
        P::RootOperationTypes2 => 2,
        P::RootOperationTypes3 => 3,
        p => unreachable!("{p:?}"),
    };
    all[..n].to_vec()
}

fn location_name(t: &Tree) -> String {
    // DirectiveLocation -> Executable.. | TypeSystem.. -> terminal; the production is named Loc<NAME>
    let leaf = &t.kids[0];
    PRODS[leaf.p as usize].name["Loc".len()..].to_string()
}

fn b_operation(t: &Tree) -> Operation {
    match t.p {
        P::OperationShorthand => Operation {
            kind: OpKind::Query,
            name: None,
            vars: vec![],
            directives: vec![],
            selection: b_selection_set(&t.kids[0]),
            shorthand: true,
        },
        P::OperationFull => Operation {
            kind: match t.kids[0].p {
                P::OperationTypeQuery => OpKind::Query,
                P::OperationTypeMutation => OpKind::Mutation,
                P::OperationTypeSubscription => OpKind::Subscription,
                p => unreachable!("{p:?}"),
            },
            name: opt_flag(&t.kids[1], P::NamePresent).then(|| "query".to_string()),
            vars: opt_items(&t.kids[2])
                .iter()
                .enumerate()
                .map(|(i, v)| VarDef {
                    name: VAR_NAMES[i].to_string(),
                    ty: b_type(&v.kids[0]),
                    default: opt(&v.kids[1]).map(b_value),
                    directives: b_directives(opt_items(&v.kids[2])),
                })
                .collect(),
            directives: b_directives(opt_items(&t.kids[3])),
            selection: b_selection_set(&t.kids[4]),
            shorthand: false,
        },
        p => unreachable!("{p:?}"),
    }
}

fn b_type_definition(t: &Tree) -> TypeDef {
    // TypeDefinition -> <Kind>TypeDefinition
    let d = &t.kids[0];
    match d.p {
        P::ScalarTypeDefinitionP => {
            let mut td = TypeDef::new(TypeKind::Scalar, "D");
            td.description = b_description(&d.kids[0]);
            td.directives = b_directives(opt_items(&d.kids[1]));
            td
        }
        P::ObjectTypeDefinitionP | P::InterfaceTypeDefinitionP => {
            let (kind, name) = if d.p == P::ObjectTypeDefinitionP {
                (TypeKind::Object, "T")
            } else {
                (TypeKind::Interface, "I")
            };
            let mut td = TypeDef::new(kind, name);
            td.description = b_description(&d.kids[0]);
            td.implements = opt(&d.kids[1]).map(b_implements).unwrap_or_default();
            td.directives = b_directives(opt_items(&d.kids[2]));
            td.fields = b_fields_definition(opt_items(&d.kids[3]));
            td
        }
        P::UnionTypeDefinitionP => {
            let mut td = TypeDef::new(TypeKind::Union, "U");
            td.description = b_description(&d.kids[0]);
            td.directives = b_directives(opt_items(&d.kids[1]));
            td.members = opt(&d.kids[2]).map(b_members).unwrap_or_default();
            td
        }
        P::EnumTypeDefinitionP => {
            let mut td = TypeDef::new(TypeKind::Enum, "E");
            td.description = b_description(&d.kids[0]);
            td.directives = b_directives(opt_items(&d.kids[1]));
            td.values = b_enum_values(opt_items(&d.kids[2]));
            td
        }
        P::InputObjectTypeDefinitionP => {
            let mut td = TypeDef::new(TypeKind::Input, "In");
            td.description = b_description(&d.kids[0]);
            td.directives = b_directives(opt_items(&d.kids[1]));
            td.input_fields = b_input_fields(opt_items(&d.kids[2]));
            td
        }
        p => unreachable!("{p:?}"),
    }
}

fn b_type_extension(t: &Tree) -> TypeDef {
    let d = &t.kids[0];
    let mut td = match d.p {
        P::ScalarTypeExtensionP => {
            let mut td = TypeDef::new(TypeKind::Scalar, "D");
            td.directives = b_directives(&d.kids[0].kids);
            td
        }
        P::ObjectTypeExtensionFields | P::InterfaceTypeExtensionFields => {
            let mut td = obj_or_iface(d.p == P::ObjectTypeExtensionFields);
            td.implements = opt(&d.kids[0]).map(b_implements).unwrap_or_default();
            td.directives = b_directives(opt_items(&d.kids[1]));
            td.fields = b_fields_definition(&d.kids[2].kids);
            td
        }
        P::ObjectTypeExtensionDirectives | P::InterfaceTypeExtensionDirectives => {
            let mut td = obj_or_iface(d.p == P::ObjectTypeExtensionDirectives);
            td.implements = opt(&d.kids[0]).map(b_implements).unwrap_or_default();
            td.directives = b_directives(&d.kids[1].kids);
            td
        }
        P::ObjectTypeExtensionImplements | P::InterfaceTypeExtensionImplements => {
            let mut td = obj_or_iface(d.p == P::ObjectTypeExtensionImplements);
            td.implements = b_implements(&d.kids[0]);
            td
        }
        P::UnionTypeExtensionMembers => {
            let mut td = TypeDef::new(TypeKind::Union, "U");
            td.directives = b_directives(opt_items(&d.kids[0]));
            td.members = b_members(&d.kids[1]);
            td
        }
        P::UnionTypeExtensionDirectives => {
            let mut td = TypeDef::new(TypeKind::Union, "U");
            td.directives = b_directives(&d.kids[0].kids);
            td
        }
        P::EnumTypeExtensionValues => {
            let mut td = TypeDef::new(TypeKind::Enum, "E");
            td.directives = b_directives(opt_items(&d.kids[0]));
            td.values = b_enum_values(&d.kids[1].kids);
            td
        }
        P::EnumTypeExtensionDirectives => {
            let mut td = TypeDef::new(TypeKind::Enum, "E");
            td.directives = b_directives(&d.kids[0].kids);
            td
        }
        P::InputObjectTypeExtensionFields => {
            let mut td = TypeDef::new(TypeKind::Input, "In");
            td.directives = b_directives(opt_items(&d.kids[0]));
            td.input_fields = b_input_fields(&d.kids[1].kids);
            td
        }
        P::InputObjectTypeExtensionDirectives => {
            let mut td = TypeDef::new(TypeKind::Input, "In");
            td.directives = b_directives(&d.kids[0].kids);
            td
        }
        p => unreachable!("{p:?}"),
    };
    td.extend = true;
    td
}

fn obj_or_iface(object: bool) -> TypeDef {
    if object {
        TypeDef::new(TypeKind::Object, "T")
    } else {
        TypeDef::new(TypeKind::Interface, "I")
    }
}

fn b_definition(t: &Tree) -> Definition {
    // Definition -> Executable | TypeSystem | Extension -> concrete
    let cat = &t.kids[0];
    let d = &cat.kids[0];
    match cat.p {
        P::ExecutableOperation => Definition::Operation(b_operation(d)),
        P::ExecutableFragment => Definition::Fragment(Fragment {
            name: "F".to_string(),
            on: "T".to_string(),
            directives: b_directives(opt_items(&d.kids[0])),
            selection: b_selection_set(&d.kids[1]),
        }),
        P::TypeSystemSchema => Definition::Schema(SchemaDef {
            extend: false,
            description: b_description(&d.kids[0]),
            directives: b_directives(opt_items(&d.kids[1])),
            roots: b_roots(&d.kids[2]),
        }),
        P::TypeSystemType => Definition::Type(b_type_definition(d)),
        P::TypeSystemDirective => Definition::Directive(DirectiveDef {
            description: b_description(&d.kids[0]),
            name: "d".to_string(),
            args: b_arguments_definition(opt_items(&d.kids[1])),
            repeatable: opt_flag(&d.kids[2], P::RepeatablePresent),
            locations: d.kids[3].kids.iter().map(location_name).collect(),
        }),
        P::ExtensionSchema => Definition::Schema(match d.p {
            P::SchemaExtensionWithRoots => SchemaDef {
                extend: true,
                description: None,
                directives: b_directives(opt_items(&d.kids[0])),
                roots: b_roots(&d.kids[1]),
            },
            P::SchemaExtensionDirectivesOnly => SchemaDef {
                extend: true,
                description: None,
                directives: b_directives(&d.kids[0].kids),
                roots: vec![],
            },
            p => unreachable!("{p:?}"),
        }),
        P::ExtensionType => Definition::Type(b_type_extension(d)),
        p => unreachable!("{p:?}"),
    }
}

/// Can the text of this definition be continued by a `{ … }` block that would belong to it?
/// (the productions the spec guards with `[lookahead != {]`)
pub fn ends_with_absent_brace_block(d: &Definition) -> bool {
    match d {
        Definition::Type(t) => match t.kind {
            TypeKind::Object | TypeKind::Interface => t.fields.is_empty(),
            TypeKind::Enum => t.values.is_empty(),
            TypeKind::Input => t.input_fields.is_empty(),
            TypeKind::Scalar | TypeKind::Union => false,
        },
        Definition::Schema(s) => s.roots.is_empty(),
        Definition::Operation(_) | Definition::Fragment(_) | Definition::Directive(_) => false,
    }
}

pub fn build_document(t: &Tree) -> Option<Document> {
    let mut defs: Vec<Definition> = Vec::with_capacity(t.kids.len());
    for k in &t.kids {
        let d = b_definition(k);
        if let (Definition::Operation(op), Some(prev)) = (&d, defs.last()) {
            if op.shorthand && ends_with_absent_brace_block(prev) {
                return None;
            }
        }
        defs.push(d);
    }
    Some(Document { defs })
}

#[cfg(test)]
mod tests {
    use super::*;
    use std::collections::BTreeSet;

    #[test]
    fn counts_match_enumeration_and_are_distinct() {
        let d = Derive::new(5);
        let mut usage = vec![0u32; PRODS.len()];
        let mut seen = BTreeSet::new();
        let mut trees = BTreeSet::new();
        let mut filtered = 0;
        for i in 0..d.total() {
            let (t, size) = d.tree(i);
            assert!(size <= 5);
            assert!(trees.insert(format!("{t:?}")), "duplicate derivation at {i}");
            match d.nth(i, &mut usage) {
                Some(doc) => {
                    assert_eq!(doc.size, size);
                    seen.insert(doc.document.print());
                }
                None => filtered += 1,
            }
        }
        assert!(d.total() > 1000, "{}", d.total());
        // distinct derivations print distinct documents, except the shorthand / `query` twins
        assert!(seen.len() as u64 + filtered <= d.total());
        assert!(seen.contains("{ a }"));
        assert!(seen.contains("scalar D\n{ a }"));
        assert!(!seen.contains("type T\n{ a }"));
        assert!(seen.contains("type T\nquery { a }"));
    }

    #[test]
    fn size_is_sum_of_costs() {
        fn cost(t: &Tree) -> u32 {
            PRODS[t.p as usize].cost + t.kids.iter().map(cost).sum::<u32>()
        }
        let d = Derive::new(6);
        let step = (d.total() / 5000).max(1);
        let mut i = 0;
        while i < d.total() {
            let (t, size) = d.tree(i);
            assert_eq!(cost(&t), size);
            assert_eq!(PRODS[t.p as usize].lhs, Nt::Document);
            i += step;
        }
    }

    #[test]
    fn every_printed_document_lexes() {
        for doc in derive(4) {
            let s = doc.document.print();
            assert!(crate::lex::tokenize(&s, Default::default()).is_some(), "{s:?}");
        }
    }
}
