//! Reference lexer: the October 2021 lexical grammar (spec §2.1), maximal munch, with the
//! look-ahead restrictions on numbers. Shares no code with apollo-parser. DESIGN.md A.1.

#[derive(Debug, PartialEq, Eq, Clone, Copy, PartialOrd, Ord)]
pub enum Kind {
    /// one of `! $ & ( ) ... : = @ [ ] { | }`
    Punct,
    Name,
    Int,
    Float,
    /// quoted or block string
    Str,
    Comment,
    /// maximal run of tab, space, `\n`, `\r`, U+FEFF
    Ws,
    Comma,
}

#[derive(Debug, Clone, Copy, Default)]
pub struct Params {
    /// Deviation switch (known finding C03-string-leading-line-terminator): a raw `\n`/`\r`
    /// directly after the opening quote of a quoted string is accepted.
    pub line_terminator_allowed_as_first_string_character: bool,
}

pub fn is_name_start(c: char) -> bool {
    c == '_' || c.is_ascii_alphabetic()
}
pub fn is_name_continue(c: char) -> bool {
    c == '_' || c.is_ascii_alphanumeric()
}
pub fn is_ws(c: char) -> bool {
    matches!(c, '\t' | ' ' | '\n' | '\r' | '\u{feff}')
}

/// `[_A-Za-z][_0-9A-Za-z]*`, hand-written.
pub fn is_name(s: &str) -> bool {
    let mut it = s.chars();
    match it.next() {
        Some(c) if is_name_start(c) => it.all(is_name_continue),
        _ => false,
    }
}

/// Longest lexical token starting at byte offset `i` (a char boundary), or `None` if no token
/// of the grammar starts here.
pub fn munch(s: &str, i: usize, params: Params) -> Option<(Kind, usize)> {
    let r = &s[i..];
    let c = r.chars().next()?;
    let b = r.as_bytes();
    if "!$&():=@[]{|}".contains(c) {
        return Some((Kind::Punct, 1));
    }
    if c == '.' {
        return if r.starts_with("...") {
            Some((Kind::Punct, 3))
        } else {
            None
        };
    }
    if c == ',' {
        return Some((Kind::Comma, 1));
    }
    if is_name_start(c) {
        let n = r.chars().take_while(|c| is_name_continue(*c)).count();
        return Some((Kind::Name, n));
    }
    if is_ws(c) {
        let n: usize = r
            .chars()
            .take_while(|c| is_ws(*c))
            .map(|c| c.len_utf8())
            .sum();
        return Some((Kind::Ws, n));
    }
    if c == '#' {
        let n: usize = r
            .chars()
            .take_while(|c| *c != '\n' && *c != '\r')
            .map(|c| c.len_utf8())
            .sum();
        return Some((Kind::Comment, n));
    }
    if c == '-' || c.is_ascii_digit() {
        return munch_number(r);
    }
    if c == '"' {
        if r.starts_with("\"\"\"") {
            let mut p = 3;
            loop {
                if p >= b.len() {
                    return None;
                }
                if r[p..].starts_with("\\\"\"\"") {
                    p += 4;
                    continue;
                }
                if r[p..].starts_with("\"\"\"") {
                    return Some((Kind::Str, p + 3));
                }
                p += r[p..].chars().next().unwrap().len_utf8();
            }
        }
        let mut p = 1;
        loop {
            if p >= b.len() {
                return None;
            }
            let ch = r[p..].chars().next().unwrap();
            match ch {
                '"' => return Some((Kind::Str, p + 1)),
                '\n' | '\r' => {
                    if p == 1 && params.line_terminator_allowed_as_first_string_character {
                        p += 1;
                    } else {
                        return None;
                    }
                }
                '\\' => {
                    let n = r[p + 1..].chars().next()?;
                    if "\"\\/bfnrt".contains(n) {
                        p += 2;
                    } else if n == 'u' {
                        let h = r.get(p + 2..p + 6)?;
                        if !h.chars().all(|c| c.is_ascii_hexdigit()) {
                            return None;
                        }
                        let v = u32::from_str_radix(h, 16).unwrap();
                        // documented exception: surrogate escapes are rejected
                        char::from_u32(v)?;
                        p += 6;
                    } else {
                        return None;
                    }
                }
                _ => p += ch.len_utf8(),
            }
        }
    }
    None
}

fn munch_number(r: &str) -> Option<(Kind, usize)> {
    let b = r.as_bytes();
    let mut p = 0;
    if b[p] == b'-' {
        p += 1;
    }
    if p >= b.len() {
        return None;
    }
    if b[p] == b'0' {
        p += 1;
    } else if b[p].is_ascii_digit() {
        while p < b.len() && b[p].is_ascii_digit() {
            p += 1;
        }
    } else {
        return None;
    }
    let mut float = false;
    if p < b.len() && b[p] == b'.' {
        let mut q = p + 1;
        let st = q;
        while q < b.len() && b[q].is_ascii_digit() {
            q += 1;
        }
        if q == st {
            return None;
        }
        p = q;
        float = true;
    }
    if p < b.len() && (b[p] == b'e' || b[p] == b'E') {
        let mut q = p + 1;
        if q < b.len() && (b[q] == b'+' || b[q] == b'-') {
            q += 1;
        }
        let st = q;
        while q < b.len() && b[q].is_ascii_digit() {
            q += 1;
        }
        if q == st {
            return None;
        }
        p = q;
        float = true;
    }
    if let Some(n) = r[p..].chars().next() {
        if n.is_ascii_digit() || n == '.' || is_name_start(n) {
            return None;
        }
    }
    Some((if float { Kind::Float } else { Kind::Int }, p))
}

#[derive(Debug, Clone, PartialEq, Eq)]
pub struct Token<'a> {
    pub kind: Kind,
    pub text: &'a str,
    pub offset: usize,
}

impl Token<'_> {
    pub fn is_ignored(&self) -> bool {
        matches!(self.kind, Kind::Ws | Kind::Comment | Kind::Comma)
    }
}

/// The whole input as a token sequence, or `None` if it is not a sequence of valid tokens.
pub fn tokenize(s: &str, params: Params) -> Option<Vec<Token<'_>>> {
    let mut i = 0;
    let mut out = Vec::new();
    while i < s.len() {
        let (kind, n) = munch(s, i, params)?;
        out.push(Token {
            kind,
            text: &s[i..i + n],
            offset: i,
        });
        i += n;
    }
    Some(out)
}

/// Is `s` exactly one IntValue literal?
pub fn is_int_literal(s: &str) -> bool {
    !s.is_empty() && munch(s, 0, Params::default()) == Some((Kind::Int, s.len()))
}
/// Is `s` exactly one FloatValue literal?
pub fn is_float_literal(s: &str) -> bool {
    !s.is_empty() && munch(s, 0, Params::default()) == Some((Kind::Float, s.len()))
}

#[cfg(test)]
mod tests {
    use super::*;
    fn m(s: &str) -> Option<(Kind, usize)> {
        munch(s, 0, Params::default())
    }
    #[test]
    fn spec_examples() {
        assert_eq!(m("0"), Some((Kind::Int, 1)));
        assert_eq!(m("-0"), Some((Kind::Int, 2)));
        assert_eq!(m("00"), None);
        assert_eq!(m("01"), None);
        assert_eq!(m("1a"), None);
        assert_eq!(m("1.a"), None);
        assert_eq!(m("0x1"), None);
        assert_eq!(m("1.0"), Some((Kind::Float, 3)));
        assert_eq!(m("1e5"), Some((Kind::Float, 3)));
        assert_eq!(m("1.5e-3 "), Some((Kind::Float, 6)));
        assert_eq!(m("1."), None);
        assert_eq!(m("1e"), None);
        assert_eq!(m("1.0."), None);
        assert_eq!(m("1.0e1.2"), None);
        assert_eq!(m(".5"), None);
        assert_eq!(m("..."), Some((Kind::Punct, 3)));
        assert_eq!(m(".."), None);
        assert_eq!(m("\"\""), Some((Kind::Str, 2)));
        assert_eq!(m("\"\"\"\"\"\""), Some((Kind::Str, 6)));
        assert_eq!(m("\"\"\"a\\\"\"\"b\"\"\""), Some((Kind::Str, 12)));
        assert_eq!(m("\"a\nb\""), None);
        assert_eq!(m("\"\\u00e9\""), Some((Kind::Str, 8)));
        assert_eq!(m("\"\\uD800\""), None);
        assert_eq!(m("\"\\x\""), None);
        assert_eq!(m("# c\nx"), Some((Kind::Comment, 3)));
        assert_eq!(m(" \t\n\u{feff}x"), Some((Kind::Ws, 6)));
        assert_eq!(m("é"), None);
        assert!(is_name("_a1") && !is_name("1a") && !is_name("") && !is_name("a-b"));
    }
}
