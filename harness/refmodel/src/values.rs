//! Literal-value type checker: graphql-js `ValuesOfCorrectType` + `UniqueInputFieldNames`
//! (spec §5.6.1 "Values of Correct Type", §5.6.3 "Input Object Field Uniqueness", §5.6.4
//! "Input Object Required Fields") over the mini-AST. Shared by `typesys` (directive arguments
//! inside a schema, DESIGN A.3) and by the executable validator (DESIGN A.4).
//!
//! The checker does not know a schema representation; callers answer `InputTypes::lookup`.

use crate::ast::{Ty, Value};

/// One field of an input object type as the checker needs it.
#[derive(Debug, Clone, PartialEq, Eq)]
pub struct InputField {
    pub name: String,
    pub ty: Ty,
    pub has_default: bool,
}

/// What a *named* type is, from the point of view of input coercion.
#[derive(Debug, Clone, PartialEq, Eq)]
pub enum Named {
    /// `Int`, `Float`, `String`, `Boolean`, `ID`
    BuiltinScalar(&'static str),
    /// any literal is accepted (`parseLiteral` of a custom scalar defaults to "anything")
    CustomScalar,
    Enum(Vec<String>),
    InputObject(Vec<InputField>),
    /// object / interface / union: not an input type. Reported by the type rules, not here.
    NotInput,
    /// not defined. Reported by the type rules, not here.
    Undefined,
}

pub trait InputTypes {
    fn lookup(&self, name: &str) -> Named;
}

#[derive(Debug, Clone, Copy, PartialEq, Eq)]
pub struct ValueParams {
    /// executable documents: a `$variable` is skipped here (VariablesInAllowedPosition judges
    /// it). Const contexts: a variable is an issue.
    pub allow_variables: bool,
    /// Deviation switch (apollo-rs known findings about input-object literals with a repeated
    /// field name): the repetition is not reported, only the *first* occurrence of a field is
    /// type-checked, "required field is null" looks at every occurrence.
    pub duplicate_input_fields_first_wins: bool,
}

impl Default for ValueParams {
    fn default() -> Self {
        ValueParams { allow_variables: false, duplicate_input_fields_first_wins: false }
    }
}

#[derive(Debug, Clone, PartialEq, Eq, PartialOrd, Ord)]
pub struct ValueIssue {
    /// `null-for-non-null`, `scalar-mismatch`, `int-range`, `enum-mismatch`, `unknown-enum-value`,
    /// `list-for-non-list`, `object-mismatch`, `unknown-field`, `missing-required-field`,
    /// `duplicate-field`, `variable-in-const`
    pub kind: &'static str,
    /// path inside the literal: `` (the literal itself), `[0]`, `.x`, `.x[1].y`
    pub path: String,
}

fn issue(out: &mut Vec<ValueIssue>, kind: &'static str, path: &str) {
    out.push(ValueIssue { kind, path: path.to_string() });
}

/// The literal text of an IntValue fits a 32-bit signed integer.
pub fn int_in_i32_range(text: &str) -> bool {
    // literal grammar: -?(0|[1-9][0-9]*): decide by comparing digit strings, no parsing shortcuts
    let (neg, digits) = match text.strip_prefix('-') {
        Some(d) => (true, d),
        None => (false, text),
    };
    let digits = digits.trim_start_matches('0');
    let limit = if neg { "2147483648" } else { "2147483647" };
    if digits.len() != limit.len() {
        return digits.len() < limit.len();
    }
    digits <= limit
}

/// `UniqueInputFieldNames`: purely syntactic, applies to every object literal wherever it is
/// (also inside a custom-scalar position).
pub fn duplicate_input_fields(v: &Value, path: &str, out: &mut Vec<ValueIssue>) {
    match v {
        Value::List(items) => {
            for (i, it) in items.iter().enumerate() {
                duplicate_input_fields(it, &format!("{path}[{i}]"), out);
            }
        }
        Value::Object(fields) => {
            for (i, (k, _)) in fields.iter().enumerate() {
                if fields[..i].iter().any(|(k2, _)| k2 == k) {
                    issue(out, "duplicate-field", &format!("{path}.{k}"));
                }
            }
            for (k, fv) in fields {
                duplicate_input_fields(fv, &format!("{path}.{k}"), out);
            }
        }
        _ => {}
    }
}

/// All issues of literal `v` at a position of type `ty`.
pub fn check_value(types: &dyn InputTypes, ty: &Ty, v: &Value, p: ValueParams) -> Vec<ValueIssue> {
    let mut out = Vec::new();
    if !p.duplicate_input_fields_first_wins {
        duplicate_input_fields(v, "", &mut out);
    }
    of_correct_type(types, ty, v, p, "", &mut out);
    out.sort();
    out.dedup();
    out
}

fn of_correct_type(
    types: &dyn InputTypes,
    ty: &Ty,
    v: &Value,
    p: ValueParams,
    path: &str,
    out: &mut Vec<ValueIssue>,
) {
    if let Value::Var(_) = v {
        if !p.allow_variables {
            issue(out, "variable-in-const", path);
        }
        return;
    }
    match ty {
        Ty::NonNull(inner) => {
            if *v == Value::Null {
                issue(out, "null-for-non-null", path);
            } else {
                of_correct_type(types, inner, v, p, path, out);
            }
        }
        _ if *v == Value::Null => {}
        Ty::List(item) => match v {
            Value::List(items) => {
                for (i, it) in items.iter().enumerate() {
                    of_correct_type(types, item, it, p, &format!("{path}[{i}]"), out);
                }
            }
            // input coercion of a single value to a list of one item (§3.11)
            single => of_correct_type(types, item, single, p, path, out),
        },
        Ty::Named(name) => named(types, name, v, p, path, out),
    }
}

fn named(
    types: &dyn InputTypes,
    name: &str,
    v: &Value,
    p: ValueParams,
    path: &str,
    out: &mut Vec<ValueIssue>,
) {
    match types.lookup(name) {
        Named::Undefined | Named::NotInput | Named::CustomScalar => {}
        Named::BuiltinScalar(s) => {
            let ok = match (s, v) {
                ("Int", Value::Int(text)) => {
                    if !int_in_i32_range(text) {
                        issue(out, "int-range", path);
                    }
                    true
                }
                ("Float", Value::Int(_) | Value::Float(_)) => true,
                ("String", Value::Str(_)) => true,
                ("Boolean", Value::Bool(_)) => true,
                ("ID", Value::Str(_) | Value::Int(_)) => true,
                _ => false,
            };
            if !ok {
                issue(out, if matches!(v, Value::List(_)) { "list-for-non-list" } else { "scalar-mismatch" }, path);
            }
        }
        Named::Enum(values) => match v {
            Value::Enum(e) => {
                if !values.iter().any(|x| x == e) {
                    issue(out, "unknown-enum-value", path);
                }
            }
            Value::List(_) => issue(out, "list-for-non-list", path),
            _ => issue(out, "enum-mismatch", path),
        },
        Named::InputObject(fields) => match v {
            Value::Object(given) => {
                for (k, _) in given {
                    if !fields.iter().any(|f| &f.name == k) {
                        issue(out, "unknown-field", &format!("{path}.{k}"));
                    }
                }
                for f in &fields {
                    let occurrences: Vec<&Value> =
                        given.iter().filter(|(k, _)| *k == f.name).map(|(_, v)| v).collect();
                    let required = f.ty.is_non_null() && !f.has_default;
                    if occurrences.is_empty() {
                        if required {
                            issue(out, "missing-required-field", &format!("{path}.{}", f.name));
                        }
                        continue;
                    }
                    let checked: &[&Value] = if p.duplicate_input_fields_first_wins {
                        if required && occurrences.iter().any(|v| **v == Value::Null) {
                            issue(out, "null-for-non-null", &format!("{path}.{}", f.name));
                        }
                        &occurrences[..1]
                    } else {
                        &occurrences[..]
                    };
                    for fv in checked {
                        of_correct_type(types, &f.ty, fv, p, &format!("{path}.{}", f.name), out);
                    }
                }
            }
            Value::List(_) => issue(out, "list-for-non-list", path),
            _ => issue(out, "object-mismatch", path),
        },
    }
}

/// Shapes on which the October 2021 text and graphql-js disagree or are not pinned down, kept
/// out of the alphabets that use this checker:
/// * a list literal with a non-list, non-null item at a position whose item type is itself a
///   list (`[1, 2]` for `[[Int]]`: "Error: Incorrect item value" in the 2021 coercion table,
///   accepted by graphql-js's validation rule);
/// * a Float literal that is not a finite IEEE 754 double (graphql-js `parseLiteral` yields
///   Infinity without an error, the spec asks for an error), and an Int literal at a Float
///   position with more than 15 digits.
pub fn unpinned_shape(types: &dyn InputTypes, ty: &Ty, v: &Value) -> bool {
    match (ty.nullable(), v) {
        (_, Value::Null | Value::Var(_)) => false,
        (Ty::List(item), Value::List(items)) => items.iter().any(|it| {
            item.is_list() && !matches!(it, Value::List(_) | Value::Null | Value::Var(_))
                || unpinned_shape(types, item, it)
        }),
        (Ty::List(item), single) => unpinned_shape(types, item, single),
        (Ty::Named(n), _) => match (types.lookup(n), v) {
            (Named::BuiltinScalar("Float"), Value::Float(t)) => {
                t.parse::<f64>().map(|f| !f.is_finite()).unwrap_or(true)
            }
            (Named::BuiltinScalar("Float"), Value::Int(t)) => t.trim_start_matches('-').len() > 15,
            (Named::InputObject(fields), Value::Object(given)) => given.iter().any(|(k, fv)| {
                fields.iter().find(|f| &f.name == k).is_some_and(|f| unpinned_shape(types, &f.ty, fv))
            }),
            _ => false,
        },
        (Ty::NonNull(_), _) => unreachable!("nullable() strips NonNull"),
    }
}

#[cfg(test)]
mod tests {
    use super::*;

    struct T;
    impl InputTypes for T {
        fn lookup(&self, name: &str) -> Named {
            match name {
                "Int" => Named::BuiltinScalar("Int"),
                "Float" => Named::BuiltinScalar("Float"),
                "String" => Named::BuiltinScalar("String"),
                "Boolean" => Named::BuiltinScalar("Boolean"),
                "ID" => Named::BuiltinScalar("ID"),
                "S" => Named::CustomScalar,
                "E" => Named::Enum(vec!["A".into(), "B".into()]),
                // spec §3.10 example: input ExampleInputObject { a: String  b: Int! }
                "Ex" => Named::InputObject(vec![
                    InputField { name: "a".into(), ty: Ty::parse("String"), has_default: false },
                    InputField { name: "b".into(), ty: Ty::parse("Int!"), has_default: false },
                ]),
                "D" => Named::InputObject(vec![InputField {
                    name: "r".into(),
                    ty: Ty::parse("Int!"),
                    has_default: true,
                }]),
                "Obj" => Named::NotInput,
                _ => Named::Undefined,
            }
        }
    }
    fn ok(ty: &str, v: Value) -> bool {
        check_value(&T, &Ty::parse(ty), &v, ValueParams::default()).is_empty()
    }
    fn kinds(ty: &str, v: Value) -> Vec<&'static str> {
        check_value(&T, &Ty::parse(ty), &v, ValueParams::default()).into_iter().map(|i| i.kind).collect()
    }
    use Value as V;

    #[test]
    fn scalars() {
        assert!(ok("Int", V::int(1)));
        assert!(ok("Int", V::Int("-2147483648".into())));
        assert!(ok("Int", V::Int("2147483647".into())));
        assert_eq!(kinds("Int", V::Int("2147483648".into())), ["int-range"]);
        assert_eq!(kinds("Int", V::Int("-2147483649".into())), ["int-range"]);
        assert_eq!(kinds("Int", V::Int("99999999999999999999".into())), ["int-range"]);
        assert!(!ok("Int", V::Float("1.0".into())));
        assert!(!ok("Int", V::str("1")));
        assert!(ok("Float", V::int(1)));
        assert!(ok("Float", V::Float("1.5".into())));
        assert!(!ok("Float", V::str("1.5")));
        assert!(ok("String", V::str("s")));
        assert!(!ok("String", V::int(1)));
        assert!(!ok("String", V::en("A")));
        assert!(ok("Boolean", V::Bool(true)));
        assert!(!ok("Boolean", V::int(1)));
        assert!(ok("ID", V::int(4)));
        assert!(ok("ID", V::str("4")));
        assert!(!ok("ID", V::Float("4.0".into())));
        assert!(!ok("ID", V::Bool(true)));
        for v in [V::int(1), V::str("s"), V::en("X"), V::List(vec![V::int(1)]), V::obj(&[("q", V::int(1))])] {
            assert!(ok("S", v.clone()), "custom scalar accepts {v:?}");
            assert!(ok("S!", v));
        }
    }

    #[test]
    fn null_and_non_null() {
        assert!(ok("Int", V::Null));
        assert_eq!(kinds("Int!", V::Null), ["null-for-non-null"]);
        assert!(ok("[Int!]", V::Null));
        assert_eq!(kinds("[Int!]", V::List(vec![V::int(1), V::Null])), ["null-for-non-null"]);
        assert!(ok("[Int]", V::List(vec![V::int(1), V::Null])));
        assert_eq!(kinds("S!", V::Null), ["null-for-non-null"]);
    }

    /// spec §3.11 list input coercion table (rows on which the spec and graphql-js agree)
    #[test]
    fn list_coercion_table() {
        assert!(ok("[Int]", V::List(vec![V::int(1), V::int(2), V::int(3)])));
        assert!(!ok("[Int]", V::List(vec![V::int(1), V::str("b"), V::Bool(true)])));
        assert!(ok("[Int]", V::int(1)));
        assert!(ok("[Int]", V::Null));
        assert!(ok("[[Int]]", V::List(vec![V::List(vec![V::int(1)]), V::List(vec![V::int(2), V::int(3)])])));
        assert!(ok("[[Int]]", V::int(1)));
        assert!(ok("[[Int]]", V::Null));
        assert!(unpinned_shape(&T, &Ty::parse("[[Int]]"), &V::List(vec![V::int(1), V::int(2)])));
        assert!(!unpinned_shape(&T, &Ty::parse("[[Int]]"), &V::List(vec![V::List(vec![V::int(1)])])));
        assert!(!unpinned_shape(&T, &Ty::parse("[Int]"), &V::List(vec![V::int(1)])));
        assert_eq!(kinds("Int", V::List(vec![V::int(1)])), ["list-for-non-list"]);
        assert_eq!(kinds("E", V::List(vec![V::en("A")])), ["list-for-non-list"]);
        assert_eq!(kinds("Ex", V::List(vec![])), ["list-for-non-list"]);
    }

    #[test]
    fn enums() {
        assert!(ok("E", V::en("A")));
        assert_eq!(kinds("E", V::en("C")), ["unknown-enum-value"]);
        assert_eq!(kinds("E", V::str("A")), ["enum-mismatch"]);
        assert_eq!(kinds("E", V::int(0)), ["enum-mismatch"]);
        assert!(ok("[E!]", V::en("B")));
    }

    /// spec §3.10 input coercion examples for `{ a: String, b: Int! }`
    #[test]
    fn input_objects() {
        assert!(ok("Ex", V::obj(&[("a", V::str("abc")), ("b", V::int(123))])));
        assert!(ok("Ex", V::obj(&[("a", V::Null), ("b", V::int(123))])));
        assert!(ok("Ex", V::obj(&[("b", V::int(123))])));
        assert_eq!(kinds("Ex", V::obj(&[("a", V::str("abc")), ("b", V::Null)])), ["null-for-non-null"]);
        assert_eq!(kinds("Ex", V::obj(&[("a", V::str("abc"))])), ["missing-required-field"]);
        assert_eq!(kinds("Ex", V::obj(&[("b", V::str("123"))])), ["scalar-mismatch"]);
        assert_eq!(kinds("Ex", V::obj(&[("b", V::int(1)), ("c", V::int(2))])), ["unknown-field"]);
        assert_eq!(kinds("Ex", V::obj(&[("b", V::int(1)), ("b", V::int(2))])), ["duplicate-field"]);
        assert_eq!(kinds("Ex", V::int(1)), ["object-mismatch"]);
        assert!(ok("[Ex]", V::obj(&[("b", V::int(1))])));
        // a field with a default value is not required
        assert!(ok("D", V::obj(&[])));
        assert_eq!(kinds("D", V::obj(&[("r", V::Null)])), ["null-for-non-null"]);
        // duplicates are found wherever the object literal is
        assert_eq!(kinds("S", V::obj(&[("q", V::int(1)), ("q", V::int(1))])), ["duplicate-field"]);
        assert_eq!(
            kinds("[S]", V::List(vec![V::obj(&[("q", V::obj(&[("z", V::int(1)), ("z", V::int(1))]))])])),
            ["duplicate-field"]
        );
    }

    #[test]
    fn duplicate_switch() {
        let p = ValueParams { allow_variables: false, duplicate_input_fields_first_wins: true };
        let c = |v: Value| check_value(&T, &Ty::parse("Ex"), &v, p).into_iter().map(|i| i.kind).collect::<Vec<_>>();
        assert!(c(V::obj(&[("b", V::int(1)), ("b", V::str("s"))])).is_empty());
        assert_eq!(c(V::obj(&[("b", V::str("s")), ("b", V::int(1))])), ["scalar-mismatch"]);
        assert_eq!(c(V::obj(&[("b", V::int(1)), ("b", V::Null)])), ["null-for-non-null"]);
    }

    #[test]
    fn variables_and_unknown_types() {
        assert_eq!(kinds("Int", V::var("v")), ["variable-in-const"]);
        let p = ValueParams { allow_variables: true, duplicate_input_fields_first_wins: false };
        assert!(check_value(&T, &Ty::parse("Int!"), &V::var("v"), p).is_empty());
        assert!(ok("Nope", V::int(1)));
        assert!(ok("Obj", V::int(1)));
    }
}
