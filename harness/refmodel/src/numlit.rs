//! Whole-string matchers for the numeric literals of spec §2.9.1 / §2.9.2 (property C10):
//!
//! ```text
//! IntValue    ::  IntegerPart
//! FloatValue  ::  IntegerPart FractionalPart | IntegerPart ExponentPart
//!              |  IntegerPart FractionalPart ExponentPart
//! IntegerPart ::  -? 0  |  -? NonZeroDigit Digit*
//! FractionalPart :: . Digit+
//! ExponentPart   :: (e|E) (+|-)? Digit+
//! ```
//!
//! The strict verdict is the reference lexer's (`lex::is_int_literal` / `is_float_literal`);
//! this module is a second, independent transcription that additionally carries the
//! *deviation switch* of known finding `C10-float-empty-exponent`. With every switch off it
//! must agree with the lexer (unit test below, exhaustive over the C10 alphabet).

#[derive(Debug, Clone, Copy, Default)]
pub struct Deviations {
    /// Known finding C10-float-empty-exponent: the `Digit+` of ExponentPart is read as
    /// `Digit*`, so `1e`, `1e+`, `1.5E-` count as FloatValue.
    pub exponent_digits_may_be_empty: bool,
}

/// Length of `-? (0 | NonZeroDigit Digit*)` at the start of `b`, if present.
fn integer_part(b: &[u8]) -> Option<usize> {
    let mut p = 0;
    if b.first() == Some(&b'-') {
        p = 1;
    }
    match b.get(p) {
        Some(b'0') => Some(p + 1),
        Some(b'1'..=b'9') => {
            p += 1;
            while matches!(b.get(p), Some(b'0'..=b'9')) {
                p += 1;
            }
            Some(p)
        }
        _ => None,
    }
}

pub fn is_int(s: &str) -> bool {
    integer_part(s.as_bytes()) == Some(s.len())
}

/// Is `s` as a whole a FloatValue (under the given deviations)? `used` is set when a
/// deviation changed the verdict of a sub-decision.
pub fn is_float_dev(s: &str, dev: Deviations, used: &mut bool) -> bool {
    let b = s.as_bytes();
    let Some(mut p) = integer_part(b) else {
        return false;
    };
    let mut seen_part = false;
    if b.get(p) == Some(&b'.') {
        let st = p + 1;
        let mut q = st;
        while matches!(b.get(q), Some(b'0'..=b'9')) {
            q += 1;
        }
        if q == st {
            return false;
        }
        p = q;
        seen_part = true;
    }
    if matches!(b.get(p), Some(b'e' | b'E')) {
        let mut q = p + 1;
        if matches!(b.get(q), Some(b'+' | b'-')) {
            q += 1;
        }
        let st = q;
        while matches!(b.get(q), Some(b'0'..=b'9')) {
            q += 1;
        }
        if q == st {
            if dev.exponent_digits_may_be_empty {
                *used = true;
            } else {
                return false;
            }
        }
        p = q;
        seen_part = true;
    }
    seen_part && p == b.len()
}

pub fn is_float(s: &str) -> bool {
    is_float_dev(s, Deviations::default(), &mut false)
}

#[cfg(test)]
mod tests {
    use super::*;
    use crate::lex;

    #[test]
    fn spec_examples() {
        for s in ["0", "-0", "7", "-19", "1900"] {
            assert!(is_int(s) && !is_float(s), "{s}");
        }
        for s in ["1.0", "-0.5", "6.0221413e23", "1e50", "1E-5", "0.0e+0", "-1.5E+10"] {
            assert!(is_float(s) && !is_int(s), "{s}");
        }
        for s in [
            "", "-", "00", "01", "-00", "1.", ".5", "1e", "1e+", "1.5E-", "1.0e", "+1", "1.e5", "1e5.0",
            "1e1e1", "1.0.0", "0x1", "1a", " 1", "1 ", "--1", "1e+-1",
        ] {
            assert!(!is_float(s) && !is_int(s), "{s}");
        }
    }

    #[test]
    fn deviation_switch() {
        let dev = Deviations { exponent_digits_may_be_empty: true };
        for s in ["1e", "1e+", "1.5E-", "1.0e", "-0E"] {
            let mut used = false;
            assert!(is_float_dev(s, dev, &mut used) && used, "{s}");
        }
        for s in ["1e5", "1.0"] {
            let mut used = false;
            assert!(is_float_dev(s, dev, &mut used) && !used, "{s}");
        }
        for s in ["1.", "e", "1ee", "1e+-", "1e++", "1.e"] {
            let mut used = false;
            assert!(!is_float_dev(s, dev, &mut used), "{s}");
        }
    }

    #[test]
    fn agrees_with_reference_lexer() {
        // every string of length <= 5 over the C10 numeric alphabet
        let sigma = ["0", "1", "9", "-", "+", ".", "e", "E", "a", " "];
        let mut frontier = vec![String::new()];
        let mut n = 0;
        for _ in 0..=5 {
            let mut next = Vec::new();
            for s in &frontier {
                assert_eq!(is_int(s), lex::is_int_literal(s), "{s:?}");
                assert_eq!(is_float(s), lex::is_float_literal(s), "{s:?}");
                n += 1;
                for a in sigma {
                    next.push(format!("{s}{a}"));
                }
            }
            frontier = next;
        }
        assert_eq!(n, 111_111);
    }
}
