//! Plain-data GraphQL mini-AST used by the generators and reference models (DESIGN.md §5.3).
//! Independent of apollo-parser / apollo-compiler: documents are *generated* as values of
//! these types and rendered by `print`.

use std::fmt::Write;

pub type Name = String;

#[derive(Debug, Clone, PartialEq, Eq, Hash, PartialOrd, Ord)]
pub enum Ty {
    Named(Name),
    List(Box<Ty>),
    /// never wraps another `NonNull`
    NonNull(Box<Ty>),
}

impl Ty {
    pub fn named(n: &str) -> Ty {
        Ty::Named(n.to_string())
    }
    pub fn list(self) -> Ty {
        Ty::List(Box::new(self))
    }
    pub fn non_null(self) -> Ty {
        match self {
            Ty::NonNull(_) => self,
            t => Ty::NonNull(Box::new(t)),
        }
    }
    pub fn inner_name(&self) -> &str {
        match self {
            Ty::Named(n) => n,
            Ty::List(t) | Ty::NonNull(t) => t.inner_name(),
        }
    }
    pub fn is_non_null(&self) -> bool {
        matches!(self, Ty::NonNull(_))
    }
    pub fn is_list(&self) -> bool {
        match self {
            Ty::List(_) => true,
            Ty::NonNull(t) => matches!(**t, Ty::List(_)),
            Ty::Named(_) => false,
        }
    }
    /// strip one NonNull wrapper if present
    pub fn nullable(&self) -> &Ty {
        match self {
            Ty::NonNull(t) => t,
            t => t,
        }
    }
    /// item type if this is (non-null) list
    pub fn item(&self) -> Option<&Ty> {
        match self.nullable() {
            Ty::List(t) => Some(t),
            _ => None,
        }
    }
    /// Parse the printed form (`[a!]!`), for tables written as text. Panics on bad text.
    pub fn parse(s: &str) -> Ty {
        fn go(b: &[u8], p: &mut usize) -> Ty {
            let mut t = if b[*p] == b'[' {
                *p += 1;
                let inner = go(b, p);
                assert_eq!(b[*p], b']');
                *p += 1;
                Ty::List(Box::new(inner))
            } else {
                let st = *p;
                while *p < b.len() && (b[*p] == b'_' || b[*p].is_ascii_alphanumeric()) {
                    *p += 1;
                }
                assert!(*p > st, "type name expected");
                Ty::Named(String::from_utf8(b[st..*p].to_vec()).unwrap())
            };
            if *p < b.len() && b[*p] == b'!' {
                *p += 1;
                t = Ty::NonNull(Box::new(t));
            }
            t
        }
        let mut p = 0;
        let t = go(s.as_bytes(), &mut p);
        assert_eq!(p, s.len(), "trailing text in type {s:?}");
        t
    }
}

impl std::fmt::Display for Ty {
    fn fmt(&self, f: &mut std::fmt::Formatter<'_>) -> std::fmt::Result {
        match self {
            Ty::Named(n) => f.write_str(n),
            Ty::List(t) => write!(f, "[{t}]"),
            Ty::NonNull(t) => write!(f, "{t}!"),
        }
    }
}

#[derive(Debug, Clone, PartialEq, Eq, Hash, PartialOrd, Ord)]
pub enum Value {
    Null,
    Bool(bool),
    /// literal text of an IntValue
    Int(String),
    /// literal text of a FloatValue
    Float(String),
    /// the string *value* (not the literal)
    Str(String),
    Enum(Name),
    Var(Name),
    List(Vec<Value>),
    Object(Vec<(Name, Value)>),
}

impl Value {
    pub fn int(i: i64) -> Value {
        Value::Int(i.to_string())
    }
    pub fn str(s: &str) -> Value {
        Value::Str(s.to_string())
    }
    pub fn en(s: &str) -> Value {
        Value::Enum(s.to_string())
    }
    pub fn var(s: &str) -> Value {
        Value::Var(s.to_string())
    }
    pub fn obj(fields: &[(&str, Value)]) -> Value {
        Value::Object(fields.iter().map(|(k, v)| (k.to_string(), v.clone())).collect())
    }
}

#[derive(Debug, Clone, PartialEq, Eq, Hash, PartialOrd, Ord)]
pub struct Directive {
    pub name: Name,
    pub args: Vec<(Name, Value)>,
}

impl Directive {
    pub fn new(name: &str) -> Directive {
        Directive { name: name.to_string(), args: vec![] }
    }
    pub fn with(name: &str, args: &[(&str, Value)]) -> Directive {
        Directive {
            name: name.to_string(),
            args: args.iter().map(|(k, v)| (k.to_string(), v.clone())).collect(),
        }
    }
    pub fn arg(&self, name: &str) -> Option<&Value> {
        self.args.iter().find(|(k, _)| k == name).map(|(_, v)| v)
    }
}

// ---------------------------------------------------------------------------------
// Executable
// ---------------------------------------------------------------------------------

#[derive(Debug, Clone, Copy, PartialEq, Eq, Hash, PartialOrd, Ord)]
pub enum OpKind {
    Query,
    Mutation,
    Subscription,
}

impl OpKind {
    pub fn keyword(self) -> &'static str {
        match self {
            OpKind::Query => "query",
            OpKind::Mutation => "mutation",
            OpKind::Subscription => "subscription",
        }
    }
}

#[derive(Debug, Clone, PartialEq, Eq, Hash, PartialOrd, Ord)]
pub struct VarDef {
    pub name: Name,
    pub ty: Ty,
    pub default: Option<Value>,
    pub directives: Vec<Directive>,
}

#[derive(Debug, Clone, PartialEq, Eq, Hash, PartialOrd, Ord)]
pub struct Field {
    pub alias: Option<Name>,
    pub name: Name,
    pub args: Vec<(Name, Value)>,
    pub directives: Vec<Directive>,
    pub selection: Vec<Selection>,
}

impl Field {
    pub fn new(name: &str) -> Field {
        Field { alias: None, name: name.to_string(), args: vec![], directives: vec![], selection: vec![] }
    }
    pub fn key(&self) -> &str {
        self.alias.as_deref().unwrap_or(&self.name)
    }
    pub fn alias(mut self, a: &str) -> Field {
        self.alias = Some(a.to_string());
        self
    }
    pub fn arg(mut self, k: &str, v: Value) -> Field {
        self.args.push((k.to_string(), v));
        self
    }
    pub fn dir(mut self, d: Directive) -> Field {
        self.directives.push(d);
        self
    }
    pub fn sel(mut self, s: Vec<Selection>) -> Field {
        self.selection = s;
        self
    }
}

#[derive(Debug, Clone, PartialEq, Eq, Hash, PartialOrd, Ord)]
pub enum Selection {
    Field(Field),
    Spread { name: Name, directives: Vec<Directive> },
    Inline { on: Option<Name>, directives: Vec<Directive>, selection: Vec<Selection> },
}

impl Selection {
    pub fn field(name: &str) -> Selection {
        Selection::Field(Field::new(name))
    }
    pub fn spread(name: &str) -> Selection {
        Selection::Spread { name: name.to_string(), directives: vec![] }
    }
    pub fn inline(on: Option<&str>, selection: Vec<Selection>) -> Selection {
        Selection::Inline { on: on.map(|s| s.to_string()), directives: vec![], selection }
    }
}

impl From<Field> for Selection {
    fn from(f: Field) -> Selection {
        Selection::Field(f)
    }
}

#[derive(Debug, Clone, PartialEq, Eq, Hash, PartialOrd, Ord)]
pub struct Operation {
    pub kind: OpKind,
    pub name: Option<Name>,
    pub vars: Vec<VarDef>,
    pub directives: Vec<Directive>,
    pub selection: Vec<Selection>,
    /// print as the `{ ... }` shorthand (only meaningful for an anonymous query without
    /// variables and directives)
    pub shorthand: bool,
}

impl Operation {
    pub fn query(selection: Vec<Selection>) -> Operation {
        Operation { kind: OpKind::Query, name: None, vars: vec![], directives: vec![], selection, shorthand: false }
    }
}

#[derive(Debug, Clone, PartialEq, Eq, Hash, PartialOrd, Ord)]
pub struct Fragment {
    pub name: Name,
    pub on: Name,
    pub directives: Vec<Directive>,
    pub selection: Vec<Selection>,
}

// ---------------------------------------------------------------------------------
// Type system
// ---------------------------------------------------------------------------------

#[derive(Debug, Clone, PartialEq, Eq, Hash, PartialOrd, Ord)]
pub struct InputValueDef {
    pub description: Option<String>,
    pub name: Name,
    pub ty: Ty,
    pub default: Option<Value>,
    pub directives: Vec<Directive>,
}

impl InputValueDef {
    pub fn new(name: &str, ty: Ty) -> InputValueDef {
        InputValueDef { description: None, name: name.to_string(), ty, default: None, directives: vec![] }
    }
}

#[derive(Debug, Clone, PartialEq, Eq, Hash, PartialOrd, Ord)]
pub struct FieldDef {
    pub description: Option<String>,
    pub name: Name,
    pub args: Vec<InputValueDef>,
    pub ty: Ty,
    pub directives: Vec<Directive>,
}

impl FieldDef {
    pub fn new(name: &str, ty: Ty) -> FieldDef {
        FieldDef { description: None, name: name.to_string(), args: vec![], ty, directives: vec![] }
    }
}

#[derive(Debug, Clone, PartialEq, Eq, Hash, PartialOrd, Ord)]
pub struct EnumValueDef {
    pub description: Option<String>,
    pub name: Name,
    pub directives: Vec<Directive>,
}

#[derive(Debug, Clone, Copy, PartialEq, Eq, Hash, PartialOrd, Ord)]
pub enum TypeKind {
    Scalar,
    Object,
    Interface,
    Union,
    Enum,
    Input,
}

impl TypeKind {
    pub fn keyword(self) -> &'static str {
        match self {
            TypeKind::Scalar => "scalar",
            TypeKind::Object => "type",
            TypeKind::Interface => "interface",
            TypeKind::Union => "union",
            TypeKind::Enum => "enum",
            TypeKind::Input => "input",
        }
    }
}

/// A type definition or (with `extend`) a type extension. Only the members meaningful for
/// `kind` are printed.
#[derive(Debug, Clone, PartialEq, Eq, Hash, PartialOrd, Ord)]
pub struct TypeDef {
    pub kind: TypeKind,
    pub extend: bool,
    pub description: Option<String>,
    pub name: Name,
    pub implements: Vec<Name>,
    pub directives: Vec<Directive>,
    pub fields: Vec<FieldDef>,
    pub members: Vec<Name>,
    pub values: Vec<EnumValueDef>,
    pub input_fields: Vec<InputValueDef>,
}

impl TypeDef {
    pub fn new(kind: TypeKind, name: &str) -> TypeDef {
        TypeDef {
            kind,
            extend: false,
            description: None,
            name: name.to_string(),
            implements: vec![],
            directives: vec![],
            fields: vec![],
            members: vec![],
            values: vec![],
            input_fields: vec![],
        }
    }
}

#[derive(Debug, Clone, PartialEq, Eq, Hash, PartialOrd, Ord)]
pub struct SchemaDef {
    pub extend: bool,
    pub description: Option<String>,
    pub directives: Vec<Directive>,
    pub roots: Vec<(OpKind, Name)>,
}

#[derive(Debug, Clone, PartialEq, Eq, Hash, PartialOrd, Ord)]
pub struct DirectiveDef {
    pub description: Option<String>,
    pub name: Name,
    pub args: Vec<InputValueDef>,
    pub repeatable: bool,
    pub locations: Vec<String>,
}

#[derive(Debug, Clone, PartialEq, Eq, Hash, PartialOrd, Ord)]
pub enum Definition {
    Operation(Operation),
    Fragment(Fragment),
    Schema(SchemaDef),
    Type(TypeDef),
    Directive(DirectiveDef),
}

impl Definition {
    /// (kind label, name) as the C05 oracle compares them
    pub fn kind_and_name(&self) -> (String, Option<String>) {
        match self {
            Definition::Operation(o) => ("OperationDefinition".into(), o.name.clone()),
            Definition::Fragment(f) => ("FragmentDefinition".into(), Some(f.name.clone())),
            Definition::Schema(s) => (
                if s.extend { "SchemaExtension" } else { "SchemaDefinition" }.into(),
                None,
            ),
            Definition::Directive(d) => ("DirectiveDefinition".into(), Some(d.name.clone())),
            Definition::Type(t) => {
                let base = match t.kind {
                    TypeKind::Scalar => "ScalarType",
                    TypeKind::Object => "ObjectType",
                    TypeKind::Interface => "InterfaceType",
                    TypeKind::Union => "UnionType",
                    TypeKind::Enum => "EnumType",
                    TypeKind::Input => "InputObjectType",
                };
                (
                    format!("{base}{}", if t.extend { "Extension" } else { "Definition" }),
                    Some(t.name.clone()),
                )
            }
        }
    }
}

#[derive(Debug, Clone, PartialEq, Eq, Hash, PartialOrd, Ord, Default)]
pub struct Document {
    pub defs: Vec<Definition>,
}

// ---------------------------------------------------------------------------------
// Printer: fixed minimal layout, one space between tokens.
// ---------------------------------------------------------------------------------

/// Quoted-string literal for a string value (escapes `"`, `\`, and all C0 controls).
pub fn quote(s: &str) -> String {
    let mut o = String::with_capacity(s.len() + 2);
    o.push('"');
    for c in s.chars() {
        match c {
            '"' => o.push_str("\\\""),
            '\\' => o.push_str("\\\\"),
            '\n' => o.push_str("\\n"),
            '\r' => o.push_str("\\r"),
            '\t' => o.push_str("\\t"),
            c if (c as u32) < 0x20 || c as u32 == 0x7f => {
                write!(o, "\\u{:04X}", c as u32).unwrap();
            }
            c => o.push(c),
        }
    }
    o.push('"');
    o
}

pub fn print_value(v: &Value, o: &mut String) {
    match v {
        Value::Null => o.push_str("null"),
        Value::Bool(b) => o.push_str(if *b { "true" } else { "false" }),
        Value::Int(s) | Value::Float(s) => o.push_str(s),
        Value::Str(s) => o.push_str(&quote(s)),
        Value::Enum(n) => o.push_str(n),
        Value::Var(n) => {
            o.push('$');
            o.push_str(n)
        }
        Value::List(items) => {
            o.push('[');
            for (i, it) in items.iter().enumerate() {
                if i > 0 {
                    o.push_str(", ");
                }
                print_value(it, o);
            }
            o.push(']');
        }
        Value::Object(fields) => {
            o.push('{');
            for (i, (k, it)) in fields.iter().enumerate() {
                if i > 0 {
                    o.push_str(", ");
                }
                o.push_str(k);
                o.push_str(": ");
                print_value(it, o);
            }
            o.push('}');
        }
    }
}

pub fn value_to_string(v: &Value) -> String {
    let mut o = String::new();
    print_value(v, &mut o);
    o
}

fn print_args(args: &[(Name, Value)], o: &mut String) {
    if args.is_empty() {
        return;
    }
    o.push('(');
    for (i, (k, v)) in args.iter().enumerate() {
        if i > 0 {
            o.push_str(", ");
        }
        o.push_str(k);
        o.push_str(": ");
        print_value(v, o);
    }
    o.push(')');
}

pub fn print_directives(ds: &[Directive], o: &mut String) {
    for d in ds {
        o.push_str(" @");
        o.push_str(&d.name);
        print_args(&d.args, o);
    }
}

pub fn print_selection_set(sel: &[Selection], o: &mut String) {
    o.push('{');
    for s in sel {
        o.push(' ');
        match s {
            Selection::Field(f) => {
                if let Some(a) = &f.alias {
                    o.push_str(a);
                    o.push_str(": ");
                }
                o.push_str(&f.name);
                print_args(&f.args, o);
                print_directives(&f.directives, o);
                if !f.selection.is_empty() {
                    o.push(' ');
                    print_selection_set(&f.selection, o);
                }
            }
            Selection::Spread { name, directives } => {
                o.push_str("...");
                o.push_str(name);
                print_directives(directives, o);
            }
            Selection::Inline { on, directives, selection } => {
                o.push_str("...");
                if let Some(t) = on {
                    o.push_str(" on ");
                    o.push_str(t);
                }
                print_directives(directives, o);
                o.push(' ');
                print_selection_set(selection, o);
            }
        }
    }
    o.push_str(" }");
}

fn print_desc(d: &Option<String>, o: &mut String) {
    if let Some(d) = d {
        o.push_str(&quote(d));
        o.push(' ');
    }
}

fn print_input_value(iv: &InputValueDef, o: &mut String) {
    print_desc(&iv.description, o);
    o.push_str(&iv.name);
    o.push_str(": ");
    write!(o, "{}", iv.ty).unwrap();
    if let Some(d) = &iv.default {
        o.push_str(" = ");
        print_value(d, o);
    }
    print_directives(&iv.directives, o);
}

fn print_args_def(args: &[InputValueDef], o: &mut String) {
    if args.is_empty() {
        return;
    }
    o.push('(');
    for (i, a) in args.iter().enumerate() {
        if i > 0 {
            o.push_str(", ");
        }
        print_input_value(a, o);
    }
    o.push(')');
}

pub fn print_definition(d: &Definition, o: &mut String) {
    match d {
        Definition::Operation(op) => {
            let can_short = op.kind == OpKind::Query
                && op.name.is_none()
                && op.vars.is_empty()
                && op.directives.is_empty();
            if !(op.shorthand && can_short) {
                o.push_str(op.kind.keyword());
                if let Some(n) = &op.name {
                    o.push(' ');
                    o.push_str(n);
                }
                if !op.vars.is_empty() {
                    o.push('(');
                    for (i, v) in op.vars.iter().enumerate() {
                        if i > 0 {
                            o.push_str(", ");
                        }
                        o.push('$');
                        o.push_str(&v.name);
                        o.push_str(": ");
                        write!(o, "{}", v.ty).unwrap();
                        if let Some(d) = &v.default {
                            o.push_str(" = ");
                            print_value(d, o);
                        }
                        print_directives(&v.directives, o);
                    }
                    o.push(')');
                }
                print_directives(&op.directives, o);
                o.push(' ');
            }
            print_selection_set(&op.selection, o);
        }
        Definition::Fragment(f) => {
            write!(o, "fragment {} on {}", f.name, f.on).unwrap();
            print_directives(&f.directives, o);
            o.push(' ');
            print_selection_set(&f.selection, o);
        }
        Definition::Schema(s) => {
            if s.extend {
                o.push_str("extend ");
            } else {
                print_desc(&s.description, o);
            }
            o.push_str("schema");
            print_directives(&s.directives, o);
            if !s.roots.is_empty() {
                o.push_str(" {");
                for (k, n) in &s.roots {
                    write!(o, " {}: {}", k.keyword(), n).unwrap();
                }
                o.push_str(" }");
            }
        }
        Definition::Directive(d) => {
            print_desc(&d.description, o);
            write!(o, "directive @{}", d.name).unwrap();
            print_args_def(&d.args, o);
            if d.repeatable {
                o.push_str(" repeatable");
            }
            o.push_str(" on ");
            o.push_str(&d.locations.join(" | "));
        }
        Definition::Type(t) => {
            if t.extend {
                o.push_str("extend ");
            } else {
                print_desc(&t.description, o);
            }
            o.push_str(t.kind.keyword());
            o.push(' ');
            o.push_str(&t.name);
            if matches!(t.kind, TypeKind::Object | TypeKind::Interface) && !t.implements.is_empty() {
                o.push_str(" implements ");
                o.push_str(&t.implements.join(" & "));
            }
            print_directives(&t.directives, o);
            match t.kind {
                TypeKind::Scalar => {}
                TypeKind::Object | TypeKind::Interface => {
                    if !t.fields.is_empty() {
                        o.push_str(" {");
                        for f in &t.fields {
                            o.push(' ');
                            print_desc(&f.description, o);
                            o.push_str(&f.name);
                            print_args_def(&f.args, o);
                            write!(o, ": {}", f.ty).unwrap();
                            print_directives(&f.directives, o);
                        }
                        o.push_str(" }");
                    }
                }
                TypeKind::Union => {
                    if !t.members.is_empty() {
                        o.push_str(" = ");
                        o.push_str(&t.members.join(" | "));
                    }
                }
                TypeKind::Enum => {
                    if !t.values.is_empty() {
                        o.push_str(" {");
                        for v in &t.values {
                            o.push(' ');
                            print_desc(&v.description, o);
                            o.push_str(&v.name);
                            print_directives(&v.directives, o);
                        }
                        o.push_str(" }");
                    }
                }
                TypeKind::Input => {
                    if !t.input_fields.is_empty() {
                        o.push_str(" {");
                        for f in &t.input_fields {
                            o.push(' ');
                            print_input_value(f, o);
                        }
                        o.push_str(" }");
                    }
                }
            }
        }
    }
}

impl Document {
    pub fn print(&self) -> String {
        let mut o = String::new();
        for (i, d) in self.defs.iter().enumerate() {
            if i > 0 {
                o.push('\n');
            }
            print_definition(d, &mut o);
        }
        o
    }
    pub fn types(&self) -> impl Iterator<Item = &TypeDef> {
        self.defs.iter().filter_map(|d| match d {
            Definition::Type(t) => Some(t),
            _ => None,
        })
    }
    pub fn operations(&self) -> impl Iterator<Item = &Operation> {
        self.defs.iter().filter_map(|d| match d {
            Definition::Operation(t) => Some(t),
            _ => None,
        })
    }
    pub fn fragments(&self) -> impl Iterator<Item = &Fragment> {
        self.defs.iter().filter_map(|d| match d {
            Definition::Fragment(t) => Some(t),
            _ => None,
        })
    }
}

#[cfg(test)]
mod tests {
    use super::*;
    #[test]
    fn print_smoke() {
        let mut t = TypeDef::new(TypeKind::Object, "Query");
        let mut f = FieldDef::new("f", Ty::parse("[Int!]!"));
        let mut a = InputValueDef::new("x", Ty::named("Int"));
        a.default = Some(Value::int(1));
        f.args.push(a);
        t.fields.push(f);
        let op = Operation::query(vec![Field::new("f").arg("x", Value::int(2)).into()]);
        let d = Document { defs: vec![Definition::Type(t), Definition::Operation(op)] };
        assert_eq!(d.print(), "type Query { f(x: Int = 1): [Int!]! }\nquery { f(x: 2) }");
        assert_eq!(Ty::parse("[[a]!]").to_string(), "[[a]!]");
        assert_eq!(quote("a\"\\\n\u{1}"), "\"a\\\"\\\\\\n\\u0001\"");
    }
}
