//! Reference line/column model (DESIGN.md A.7, property C11) and the C11 document layouter.
//!
//! Contract: for a byte offset `o` on a char boundary of `source`, `0 <= o <= len`,
//!   line   = 1 + number of LineTerminators (`\n`, `\r\n`, lone `\r` — spec §2.1.2) that END at or
//!            before `o`, i.e. lie strictly before the offset,
//!   column = 1 + number of Unicode scalar values between the start of that line and `o`
//!            (the doc comment of `LineColumn::column` promises scalar values, "like str::chars").
//! An offset between the `\r` and the `\n` of a `\r\n` is still on the line the `\r` is on.
//! Offsets beyond `len` have no position.
//!
//! Deviation switches (all off = the contract above) reproduce what apollo-compiler inherits
//! from `ariadne::Source` on the pinned tree; each belongs to one entry of known_findings.json.

use crate::lex;

#[derive(Clone, Copy, Default, Debug, PartialEq, Eq)]
pub struct Params {
    /// C11-column-counts-bytes: column = 1 + UTF-8 *bytes* since the line start.
    pub column_in_bytes: bool,
    /// C11-extra-line-separators: VT, FF, NEL (U+0085), LS (U+2028), PS (U+2029) also end a line.
    pub ariadne_line_separators: bool,
    /// C11-eof-after-final-terminator: when the text ends with a line terminator, the offset
    /// `len` is reported on the line that terminator ends (ariadne has no empty last line).
    pub ariadne_no_line_after_final_terminator: bool,
}

impl Params {
    pub fn any(self) -> bool {
        self.column_in_bytes
            || self.ariadne_line_separators
            || self.ariadne_no_line_after_final_terminator
    }
}

fn extra_separator(c: char) -> bool {
    matches!(c, '\u{0B}' | '\u{0C}' | '\u{85}' | '\u{2028}' | '\u{2029}')
}

/// Length in bytes of the line terminator starting at byte `i` (0 if none starts there).
fn terminator_len(source: &str, i: usize, p: Params) -> usize {
    let rest = &source[i..];
    let Some(c) = rest.chars().next() else { return 0 };
    match c {
        '\r' => {
            if rest[1..].starts_with('\n') {
                2
            } else {
                1
            }
        }
        '\n' => 1,
        c if p.ariadne_line_separators && extra_separator(c) => c.len_utf8(),
        _ => 0,
    }
}

/// Direct transcription of the contract: (line, column) of `offset`, both 1-based.
/// `None` if the offset is beyond the end or not on a char boundary.
pub fn of(source: &str, offset: usize, p: Params) -> Option<(usize, usize)> {
    if offset > source.len() || !source.is_char_boundary(offset) {
        return None;
    }
    let mut line = 1usize;
    let mut line_start = 0usize;
    let mut prev_line_start = 0usize;
    let mut i = 0usize;
    while i < offset {
        let t = terminator_len(source, i, p);
        if t > 0 {
            if i + t <= offset {
                line += 1;
                prev_line_start = line_start;
                line_start = i + t;
            }
            i += t;
        } else {
            i += source[i..].chars().next().map_or(1, |c| c.len_utf8());
        }
    }
    if p.ariadne_no_line_after_final_terminator
        && offset == source.len()
        && line_start == offset
        && line > 1
    {
        line -= 1;
        line_start = prev_line_start;
    }
    let span = &source[line_start..offset];
    let column = 1 + if p.column_in_bytes { span.len() } else { span.chars().count() };
    Some((line, column))
}

/// `(offset, line, column)` for every char-boundary offset `0..=len`, in one pass.
/// Unit-tested to agree with [`of`].
pub fn table(source: &str, p: Params) -> Vec<(usize, usize, usize)> {
    let mut out = Vec::with_capacity(source.len() + 1);
    let mut line = 1usize;
    let mut col = 1usize;
    // start of the previous line and the column the terminator's end would have had on it
    let mut i = 0usize;
    let len = source.len();
    // for the final-terminator switch: position `len` as seen from the previous line
    let mut last_term_end_on_prev_line: Option<(usize, usize, usize)> = None;
    while i < len {
        out.push((i, line, col));
        let t = terminator_len(source, i, p);
        if t > 0 {
            // offsets strictly inside the terminator (between \r and \n) stay on this line
            let mut inner_col = col;
            let mut j = i;
            for c in source[i..i + t].chars() {
                j += c.len_utf8();
                inner_col += if p.column_in_bytes { c.len_utf8() } else { 1 };
                if j < i + t {
                    out.push((j, line, inner_col));
                }
            }
            last_term_end_on_prev_line = Some((i + t, line, inner_col));
            line += 1;
            col = 1;
            i += t;
        } else {
            let c = source[i..].chars().next().unwrap();
            col += if p.column_in_bytes { c.len_utf8() } else { 1 };
            i += c.len_utf8();
            last_term_end_on_prev_line = None;
        }
    }
    match last_term_end_on_prev_line {
        Some(prev) if p.ariadne_no_line_after_final_terminator && prev.0 == len => out.push(prev),
        _ => out.push((len, line, col)),
    }
    out
}

// ---------------------------------------------------------------------------------
// Layouter: a printed document as significant tokens, re-joined with a chosen separator
// per token gap (gap 0 is before the first token, gap n after the last one).
// ---------------------------------------------------------------------------------

#[derive(Clone, Debug, PartialEq, Eq)]
pub struct Piece {
    pub kind: lex::Kind,
    pub text: String,
}

/// The non-ignored tokens of `printed` (which must lex; panics otherwise — generator bug).
pub fn pieces(printed: &str) -> Vec<Piece> {
    lex::tokenize(printed, lex::Params::default())
        .unwrap_or_else(|| panic!("base document does not lex: {printed:?}"))
        .into_iter()
        .filter(|t| !t.is_ignored())
        .map(|t| Piece { kind: t.kind, text: t.text.to_string() })
        .collect()
}

/// Join `pieces` with `seps[g]` in gap `g` (`seps.len() == pieces.len() + 1`).
/// Returns the text and the byte offset of every piece.
pub fn join(pieces: &[Piece], seps: &[&str]) -> (String, Vec<usize>) {
    assert_eq!(seps.len(), pieces.len() + 1);
    let mut s = String::new();
    let mut offs = Vec::with_capacity(pieces.len());
    for (i, p) in pieces.iter().enumerate() {
        s.push_str(seps[i]);
        offs.push(s.len());
        s.push_str(&p.text);
    }
    s.push_str(seps[pieces.len()]);
    (s, offs)
}

#[cfg(test)]
mod tests {
    use super::*;

    const STRICT: Params = Params {
        column_in_bytes: false,
        ariadne_line_separators: false,
        ariadne_no_line_after_final_terminator: false,
    };

    fn all_params() -> Vec<Params> {
        let mut v = Vec::new();
        for a in [false, true] {
            for b in [false, true] {
                for c in [false, true] {
                    v.push(Params {
                        column_in_bytes: a,
                        ariadne_line_separators: b,
                        ariadne_no_line_after_final_terminator: c,
                    });
                }
            }
        }
        v
    }

    #[test]
    fn contract_examples() {
        // graphql-js getLocation examples / spec §2.1.2 LineTerminator
        assert_eq!(of("{ a }", 0, STRICT), Some((1, 1)));
        assert_eq!(of("{ a }", 5, STRICT), Some((1, 6)));
        assert_eq!(of("{ a }", 6, STRICT), None);
        assert_eq!(of("a\nb", 2, STRICT), Some((2, 1)));
        assert_eq!(of("a\r\nb", 3, STRICT), Some((2, 1)));
        // between \r and \n: still line 1
        assert_eq!(of("a\r\nb", 2, STRICT), Some((1, 3)));
        assert_eq!(of("a\rb", 2, STRICT), Some((2, 1)));
        assert_eq!(of("a\r\rb", 3, STRICT), Some((3, 1)));
        assert_eq!(of("a\n\rb", 3, STRICT), Some((3, 1)));
        // offset len after a final terminator is on a new line
        assert_eq!(of("a\n", 2, STRICT), Some((2, 1)));
        assert_eq!(of("\n", 1, STRICT), Some((2, 1)));
        assert_eq!(of("", 0, STRICT), Some((1, 1)));
        // scalar-value columns
        let s = "\"é中🚀\" x";
        assert_eq!(of(s, s.find('x').unwrap(), STRICT), Some((1, 7)));
        // not line terminators in GraphQL
        for sep in ["\u{0B}", "\u{0C}", "\u{85}", "\u{2028}", "\u{2029}"] {
            let s = format!("#{sep}\nx");
            assert_eq!(of(&s, s.len() - 1, STRICT), Some((2, 1)), "{s:?}");
        }
        // not a char boundary
        assert_eq!(of("é", 1, STRICT), None);
    }

    #[test]
    fn switches_reproduce_ariadne() {
        let bytes = Params { column_in_bytes: true, ..STRICT };
        let s = "\"é中🚀\" x";
        assert_eq!(of(s, s.find('x').unwrap(), bytes), Some((1, 13)));
        let seps = Params { ariadne_line_separators: true, ..STRICT };
        assert_eq!(of("#\u{2028}\nx", 5, seps), Some((3, 1)));
        assert_eq!(of("#\u{0C}\nx", 3, seps), Some((3, 1)));
        let eof = Params { ariadne_no_line_after_final_terminator: true, ..STRICT };
        assert_eq!(of("{ a }\n", 6, eof), Some((1, 7)));
        assert_eq!(of("\n", 1, eof), Some((1, 2)));
        assert_eq!(of("a\r\n", 3, eof), Some((1, 4)));
        assert_eq!(of("a\n\n", 3, eof), Some((2, 2)));
        assert_eq!(of("a\nb", 3, eof), Some((2, 2)));
    }

    #[test]
    fn table_agrees_with_of() {
        let alphabet = ["a", "\n", "\r", "é", "\u{2028}", "\u{0C}", "🚀"];
        let mut n = 0;
        for len in 0..=5usize {
            let total = alphabet.len().pow(len as u32);
            for mut idx in 0..total {
                let mut s = String::new();
                for _ in 0..len {
                    s.push_str(alphabet[idx % alphabet.len()]);
                    idx /= alphabet.len();
                }
                for p in all_params() {
                    let t = table(&s, p);
                    let expect: Vec<_> = (0..=s.len())
                        .filter(|o| s.is_char_boundary(*o))
                        .map(|o| {
                            let (l, c) = of(&s, o, p).unwrap();
                            (o, l, c)
                        })
                        .collect();
                    assert_eq!(t, expect, "{s:?} {p:?}");
                    n += 1;
                }
            }
        }
        assert!(n > 100_000);
    }

    #[test]
    fn join_offsets() {
        let p = pieces("{ a(x: \"s\") }");
        assert_eq!(p.len(), 8);
        let seps: Vec<&str> = vec!["", " ", "", "", "", "", "\n", " ", "\n"];
        let (s, offs) = join(&p, &seps);
        assert_eq!(s, "{ a(x:\"s\"\n) }\n");
        assert_eq!(offs[1], 2);
        assert_eq!(&s[offs[5]..offs[5] + 3], "\"s\"");
    }
}
