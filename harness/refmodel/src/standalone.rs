//! Tiny reference recognisers for C07: "the significant tokens are exactly one Type" and
//! "exactly one (optionally braced) selection list", transcribed from the October 2021
//! grammar (§2.4 Selection Sets … §2.12 Directives, §2.11 Type References). They work on the
//! reference lexer's tokens with ignored tokens dropped and share nothing with apollo.
//!
//! ```text
//! Type          : Name | [ Type ] | Name ! | [ Type ] !
//! FieldSet      : SelectionSet | Selection+            (federation "fields" syntax)
//! SelectionSet  : { Selection+ }
//! Selection     : Field | FragmentSpread | InlineFragment
//! Field         : Alias? Name Arguments? Directives? SelectionSet?
//! Alias         : Name :
//! Arguments     : ( Argument+ )       Argument : Name : Value
//! FragmentSpread: ... FragmentName Directives?          FragmentName : Name but not `on`
//! InlineFragment: ... TypeCondition? Directives? SelectionSet      TypeCondition : on Name
//! Directives    : Directive+          Directive : @ Name Arguments?
//! Value         : Variable | Int | Float | String | true | false | null | EnumValue
//!               | [ Value* ] | { ObjectField* }         ObjectField : Name : Value
//! ```

use crate::lex::{self, Kind, Token};

/// Significant tokens of `s`, or `None` if `s` is not lexically valid.
pub fn significant(s: &str) -> Option<Vec<Token<'_>>> {
    Some(
        lex::tokenize(s, lex::Params::default())?
            .into_iter()
            .filter(|t| !t.is_ignored())
            .collect(),
    )
}

/// Deviation switches (DESIGN §2.2); all off in the strict grammar.
#[derive(Debug, Clone, Copy, Default, PartialEq, Eq)]
pub struct Params {
    /// Known finding C07-argument-without-value: `Argument : Name` without `: Value` is accepted.
    pub argument_value_optional: bool,
}

struct P<'a, 'b> {
    t: &'b [Token<'a>],
    params: Params,
    /// token indices that the deviation switch let through: (index of the valueless argument's
    /// name, index of the `(` of its argument list)
    valueless: std::cell::RefCell<Vec<(usize, usize)>>,
}

impl P<'_, '_> {
    fn punct(&self, i: usize, p: &str) -> bool {
        matches!(self.t.get(i), Some(t) if t.kind == Kind::Punct && t.text == p)
    }
    fn name(&self, i: usize) -> Option<&str> {
        match self.t.get(i) {
            Some(t) if t.kind == Kind::Name => Some(t.text),
            _ => None,
        }
    }

    fn ty(&self, i: usize) -> Option<usize> {
        let mut j = if self.punct(i, "[") {
            let j = self.ty(i + 1)?;
            if !self.punct(j, "]") {
                return None;
            }
            j + 1
        } else {
            self.name(i)?;
            i + 1
        };
        if self.punct(j, "!") {
            j += 1;
        }
        Some(j)
    }

    fn value(&self, i: usize) -> Option<usize> {
        let t = self.t.get(i)?;
        match t.kind {
            Kind::Int | Kind::Float | Kind::Str | Kind::Name => Some(i + 1),
            Kind::Punct if t.text == "$" => {
                self.name(i + 1)?;
                Some(i + 2)
            }
            Kind::Punct if t.text == "[" => {
                let mut j = i + 1;
                while !self.punct(j, "]") {
                    j = self.value(j)?;
                }
                Some(j + 1)
            }
            Kind::Punct if t.text == "{" => {
                let mut j = i + 1;
                while !self.punct(j, "}") {
                    self.name(j)?;
                    if !self.punct(j + 1, ":") {
                        return None;
                    }
                    j = self.value(j + 2)?;
                }
                Some(j + 1)
            }
            _ => None,
        }
    }

    /// `( Argument+ )` starting at the `(`.
    fn arguments(&self, i: usize) -> Option<usize> {
        if !self.punct(i, "(") {
            return None;
        }
        let mut j = i + 1;
        let mut n = 0;
        while !self.punct(j, ")") {
            self.name(j)?;
            if !self.punct(j + 1, ":") {
                if self.params.argument_value_optional {
                    self.valueless.borrow_mut().push((j, i));
                    j += 1;
                    n += 1;
                    continue;
                }
                return None;
            }
            j = self.value(j + 2)?;
            n += 1;
        }
        if n == 0 {
            return None;
        }
        Some(j + 1)
    }

    /// `Directive*` (zero or more), greedy.
    fn directives(&self, mut i: usize) -> Option<usize> {
        while self.punct(i, "@") {
            self.name(i + 1)?;
            i += 2;
            if self.punct(i, "(") {
                i = self.arguments(i)?;
            }
        }
        Some(i)
    }

    fn selection_set(&self, i: usize) -> Option<usize> {
        if !self.punct(i, "{") {
            return None;
        }
        let j = self.selections(i + 1)?;
        if !self.punct(j, "}") {
            return None;
        }
        Some(j + 1)
    }

    /// `Selection+`, greedy: a selection starts with a Name or `...`.
    fn selections(&self, i: usize) -> Option<usize> {
        let mut j = self.selection(i)?;
        while self.name(j).is_some() || self.punct(j, "...") {
            j = self.selection(j)?;
        }
        Some(j)
    }

    fn selection(&self, i: usize) -> Option<usize> {
        if self.punct(i, "...") {
            let mut j = i + 1;
            match self.name(j) {
                Some(n) if n != "on" => {
                    // FragmentSpread
                    return self.directives(j + 1);
                }
                Some(_) => {
                    // TypeCondition
                    self.name(j + 1)?;
                    j += 2;
                }
                None => {}
            }
            j = self.directives(j)?;
            return self.selection_set(j);
        }
        // Field
        self.name(i)?;
        let mut j = i + 1;
        if self.punct(j, ":") {
            self.name(j + 1)?;
            j += 2;
        }
        if self.punct(j, "(") {
            j = self.arguments(j)?;
        }
        j = self.directives(j)?;
        if self.punct(j, "{") {
            j = self.selection_set(j)?;
        }
        Some(j)
    }

    fn field_set(&self, i: usize) -> Option<usize> {
        if self.punct(i, "{") {
            self.selection_set(i)
        } else {
            self.selections(i)
        }
    }
}

fn p<'a, 'b>(t: &'b [Token<'a>], params: Params) -> P<'a, 'b> {
    P { t, params, valueless: Default::default() }
}

/// The tokens are exactly one Type.
pub fn type_only(t: &[Token<'_>]) -> bool {
    p(t, Params::default()).ty(0) == Some(t.len())
}

/// The tokens are exactly one selection set, with or without the outer braces.
pub fn field_set_only(t: &[Token<'_>]) -> bool {
    field_set_only_with(t, Params::default())
}

pub fn field_set_only_with(t: &[Token<'_>], params: Params) -> bool {
    p(t, params).field_set(0) == Some(t.len())
}

/// With deviation switches on: if the tokens are one selection set, the tokens as an AST built
/// from them would print them — i.e. without the arguments the switch let through (an argument
/// list that only has such arguments disappears with its parentheses). `None` if not accepted.
pub fn field_set_tokens_as_kept<'a>(t: &[Token<'a>], params: Params) -> Option<Vec<Token<'a>>> {
    let pp = p(t, params);
    if pp.field_set(0) != Some(t.len()) {
        return None;
    }
    let valueless = pp.valueless.borrow();
    let mut drop: Vec<bool> = vec![false; t.len()];
    for (name_idx, _) in valueless.iter() {
        drop[*name_idx] = true;
    }
    // argument lists left empty
    let mut opens: Vec<usize> = valueless.iter().map(|(_, o)| *o).collect();
    opens.sort();
    opens.dedup();
    for o in opens {
        // matching `)`: the argument list is flat at paren level, find the first `)` after `o`
        // that is not inside a value (values contain no parentheses in this grammar)
        let close = (o + 1..t.len()).find(|&j| t[j].kind == Kind::Punct && t[j].text == ")")?;
        if (o + 1..close).all(|j| drop[j]) {
            drop[o] = true;
            drop[close] = true;
        }
    }
    Some(t.iter().zip(&drop).filter(|(_, d)| !**d).map(|(t, _)| t.clone()).collect())
}

/// Largest `k ≥ 1` such that the first `k` tokens are exactly one Type (tried from the longest
/// prefix down — deliberately the dumb way).
pub fn longest_type_prefix(t: &[Token<'_>]) -> Option<usize> {
    (1..=t.len()).rev().find(|&k| type_only(&t[..k]))
}

pub fn longest_field_set_prefix(t: &[Token<'_>]) -> Option<usize> {
    longest_field_set_prefix_with(t, Params::default())
}

pub fn longest_field_set_prefix_with(t: &[Token<'_>], params: Params) -> Option<usize> {
    (1..=t.len()).rev().find(|&k| field_set_only_with(&t[..k], params))
}

#[cfg(test)]
mod tests {
    use super::*;
    fn ty(s: &str) -> bool {
        type_only(&significant(s).unwrap())
    }
    fn fs(s: &str) -> bool {
        field_set_only(&significant(s).unwrap())
    }
    #[test]
    fn types() {
        for s in ["Int", "Int!", "[Int]", "[Int!]!", "[[Int]]", " [ Foo ! ] ! ", "#c\nInt", ",Int,"] {
            assert!(ty(s), "{s}");
        }
        for s in ["", "!", "Int!!", "[Int", "Int]", "[]", "[!]", "Int ]] x", "Int Int", "[Int]]", "$a", "1"] {
            assert!(!ty(s), "{s}");
        }
        assert_eq!(longest_type_prefix(&significant("Int ]] x").unwrap()), Some(1));
        assert_eq!(longest_type_prefix(&significant("[a]! !").unwrap()), Some(4));
        assert_eq!(longest_type_prefix(&significant("] a").unwrap()), None);
    }
    #[test]
    fn field_sets() {
        // spec §2.4–§2.8 examples, and the federation field-set forms
        for s in [
            "a",
            "{a}",
            "a{a}",
            "a a",
            "...a",
            "...on a{a}",
            "a(a:1)",
            "a@a",
            "id firstName lastName",
            "me { id firstName lastName birthday { month day } friends { name } }",
            "user(id: 4) { id name profilePic(width: 100, height: 50) }",
            "smallPic: profilePic(size: 64) bigPic: profilePic(size: 1024)",
            "...friendFields @include(if: $x)",
            "... on User { friends { count } } ... @include(if: $expandedInfo) { firstName }",
            "... { a }",
            "a(x: [1, [2]], y: {k: {j: $v}}, z: \"s\", w: null, e: ENUM, f: 1.5e3, g: true)",
            "on",
            "... on on { a }",
            "a: b",
            "{ a } ",
            "type query { fragment }",
        ] {
            assert!(fs(s), "{s}");
        }
        for s in [
            "",
            "{}",
            "a{}",
            "a } b",
            "{a} b",
            "a()",
            "a(a)",
            "a(a:)",
            "a@",
            "...",
            "... on",
            "... on a",
            "...on{a}",
            "a:",
            "a: {a}",
            "{a",
            "a}",
            "1",
            "a { a } { a }",
            "a @a { a } @a",
            "(a:1)",
            "a(x: [1)",
            "a(x: {k})",
            "a(x: $)",
        ] {
            assert!(!fs(s), "{s}");
        }
        assert_eq!(longest_field_set_prefix(&significant("a } b").unwrap()), Some(1));
        assert_eq!(longest_field_set_prefix(&significant("a b } c").unwrap()), Some(2));
        assert_eq!(longest_field_set_prefix(&significant("{ a } b").unwrap()), Some(3));
        assert_eq!(longest_field_set_prefix(&significant("a { b } { c }").unwrap()), Some(4));
        assert_eq!(longest_field_set_prefix(&significant("} a").unwrap()), None);
        // deviation switch
        let dev = Params { argument_value_optional: true };
        let t = significant("a(a) b(x: 1, y) c(z, w: [1])").unwrap();
        assert!(!field_set_only(&t) && field_set_only_with(&t, dev));
        let kept: Vec<&str> =
            field_set_tokens_as_kept(&t, dev).unwrap().iter().map(|t| t.text).collect();
        assert_eq!(kept.join(" "), "a b ( x : 1 ) c ( w : [ 1 ] )");
        assert!(!field_set_only_with(&significant("a()").unwrap(), dev));
    }
}
