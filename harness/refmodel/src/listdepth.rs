//! Reference for C25 (DESIGN.md §6 C25): the introspection depth limit.
//!
//! Property statement: an operation is rejected **iff**, with named and inline fragments
//! expanded, some path nests three or more of the list-valued introspection fields
//! `fields`, `interfaces`, `possibleTypes`, `inputFields`.
//!
//! * [`expand`] replaces every fragment spread by an inline fragment carrying the fragment's
//!   type condition and selections (recursively) and drops the fragment definitions;
//! * [`max_list_depth`] is the largest number of list fields on any root-to-leaf path of the
//!   expanded selection; [`rejects`] is `max_list_depth >= 3`.
//! * [`rejects_with`] with `Switches::memoised_fragment_depth` reproduces, decision for decision,
//!   the memoised computation of `introspection/max_depth.rs` on the pinned tree (known finding
//!   `C25-fragment-reuse-depth`): a fragment is measured on first use, the memo is
//!   `post − depth_so_far`, a reuse is tested with `>` instead of `>=` and does not raise the
//!   enclosing maximum.
//!
//! The field is identified by its *name* only (aliases do not matter; the parent type is not
//! looked at) — the check's grammar only uses these names on `__Type`.

use crate::ast::{Definition, Document, Fragment, Operation, Selection};
use std::collections::BTreeMap;

pub const LIST_FIELDS: [&str; 4] = ["fields", "interfaces", "possibleTypes", "inputFields"];
pub const MAX_LISTS_DEPTH: u32 = 3;

#[derive(Debug, Clone, Copy, Default, PartialEq, Eq)]
pub struct Switches {
    /// known finding C25-fragment-reuse-depth
    pub memoised_fragment_depth: bool,
}

pub fn is_list_field(name: &str) -> bool {
    LIST_FIELDS.contains(&name)
}

fn fragment_map(doc: &Document) -> BTreeMap<&str, &Fragment> {
    doc.fragments().map(|f| (f.name.as_str(), f)).collect()
}

/// Expand every spread inline. Spreads of undefined fragments are kept as they are (such a
/// document is invalid and never reaches the depth check). Cyclic fragments would not
/// terminate: the callers only pass validated (acyclic) documents; a guard stops at depth 64.
pub fn expand_selection(
    sel: &[Selection],
    frags: &BTreeMap<&str, &Fragment>,
    guard: u32,
) -> Vec<Selection> {
    assert!(guard < 64, "fragment cycle");
    sel.iter()
        .map(|s| match s {
            Selection::Field(f) => {
                let mut f2 = f.clone();
                f2.selection = expand_selection(&f.selection, frags, guard);
                Selection::Field(f2)
            }
            Selection::Inline { on, directives, selection } => Selection::Inline {
                on: on.clone(),
                directives: directives.clone(),
                selection: expand_selection(selection, frags, guard),
            },
            Selection::Spread { name, directives } => match frags.get(name.as_str()) {
                Some(fr) => Selection::Inline {
                    on: Some(fr.on.clone()),
                    directives: directives.clone(),
                    selection: expand_selection(&fr.selection, frags, guard + 1),
                },
                None => s.clone(),
            },
        })
        .collect()
}

/// The document with every operation's spreads expanded and all fragment definitions removed.
pub fn expand(doc: &Document) -> Document {
    let frags = fragment_map(doc);
    let mut out = Document::default();
    for d in &doc.defs {
        match d {
            Definition::Operation(op) => {
                let mut op2 = op.clone();
                op2.selection = expand_selection(&op.selection, &frags, 0);
                out.defs.push(Definition::Operation(op2));
            }
            Definition::Fragment(_) => {}
            other => out.defs.push(other.clone()),
        }
    }
    out
}

/// Largest number of list fields on a path, in a selection without spreads (spreads of
/// undefined fragments count as leaves).
fn depth_expanded(sel: &[Selection]) -> u32 {
    let mut best = 0;
    for s in sel {
        let d = match s {
            Selection::Field(f) => {
                let own = if is_list_field(&f.name) { 1 } else { 0 };
                own + depth_expanded(&f.selection)
            }
            Selection::Inline { selection, .. } => depth_expanded(selection),
            Selection::Spread { .. } => 0,
        };
        best = best.max(d);
    }
    best
}

/// Maximum nesting of the four list fields over all paths of `op`, fragments expanded.
pub fn max_list_depth(doc: &Document, op: &Operation) -> u32 {
    let frags = fragment_map(doc);
    depth_expanded(&expand_selection(&op.selection, &frags, 0))
}

/// Strict verdict of the property statement.
pub fn rejects(doc: &Document, op: &Operation) -> bool {
    max_list_depth(doc, op) >= MAX_LISTS_DEPTH
}

/// Verdict with deviation switches.
pub fn rejects_with(doc: &Document, op: &Operation, sw: Switches) -> bool {
    if sw.memoised_fragment_depth {
        let frags = fragment_map(doc);
        let mut memo = BTreeMap::new();
        memoised(&frags, &mut memo, 0, &op.selection).is_err()
    } else {
        rejects(doc, op)
    }
}

/// Transcription of `max_depth::check_selection_set` of the pinned tree.
fn memoised<'a>(
    frags: &BTreeMap<&'a str, &'a Fragment>,
    memo: &mut BTreeMap<&'a str, u32>,
    depth_so_far: u32,
    sel: &'a [Selection],
) -> Result<u32, ()> {
    let mut max_depth = depth_so_far;
    for s in sel {
        match s {
            Selection::Inline { selection, .. } => {
                max_depth = max_depth.max(memoised(frags, memo, depth_so_far, selection)?);
            }
            Selection::Spread { name, .. } => {
                let Some(def) = frags.get(name.as_str()) else { continue };
                if let Some(fragment_depth) = memo.get(name.as_str()) {
                    if depth_so_far + *fragment_depth > MAX_LISTS_DEPTH {
                        return Err(());
                    }
                } else {
                    let post = memoised(frags, memo, depth_so_far, &def.selection)?;
                    memo.insert(name.as_str(), post - depth_so_far);
                    max_depth = max_depth.max(post);
                }
            }
            Selection::Field(f) => {
                let mut depth = depth_so_far;
                if is_list_field(&f.name) {
                    depth += 1;
                    if depth >= MAX_LISTS_DEPTH {
                        return Err(());
                    }
                }
                max_depth = max_depth.max(memoised(frags, memo, depth, &f.selection)?);
            }
        }
    }
    Ok(max_depth)
}

#[cfg(test)]
mod tests {
    use super::*;
    use crate::ast::{Field, Value};

    fn f(name: &str, sel: Vec<Selection>) -> Selection {
        Field::new(name).sel(sel).into()
    }
    fn leaf() -> Vec<Selection> {
        vec![Selection::field("name")]
    }
    fn doc(main: Vec<Selection>, frags: Vec<(&str, Vec<Selection>)>) -> Document {
        let root: Selection =
            Field::new("__type").arg("name", Value::str("Query")).sel(main).into();
        let mut op = Operation::query(vec![root]);
        op.shorthand = true;
        let mut d = Document { defs: vec![Definition::Operation(op)] };
        for (n, s) in frags {
            d.defs.push(Definition::Fragment(Fragment {
                name: n.into(),
                on: "__Type".into(),
                directives: vec![],
                selection: s,
            }));
        }
        d
    }
    fn op(d: &Document) -> &Operation {
        d.operations().next().unwrap()
    }

    #[test]
    fn nesting_counts() {
        // the repository's own examples: two levels accepted, three rejected
        let two = doc(vec![f("fields", vec![f("type", vec![f("fields", leaf())])])], vec![]);
        assert_eq!(max_list_depth(&two, op(&two)), 2);
        assert!(!rejects(&two, op(&two)));
        let three = doc(
            vec![f(
                "fields",
                vec![f("type", vec![f("fields", vec![f("type", vec![f("fields", leaf())])])])],
            )],
            vec![],
        );
        assert!(rejects(&three, op(&three)));
        // siblings do not add up
        let sib = doc(
            vec![f("fields", leaf()), f("interfaces", leaf()), f("possibleTypes", leaf())],
            vec![],
        );
        assert_eq!(max_list_depth(&sib, op(&sib)), 1);
        // non-list fields and inline fragments are transparent
        let tr = doc(
            vec![f(
                "ofType",
                vec![Selection::inline(
                    Some("__Type"),
                    vec![f("inputFields", vec![f("type", vec![f("possibleTypes", leaf())])])],
                )],
            )],
            vec![],
        );
        assert_eq!(max_list_depth(&tr, op(&tr)), 2);
    }

    #[test]
    fn fragment_reuse_witness() {
        // { __type(name:"Query") { interfaces { ...F0 interfaces { ...F0 } } } }
        // fragment F0 on __Type { interfaces { name } }
        let d = doc(
            vec![f(
                "interfaces",
                vec![Selection::spread("F0"), f("interfaces", vec![Selection::spread("F0")])],
            )],
            vec![("F0", vec![f("interfaces", leaf())])],
        );
        assert_eq!(
            d.print(),
            "{ __type(name: \"Query\") { interfaces { ...F0 interfaces { ...F0 } } } }\n\
             fragment F0 on __Type { interfaces { name } }"
        );
        assert_eq!(max_list_depth(&d, op(&d)), 3);
        assert!(rejects(&d, op(&d)));
        // the pinned tree's memoised computation accepts it
        assert!(!rejects_with(&d, op(&d), Switches { memoised_fragment_depth: true }));
        // the expanded text has no fragments and both computations agree on it
        let e = expand(&d);
        assert_eq!(
            e.print(),
            "{ __type(name: \"Query\") { interfaces { ... on __Type { interfaces { name } } \
             interfaces { ... on __Type { interfaces { name } } } } } }"
        );
        assert!(rejects(&e, op(&e)));
        assert!(rejects_with(&e, op(&e), Switches { memoised_fragment_depth: true }));
    }

    #[test]
    fn memo_agrees_without_reuse() {
        // a fragment used once: the repository's named-fragment tests
        let d2 = doc(
            vec![f("possibleTypes", vec![Selection::spread("F0")])],
            vec![("F0", vec![f("possibleTypes", leaf())])],
        );
        let sw = Switches { memoised_fragment_depth: true };
        assert!(!rejects(&d2, op(&d2)) && !rejects_with(&d2, op(&d2), sw));
        let d3 = doc(
            vec![f("possibleTypes", vec![Selection::spread("F0")])],
            vec![("F0", vec![f("possibleTypes", vec![f("possibleTypes", leaf())])])],
        );
        assert!(rejects(&d3, op(&d3)) && rejects_with(&d3, op(&d3), sw));
    }
}
