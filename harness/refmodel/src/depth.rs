//! Reference nesting depth of a mini-AST document, as the recursion limit counts it
//! (DESIGN.md A.7, validated against the real parser by the C04 check itself on every run):
//!
//! * a selection set costs 1 per `{` (everything between the braces is one level deeper),
//! * a list value costs 1 per *item* while that item is parsed (`[]` is 0, `[[]]` is 1, `[[1]]` is 2),
//! * an object value costs 1 per field *value* (`{}` is 0, `{a: 1}` is 1),
//! * a list type costs 1 per `[`,
//! * the standalone field set written without braces costs 1 (like the braces would).
//!
//! The depth of a document is the maximum over all positions, i.e. the high-water mark of a
//! counter that is incremented on entry and decremented on exit of each of those constructs.
//! No apollo crate is used here.

use crate::ast::*;

pub fn of_type(t: &Ty) -> usize {
    match t {
        Ty::Named(_) => 0,
        Ty::NonNull(t) => of_type(t),
        Ty::List(t) => 1 + of_type(t),
    }
}

/// High-water mark reached while parsing `v` when the counter is `base` on entry.
pub fn of_value(v: &Value, base: usize) -> usize {
    match v {
        Value::List(items) => items
            .iter()
            .map(|it| of_value(it, base + 1))
            .max()
            .unwrap_or(base),
        Value::Object(fields) => fields
            .iter()
            .map(|(_, it)| of_value(it, base + 1))
            .max()
            .unwrap_or(base),
        _ => base,
    }
}

fn of_args(args: &[(Name, Value)], base: usize) -> usize {
    args.iter().map(|(_, v)| of_value(v, base)).max().unwrap_or(base)
}

pub fn of_directives(ds: &[Directive], base: usize) -> usize {
    ds.iter().map(|d| of_args(&d.args, base)).max().unwrap_or(base)
}

/// A braced selection set entered with the counter at `base`.
pub fn of_selection_set(sel: &[Selection], base: usize) -> usize {
    of_selection_list(sel, base + 1)
}

/// The selections themselves, with the counter already at `level`.
pub fn of_selection_list(sel: &[Selection], level: usize) -> usize {
    let mut m = level;
    for s in sel {
        let d = match s {
            Selection::Field(f) => {
                let mut d = of_args(&f.args, level).max(of_directives(&f.directives, level));
                if !f.selection.is_empty() {
                    d = d.max(of_selection_set(&f.selection, level));
                }
                d
            }
            Selection::Spread { directives, .. } => of_directives(directives, level),
            Selection::Inline { directives, selection, .. } => {
                of_directives(directives, level).max(of_selection_set(selection, level))
            }
        };
        m = m.max(d);
    }
    m
}

/// Standalone field set (federation syntax): with or without outer braces the selections
/// are at level 1.
pub fn of_field_set(sel: &[Selection]) -> usize {
    of_selection_list(sel, 1)
}

fn of_input_value(iv: &InputValueDef) -> usize {
    of_type(&iv.ty)
        .max(iv.default.as_ref().map(|v| of_value(v, 0)).unwrap_or(0))
        .max(of_directives(&iv.directives, 0))
}

pub fn of_definition(d: &Definition) -> usize {
    match d {
        Definition::Operation(op) => {
            let mut m = of_directives(&op.directives, 0);
            for v in &op.vars {
                m = m
                    .max(of_type(&v.ty))
                    .max(v.default.as_ref().map(|d| of_value(d, 0)).unwrap_or(0))
                    .max(of_directives(&v.directives, 0));
            }
            m.max(of_selection_set(&op.selection, 0))
        }
        Definition::Fragment(f) => {
            of_directives(&f.directives, 0).max(of_selection_set(&f.selection, 0))
        }
        Definition::Schema(s) => of_directives(&s.directives, 0),
        Definition::Directive(d) => d.args.iter().map(of_input_value).max().unwrap_or(0),
        Definition::Type(t) => {
            let mut m = of_directives(&t.directives, 0);
            for f in &t.fields {
                m = m.max(of_type(&f.ty)).max(of_directives(&f.directives, 0));
                for a in &f.args {
                    m = m.max(of_input_value(a));
                }
            }
            for v in &t.values {
                m = m.max(of_directives(&v.directives, 0));
            }
            for f in &t.input_fields {
                m = m.max(of_input_value(f));
            }
            m
        }
    }
}

pub fn of(doc: &Document) -> usize {
    doc.defs.iter().map(of_definition).max().unwrap_or(0)
}

#[cfg(test)]
mod tests {
    use super::*;
    fn l(v: Vec<Value>) -> Value {
        Value::List(v)
    }
    #[test]
    fn contract_a7() {
        // list values: one level per item
        assert_eq!(of_value(&l(vec![]), 0), 0);
        assert_eq!(of_value(&l(vec![l(vec![])]), 0), 1);
        assert_eq!(of_value(&l(vec![l(vec![Value::int(1)])]), 0), 2);
        assert_eq!(of_value(&l(vec![Value::int(1), Value::int(2)]), 0), 1);
        // object values: one level per field value
        assert_eq!(of_value(&Value::obj(&[]), 0), 0);
        assert_eq!(of_value(&Value::obj(&[("a", Value::int(1))]), 0), 1);
        assert_eq!(
            of_value(&Value::obj(&[("a", Value::obj(&[("b", l(vec![Value::int(1)]))]))]), 0),
            3
        );
        // list types: one per `[`
        assert_eq!(of_type(&Ty::parse("a!")), 0);
        assert_eq!(of_type(&Ty::parse("[[a!]]!")), 2);
        // selection sets: one per `{`
        let inner = vec![Selection::field("a")];
        let sel = vec![Field::new("a").sel(inner).into()];
        assert_eq!(of_selection_set(&sel, 0), 2);
        assert_eq!(of_field_set(&sel), 2);
        assert_eq!(of_field_set(&[Selection::field("a")]), 1);
        // the unit test of apollo-parser (`multiple_limits`): query { a { a { a { a } } } } has depth 4
        let mut s = vec![Selection::field("a")];
        for _ in 0..3 {
            s = vec![Field::new("a").sel(s).into()];
        }
        let doc = Document { defs: vec![Definition::Operation(Operation::query(s))] };
        assert_eq!(of(&doc), 4);
        // a value inside an argument inside a nested selection set adds up
        let f = Field::new("a").arg("x", l(vec![l(vec![Value::int(1)])]));
        let doc = Document {
            defs: vec![Definition::Operation(Operation::query(vec![Field::new("a")
                .sel(vec![f.into()])
                .into()]))],
        };
        assert_eq!(of(&doc), 4);
    }
}
