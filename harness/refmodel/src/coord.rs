//! Reference matcher for schema coordinates (DESIGN.md A.7 `coord`, property C23).
//!
//! The five forms of the Schema Coordinates RFC, and nothing else (no whitespace tolerated):
//!
//! ```text
//! Name                      type
//! Name.Name                 field / input field / enum value of a type
//! Name.Name(Name:)          argument of a field
//! @Name                     directive
//! @Name(Name:)              argument of a directive
//! ```
//!
//! where `Name` is the GraphQL Name `[_A-Za-z][_0-9A-Za-z]*`. Hand-written cursor over bytes;
//! shares no code with apollo-compiler.

#[derive(Debug, Clone, Copy, PartialEq, Eq, PartialOrd, Ord, Hash)]
pub enum Coord<'a> {
    Type(&'a str),
    TypeAttribute(&'a str, &'a str),
    FieldArgument(&'a str, &'a str, &'a str),
    Directive(&'a str),
    DirectiveArgument(&'a str, &'a str),
}

#[derive(Debug, Clone, Copy, PartialEq, Eq, PartialOrd, Ord, Hash)]
pub enum Form {
    Type,
    TypeAttribute,
    FieldArgument,
    Directive,
    DirectiveArgument,
}

pub const FORMS: [Form; 5] = [
    Form::Type,
    Form::TypeAttribute,
    Form::FieldArgument,
    Form::Directive,
    Form::DirectiveArgument,
];

impl Form {
    pub fn label(self) -> &'static str {
        match self {
            Form::Type => "type",
            Form::TypeAttribute => "type-attribute",
            Form::FieldArgument => "field-argument",
            Form::Directive => "directive",
            Form::DirectiveArgument => "directive-argument",
        }
    }
}

impl<'a> Coord<'a> {
    pub fn form(&self) -> Form {
        match self {
            Coord::Type(..) => Form::Type,
            Coord::TypeAttribute(..) => Form::TypeAttribute,
            Coord::FieldArgument(..) => Form::FieldArgument,
            Coord::Directive(..) => Form::Directive,
            Coord::DirectiveArgument(..) => Form::DirectiveArgument,
        }
    }
    /// The names of the coordinate, outermost first.
    pub fn names(&self) -> Vec<&'a str> {
        match *self {
            Coord::Type(a) | Coord::Directive(a) => vec![a],
            Coord::TypeAttribute(a, b) | Coord::DirectiveArgument(a, b) => vec![a, b],
            Coord::FieldArgument(a, b, c) => vec![a, b, c],
        }
    }
    /// The canonical text of the coordinate.
    pub fn print(&self) -> String {
        match self {
            Coord::Type(a) => a.to_string(),
            Coord::TypeAttribute(a, b) => format!("{a}.{b}"),
            Coord::FieldArgument(a, b, c) => format!("{a}.{b}({c}:)"),
            Coord::Directive(a) => format!("@{a}"),
            Coord::DirectiveArgument(a, b) => format!("@{a}({b}:)"),
        }
    }
}

fn name_start(b: u8) -> bool {
    b == b'_' || b.is_ascii_uppercase() || b.is_ascii_lowercase()
}
fn name_continue(b: u8) -> bool {
    name_start(b) || b.is_ascii_digit()
}

/// End offset of the (maximal) Name starting at `p`, or `None` if no Name starts there.
fn name_at(b: &[u8], p: usize) -> Option<usize> {
    if p >= b.len() || !name_start(b[p]) {
        return None;
    }
    let mut q = p + 1;
    while q < b.len() && name_continue(b[q]) {
        q += 1;
    }
    Some(q)
}

/// `( Name : )` followed by the end of the input, starting at `p`; returns the Name.
fn argument_tail(s: &str, p: usize) -> Option<&str> {
    let b = s.as_bytes();
    if b.get(p) != Some(&b'(') {
        return None;
    }
    let q = name_at(b, p + 1)?;
    if b.get(q) == Some(&b':') && b.get(q + 1) == Some(&b')') && q + 2 == b.len() {
        Some(&s[p + 1..q])
    } else {
        None
    }
}

/// The coordinate `s` denotes, or `None` if `s` is not a schema coordinate.
pub fn parse(s: &str) -> Option<Coord<'_>> {
    let b = s.as_bytes();
    if b.first() == Some(&b'@') {
        let e = name_at(b, 1)?;
        let directive = &s[1..e];
        if e == b.len() {
            return Some(Coord::Directive(directive));
        }
        return argument_tail(s, e).map(|a| Coord::DirectiveArgument(directive, a));
    }
    let e = name_at(b, 0)?;
    let ty = &s[..e];
    if e == b.len() {
        return Some(Coord::Type(ty));
    }
    if b[e] != b'.' {
        return None;
    }
    let f = name_at(b, e + 1)?;
    let attr = &s[e + 1..f];
    if f == b.len() {
        return Some(Coord::TypeAttribute(ty, attr));
    }
    argument_tail(s, f).map(|a| Coord::FieldArgument(ty, attr, a))
}

#[cfg(test)]
mod tests {
    use super::*;

    #[test]
    fn rfc_examples() {
        // the examples of the Schema Coordinates RFC
        assert_eq!(parse("Business"), Some(Coord::Type("Business")));
        assert_eq!(parse("Business.name"), Some(Coord::TypeAttribute("Business", "name")));
        assert_eq!(
            parse("SearchFilter.OPEN_NOW"),
            Some(Coord::TypeAttribute("SearchFilter", "OPEN_NOW"))
        );
        assert_eq!(
            parse("Query.searchBusiness(criteria:)"),
            Some(Coord::FieldArgument("Query", "searchBusiness", "criteria"))
        );
        assert_eq!(parse("@private"), Some(Coord::Directive("private")));
        assert_eq!(parse("@private(scope:)"), Some(Coord::DirectiveArgument("private", "scope")));
        assert_eq!(parse("_"), Some(Coord::Type("_")));
        assert_eq!(parse("__Type.fields(includeDeprecated:)").map(|c| c.form()), Some(Form::FieldArgument));
    }

    #[test]
    fn not_coordinates() {
        for s in [
            "", "@", ".", "1a", "a.", ".a", "a..b", "a.b.c", "a.b(", "a.b()", "a.b(:)", "a.b(c)",
            "a.b(c:", "a.b(c:))", "a.b(c:)d", "a.b(c:d)", "a.b(c :)", "a(b:)", "@(a:)", "@a(:)",
            "@a(b)", "@a.b", "@a.b(c:)", "@@a", "a@", "a @", " a", "a ", "a. b", "@ a", "é", "aé",
            "a.é", "a-b", "Type\\.field(arg:)", "@directi^^ve", "@directi@ve", "@  spaces  ",
            "@a(b:)(c:)", "a.b(c:)(d:)", "a.1", "@1", "a.b(1:)", "a:b", "a)",
        ] {
            assert_eq!(parse(s), None, "{s:?}");
        }
    }

    #[test]
    fn print_parse() {
        for s in ["a", "a.b", "a.b(c:)", "@a", "@a(b:)", "_1._2(_3:)"] {
            assert_eq!(parse(s).unwrap().print(), s);
        }
    }

    #[test]
    fn agrees_with_lexer_name() {
        for s in ["a", "_", "_1", "A9_z", "", "1", "a-", "é", "a b"] {
            let whole = name_at(s.as_bytes(), 0) == Some(s.len());
            assert_eq!(whole, crate::lex::is_name(s), "{s:?}");
        }
    }
}
