//! Reference models (DESIGN.md §5.4). Nothing in this crate depends on an apollo crate.
pub mod ast;
pub mod lex;
pub mod strings;
