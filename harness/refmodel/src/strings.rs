//! Reference static semantics of StringValue (spec §2.9.4) and `BlockStringValue()`.
//! Works on literals already known to be lexically valid (see `lex`).

/// Value of a quoted string literal `"` body `"`; `None` if the body is not valid.
pub fn quoted_value(body: &str) -> Option<String> {
    let cs: Vec<char> = body.chars().collect();
    let mut out = String::new();
    let mut i = 0;
    while i < cs.len() {
        let c = cs[i];
        if c == '"' || c == '\n' || c == '\r' {
            return None;
        }
        if c == '\\' {
            let n = *cs.get(i + 1)?;
            i += 2;
            match n {
                '"' => out.push('"'),
                '\\' => out.push('\\'),
                '/' => out.push('/'),
                'b' => out.push('\u{8}'),
                'f' => out.push('\u{c}'),
                'n' => out.push('\n'),
                'r' => out.push('\r'),
                't' => out.push('\t'),
                'u' => {
                    if i + 4 > cs.len() {
                        return None;
                    }
                    let h: String = cs[i..i + 4].iter().collect();
                    if !h.chars().all(|c| c.is_ascii_hexdigit()) {
                        return None;
                    }
                    let v = u32::from_str_radix(&h, 16).ok()?;
                    out.push(char::from_u32(v)?);
                    i += 4;
                }
                _ => return None,
            }
        } else {
            out.push(c);
            i += 1;
        }
    }
    Some(out)
}

/// `BlockStringValue(rawValue)` of the spec, step by step, where `body` is the text between
/// the triple quotes (still containing `\"""` escapes).
pub fn block_value(body: &str) -> String {
    // rawValue: `\"""` evaluates to `"""`
    let raw = body.replace("\\\"\"\"", "\"\"\"");
    // 1. lines = split on LineTerminator (\r\n | \n | \r)
    let cs: Vec<char> = raw.chars().collect();
    let mut lines: Vec<Vec<char>> = vec![vec![]];
    let mut i = 0;
    while i < cs.len() {
        match cs[i] {
            '\r' => {
                if cs.get(i + 1) == Some(&'\n') {
                    i += 1;
                }
                lines.push(vec![]);
            }
            '\n' => lines.push(vec![]),
            c => lines.last_mut().unwrap().push(c),
        }
        i += 1;
    }
    let ws = |c: &char| *c == ' ' || *c == '\t';
    // 2-3. commonIndent over all lines but the first, only lines with non-whitespace
    let mut common: Option<usize> = None;
    for (k, l) in lines.iter().enumerate() {
        if k == 0 {
            continue;
        }
        let ind = l.iter().take_while(|c| ws(c)).count();
        if ind < l.len() && common.is_none_or(|c| ind < c) {
            common = Some(ind);
        }
    }
    // 4. remove commonIndent characters from each line but the first
    if let Some(c) = common {
        for (k, l) in lines.iter_mut().enumerate() {
            if k == 0 {
                continue;
            }
            let n = c.min(l.len());
            l.drain(..n);
        }
    }
    // 5-6. drop blank leading / trailing lines
    while lines.first().is_some_and(|l| l.iter().all(ws)) {
        lines.remove(0);
    }
    while lines.last().is_some_and(|l| l.iter().all(ws)) {
        lines.pop();
    }
    // 7-9. join with \n
    let joined: Vec<String> = lines.iter().map(|l| l.iter().collect::<String>()).collect();
    joined.join("\n")
}

/// Value of a complete literal (quoted or block), assuming it is one valid StringValue token.
pub fn literal_value(lit: &str) -> Option<String> {
    if lit.len() >= 6 && lit.starts_with("\"\"\"") && lit.ends_with("\"\"\"") {
        Some(block_value(&lit[3..lit.len() - 3]))
    } else if lit.len() >= 2 && lit.starts_with('"') && lit.ends_with('"') {
        quoted_value(&lit[1..lit.len() - 1])
    } else {
        None
    }
}

#[cfg(test)]
mod tests {
    use super::*;
    #[test]
    fn spec_block_string_example() {
        // spec §2.9.4 example: the two forms are the same value
        let body = "\n    Hello,\n      World!\n\n    Yours,\n      GraphQL.\n  ";
        assert_eq!(block_value(body), "Hello,\n  World!\n\nYours,\n  GraphQL.");
        assert_eq!(block_value("a\\\"\"\"b"), "a\"\"\"b");
        assert_eq!(block_value("  a\n  b"), "  a\nb");
        assert_eq!(block_value("\r\n a\r b \n"), "a\nb ");
        assert_eq!(quoted_value("a\\n\\u00e9\\/"), Some("a\né/".to_string()));
        assert_eq!(quoted_value("\\uD800"), None);
    }
}
