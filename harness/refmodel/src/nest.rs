//! Generator of *valid* mini-AST documents that exercise the five nesting constructs the
//! recursion limit counts (selection sets, list values, object values, list types, and their
//! mixes inside arguments / directives / default values), used by C04 (and the nesting part of
//! C01). Pure data, no apollo crate. The enumeration order is fixed.

use crate::ast::*;

/// Value shapes of nesting ≤ `d`. V(0) = {1, [], {}}; V(d+1) adds, for every v in V(d):
/// `[v]`, `{a: v}`, `[v, 1]`, `[1, v]`, `{a: v, b: 1}` — the last three put a shallow sibling
/// after / before a deep one, which is what exposes a missing decrement.
pub fn values(d: usize) -> Vec<Value> {
    let base = vec![Value::int(1), Value::List(vec![]), Value::Object(vec![])];
    if d == 0 {
        return base;
    }
    let inner = values(d - 1);
    let mut out = base;
    for v in &inner {
        out.push(Value::List(vec![v.clone()]));
        out.push(Value::Object(vec![("a".into(), v.clone())]));
        out.push(Value::List(vec![v.clone(), Value::int(1)]));
        out.push(Value::List(vec![Value::int(1), v.clone()]));
        out.push(Value::Object(vec![("a".into(), v.clone()), ("b".into(), Value::int(1))]));
    }
    out
}

/// Selection lists whose braces nest `d` deep (d ≥ 1; the list itself is the content of the
/// outermost braces).
pub fn selections(d: usize) -> Vec<Vec<Selection>> {
    if d <= 1 {
        return vec![vec![Selection::field("a")]];
    }
    let mut out = vec![vec![Selection::field("a")]];
    for inner in selections(d - 1) {
        out.push(vec![Field::new("a").sel(inner.clone()).into()]);
        out.push(vec![Selection::inline(None, inner.clone())]);
        out.push(vec![Selection::inline(Some("T"), inner.clone())]);
        out.push(vec![Field::new("a").sel(inner.clone()).into(), Selection::field("a")]);
        out.push(vec![Selection::field("a"), Field::new("a").sel(inner.clone()).into()]);
    }
    out
}

/// Types with ≤ `k` list levels, with and without `!` at each level.
pub fn types(k: usize) -> Vec<Ty> {
    let mut out = vec![Ty::named("Int"), Ty::named("Int").non_null()];
    if k == 0 {
        return out;
    }
    for t in types(k - 1) {
        out.push(t.clone().list());
        out.push(t.list().non_null());
    }
    out
}

fn op(selection: Vec<Selection>) -> Operation {
    Operation::query(selection)
}

fn doc1(d: Definition) -> Document {
    Document { defs: vec![d] }
}

/// Contexts a value can sit in; `sel_depth` extra levels come from enclosing selection sets.
pub fn value_contexts(v: &Value) -> Vec<(&'static str, Document)> {
    let mut out = Vec::new();
    // field argument at selection depth 1 and 2
    let f = Field::new("a").arg("x", v.clone());
    out.push(("field-arg@1", doc1(Definition::Operation(op(vec![f.clone().into()])))));
    out.push((
        "field-arg@2",
        doc1(Definition::Operation(op(vec![Field::new("a").sel(vec![f.into()]).into()]))),
    ));
    // directive argument on a field
    let f = Field::new("a").dir(Directive::with("d", &[("x", v.clone())]));
    out.push(("field-directive-arg@1", doc1(Definition::Operation(op(vec![f.into()])))));
    // variable default value, and directive argument on a variable definition
    let mut o = op(vec![Selection::field("a")]);
    o.vars.push(VarDef { name: "v".into(), ty: Ty::named("Int"), default: Some(v.clone()), directives: vec![] });
    out.push(("variable-default", doc1(Definition::Operation(o))));
    let mut o = op(vec![Selection::field("a")]);
    o.vars.push(VarDef {
        name: "v".into(),
        ty: Ty::named("Int"),
        default: None,
        directives: vec![Directive::with("d", &[("x", v.clone())])],
    });
    out.push(("variable-directive-arg", doc1(Definition::Operation(o))));
    // default of an argument definition
    let mut t = TypeDef::new(TypeKind::Object, "T");
    let mut fd = FieldDef::new("f", Ty::named("Int"));
    let mut iv = InputValueDef::new("x", Ty::named("Int"));
    iv.default = Some(v.clone());
    fd.args.push(iv);
    t.fields.push(fd);
    out.push(("argument-definition-default", doc1(Definition::Type(t))));
    // default of an input field
    let mut t = TypeDef::new(TypeKind::Input, "I");
    let mut iv = InputValueDef::new("x", Ty::named("Int"));
    iv.default = Some(v.clone());
    t.input_fields.push(iv);
    out.push(("input-field-default", doc1(Definition::Type(t))));
    // directive on a type-system definition
    let mut t = TypeDef::new(TypeKind::Scalar, "S");
    t.directives.push(Directive::with("d", &[("x", v.clone())]));
    out.push(("type-directive-arg", doc1(Definition::Type(t))));
    // default of a directive definition's argument
    let mut iv = InputValueDef::new("x", Ty::named("Int"));
    iv.default = Some(v.clone());
    out.push((
        "directive-definition-default",
        doc1(Definition::Directive(DirectiveDef {
            description: None,
            name: "d".into(),
            args: vec![iv],
            repeatable: false,
            locations: vec!["FIELD".into()],
        })),
    ));
    out
}

pub fn selection_contexts(sel: &[Selection]) -> Vec<(&'static str, Document)> {
    let mut out = Vec::new();
    let mut o = op(sel.to_vec());
    o.shorthand = true;
    out.push(("shorthand-query", doc1(Definition::Operation(o))));
    for (label, kind) in [
        ("query", OpKind::Query),
        ("mutation", OpKind::Mutation),
        ("subscription", OpKind::Subscription),
    ] {
        let mut o = op(sel.to_vec());
        o.kind = kind;
        o.name = Some("q".into());
        out.push((label, doc1(Definition::Operation(o))));
    }
    out.push((
        "fragment",
        doc1(Definition::Fragment(Fragment {
            name: "F".into(),
            on: "T".into(),
            directives: vec![],
            selection: sel.to_vec(),
        })),
    ));
    out
}

pub fn type_contexts(t: &Ty) -> Vec<(&'static str, Document)> {
    let mut out = Vec::new();
    let mut o = op(vec![Selection::field("a")]);
    o.vars.push(VarDef { name: "v".into(), ty: t.clone(), default: None, directives: vec![] });
    out.push(("variable-type", doc1(Definition::Operation(o))));
    let mut td = TypeDef::new(TypeKind::Object, "T");
    td.fields.push(FieldDef::new("f", t.clone()));
    out.push(("field-type", doc1(Definition::Type(td))));
    let mut td = TypeDef::new(TypeKind::Interface, "T");
    let mut fd = FieldDef::new("f", Ty::named("Int"));
    fd.args.push(InputValueDef::new("x", t.clone()));
    td.fields.push(fd);
    out.push(("argument-type", doc1(Definition::Type(td))));
    let mut td = TypeDef::new(TypeKind::Input, "I");
    td.input_fields.push(InputValueDef::new("x", t.clone()));
    out.push(("input-field-type", doc1(Definition::Type(td))));
    out.push((
        "directive-argument-type",
        doc1(Definition::Directive(DirectiveDef {
            description: None,
            name: "d".into(),
            args: vec![InputValueDef::new("x", t.clone())],
            repeatable: false,
            locations: vec!["FIELD".into()],
        })),
    ));
    out
}

/// The whole family for value depth ≤ `vd`, selection depth ≤ `sd`, list-type depth ≤ `td`,
/// plus mixes (type × default × directive × selection in one operation, a deep definition
/// followed by a shallow one and vice versa). Each entry is (context label, document).
pub fn family(vd: usize, sd: usize, td: usize, mix: usize) -> Vec<(String, Document)> {
    let mut out: Vec<(String, Document)> = Vec::new();
    for v in values(vd) {
        for (l, d) in value_contexts(&v) {
            out.push((format!("value/{l}"), d));
        }
    }
    for s in selections(sd) {
        for (l, d) in selection_contexts(&s) {
            out.push((format!("selection/{l}"), d));
        }
    }
    for t in types(td) {
        for (l, d) in type_contexts(&t) {
            out.push((format!("type/{l}"), d));
        }
    }
    // mixes inside one operation
    let vs = values(mix.min(1));
    let ss = selections(mix.max(1));
    let ts = types(mix);
    for t in &ts {
        for v in &vs {
            for s in &ss {
                let mut o = op(s.clone());
                o.name = Some("q".into());
                o.vars.push(VarDef {
                    name: "v".into(),
                    ty: t.clone(),
                    default: Some(v.clone()),
                    directives: vec![],
                });
                o.directives.push(Directive::with("d", &[("x", v.clone())]));
                out.push(("mix/operation".into(), doc1(Definition::Operation(o))));
            }
        }
    }
    // value inside nested selections
    for v in values(mix) {
        for s in selections(mix.max(1)) {
            // put the argument on the last field of the outermost list
            let mut s = s.clone();
            s.push(Field::new("b").arg("x", v.clone()).into());
            let inner = vec![Field::new("a").sel(s).into()];
            out.push(("mix/value-in-selection".into(), doc1(Definition::Operation(op(inner)))));
        }
    }
    // two definitions: the counter must be back at 0 between definitions
    let deep_sel = selections(sd).pop().unwrap();
    let deep_val = values(vd).pop().unwrap();
    let shallow = Definition::Operation(op(vec![Selection::field("a")]));
    let deep1 = Definition::Operation(op(deep_sel));
    let deep2 = value_contexts(&deep_val).remove(5).1.defs.remove(0);
    for deep in [deep1, deep2] {
        out.push((
            "pair/deep-shallow".into(),
            Document { defs: vec![deep.clone(), shallow.clone()] },
        ));
        out.push((
            "pair/shallow-deep".into(),
            Document { defs: vec![shallow.clone(), deep.clone()] },
        ));
    }
    out
}

#[cfg(test)]
mod tests {
    use super::*;
    use crate::depth;
    #[test]
    fn sizes_and_depths() {
        assert_eq!(values(0).len(), 3);
        assert_eq!(values(1).len(), 18);
        assert_eq!(values(2).len(), 93);
        assert_eq!(selections(1).len(), 1);
        assert_eq!(selections(2).len(), 6);
        assert_eq!(selections(3).len(), 31);
        assert_eq!(types(0).len(), 2);
        assert_eq!(types(2).len(), 14);
        assert_eq!(values(3).iter().map(|v| depth::of_value(v, 0)).max(), Some(3));
        assert_eq!(selections(3).iter().map(|s| depth::of_selection_set(s, 0)).max(), Some(3));
        assert_eq!(types(3).iter().map(depth::of_type).max(), Some(3));
        let fam = family(2, 2, 2, 1);
        assert!(fam.iter().all(|(_, d)| !d.print().is_empty()));
        let depths: std::collections::BTreeSet<usize> =
            fam.iter().map(|(_, d)| depth::of(d)).collect();
        assert!(depths.contains(&0) && depths.contains(&4), "{depths:?}");
    }
}
