//! `coerce` — `CoerceVariableValues` (spec §6.1.2) and input coercion (§3.5 scalars, §3.9 enums,
//! §3.10 input objects, §3.11 lists, §3.12 non-null) with apollo-compiler's documented scalar
//! rules from the C28 statement (DESIGN.md §5.4, Appendix A.7).
//!
//! Input and output are plain `serde_json::Value`s; the schema and the variable definitions are
//! the harness's own mini-AST (`refmodel::ast`). Nothing here depends on an apollo crate.
//!
//! Scalar rules (JSON → coerced JSON; the value is passed through unchanged when accepted):
//! * `Int`     — a JSON integer in `-2^31 ..= 2^31-1`; never a float, string or boolean.
//! * `Float`   — any JSON float (serde_json floats are finite by construction), or a JSON integer
//!               of magnitude `< 2^53-1`. Integers that f64 cannot represent exactly are
//!               rejected. Integers `>= 2^53-1` in magnitude that f64 *can* represent exactly
//!               (2^53-1, 2^53, 2^60, …) are ambiguous between the statement ("finite numbers")
//!               and the pinned unit tests: `float_integer_is_ambiguous` names them and the check
//!               keeps them out of its alphabet.
//! * `String`, `Boolean` — exactly a JSON string / boolean.
//! * `ID`      — a JSON string or a JSON integer.
//! * enum      — a JSON string naming one of the enum's values.
//! * custom scalar — anything (except that `null` is still subject to non-null).
//! No string is ever coerced to a number.
//!
//! Lists: a non-list, non-null value for a list type is coerced as a list of size one, and
//! this applies recursively (spec prose of §3.11; the October 2021 table row
//! `[[Int]]  [1, 2, 3]  Error` contradicts that prose, was corrected to `[[1], [2], [3]]` in
//! the current draft, and is what graphql-js does — the prose is followed here).
//! Input objects: the value must be a JSON object; unknown keys are rejected; a field that is
//! not provided takes its (coerced) default value if it has one, else is an error if its type
//! is non-null, else is left out; an explicit `null` is kept for nullable fields.
//! A variable that is not provided takes its default value, which goes through the same
//! coercion against the declared type (graphql-js: `valueFromAST(defaultValue, varType)`).

use crate::ast::{Document, Ty, TypeKind, Value as Lit, VarDef};
use serde_json::{Map, Number, Value};
use std::collections::BTreeMap;

pub const MAX_SAFE_INT: i64 = (1 << 53) - 1;

// ---------------------------------------------------------------------------------
// Schema view
// ---------------------------------------------------------------------------------

#[derive(Debug, Clone, PartialEq)]
pub struct InputField {
    pub name: String,
    pub ty: Ty,
    pub default: Option<Lit>,
}

#[derive(Debug, Clone, PartialEq)]
pub enum InputTypeDef {
    /// custom scalar
    Scalar,
    Enum(Vec<String>),
    InputObject(Vec<InputField>),
    /// object / interface / union: not an input type
    Output,
}

/// What input coercion needs from a schema. The five built-in scalars are always defined.
#[derive(Debug, Clone, Default, PartialEq)]
pub struct InputSchema {
    pub types: BTreeMap<String, InputTypeDef>,
}

pub const BUILT_IN_SCALARS: [&str; 5] = ["Int", "Float", "String", "Boolean", "ID"];

impl InputSchema {
    /// Collect the type definitions of a mini-AST schema document (extensions are merged).
    pub fn from_document(doc: &Document) -> InputSchema {
        let mut s = InputSchema::default();
        for t in doc.types() {
            match t.kind {
                TypeKind::Scalar => {
                    s.types.entry(t.name.clone()).or_insert(InputTypeDef::Scalar);
                }
                TypeKind::Enum => {
                    let e = s.types.entry(t.name.clone()).or_insert(InputTypeDef::Enum(vec![]));
                    if let InputTypeDef::Enum(vs) = e {
                        vs.extend(t.values.iter().map(|v| v.name.clone()));
                    }
                }
                TypeKind::Input => {
                    let e = s.types.entry(t.name.clone()).or_insert(InputTypeDef::InputObject(vec![]));
                    if let InputTypeDef::InputObject(fs) = e {
                        fs.extend(t.input_fields.iter().map(|f| InputField {
                            name: f.name.clone(),
                            ty: f.ty.clone(),
                            default: f.default.clone(),
                        }));
                    }
                }
                TypeKind::Object | TypeKind::Interface | TypeKind::Union => {
                    s.types.entry(t.name.clone()).or_insert(InputTypeDef::Output);
                }
            }
        }
        s
    }
}

// ---------------------------------------------------------------------------------
// Deviation switches (DESIGN §2.2)
// ---------------------------------------------------------------------------------

#[derive(Debug, Clone, Copy, Default, PartialEq, Eq)]
pub struct Deviations {
    /// finding `C28-default-value-not-coerced`: the default value of a variable that was not
    /// provided is converted to JSON verbatim instead of being coerced to the declared type.
    pub default_value_not_coerced: bool,
    /// finding `C28-input-field-default-not-coerced`: the default value of an input-object
    /// field that was not provided is converted to JSON verbatim instead of being coerced to
    /// the field's type.
    pub input_field_default_not_coerced: bool,
}

/// Which switches changed a sub-decision during one coercion.
#[derive(Debug, Clone, Copy, Default, PartialEq, Eq)]
pub struct Fired {
    pub default_value_not_coerced: bool,
    pub input_field_default_not_coerced: bool,
}

#[derive(Debug, Clone, PartialEq, Eq)]
pub enum CoerceError {
    /// a non-null variable has neither a value nor a default, or its value is `null`
    MissingNonNullVariable(String),
    /// `null` where the type is non-null (inside a value)
    NullForNonNull(String),
    /// the value cannot be coerced to the named type
    WrongType { ty: String, value: String },
    UnknownInputField { ty: String, key: String },
    MissingNonNullInputField { ty: String, field: String },
    /// variable / field type not defined or not an input type; a literal that cannot be a
    /// constant (variables) or whose number does not fit — excluded by validation
    Invalid(String),
}

pub type CoerceResult = Result<Map<String, Value>, CoerceError>;

#[derive(Debug, Clone, PartialEq)]
pub struct Outcome {
    pub result: CoerceResult,
    pub fired: Fired,
}

// ---------------------------------------------------------------------------------
// Literals → JSON (constant values; no coercion)
// ---------------------------------------------------------------------------------

/// Convert a constant GraphQL literal to JSON *verbatim*: Int → integer, Float → float,
/// String/Enum → string, Boolean → boolean, lists and objects structurally.
pub fn literal_to_json(v: &Lit) -> Result<Value, CoerceError> {
    Ok(match v {
        Lit::Null => Value::Null,
        Lit::Bool(b) => Value::Bool(*b),
        Lit::Int(s) => match s.parse::<i64>() {
            Ok(i) => Value::Number(Number::from(i)),
            Err(_) => return Err(CoerceError::Invalid(format!("integer literal {s} out of range"))),
        },
        Lit::Float(s) => match s.parse::<f64>().ok().and_then(Number::from_f64) {
            Some(n) => Value::Number(n),
            None => return Err(CoerceError::Invalid(format!("float literal {s} out of range"))),
        },
        Lit::Str(s) => Value::String(s.clone()),
        Lit::Enum(s) => Value::String(s.clone()),
        Lit::Var(n) => return Err(CoerceError::Invalid(format!("variable ${n} in a constant"))),
        Lit::List(items) => Value::Array(items.iter().map(literal_to_json).collect::<Result<_, _>>()?),
        Lit::Object(fields) => {
            let mut m = Map::new();
            for (k, v) in fields {
                m.insert(k.clone(), literal_to_json(v)?);
            }
            Value::Object(m)
        }
    })
}

// ---------------------------------------------------------------------------------
// Input coercion of one value
// ---------------------------------------------------------------------------------

/// An integer that f64 represents exactly although its magnitude is `>= 2^53-1`: the statement
/// ("Float from finite numbers") and the pinned unit tests disagree about these.
pub fn float_integer_is_ambiguous(i: i64) -> bool {
    i.unsigned_abs() >= MAX_SAFE_INT as u64 && (i as f64) as i128 == i as i128
}

fn float_accepts(n: &Number) -> bool {
    if n.is_f64() {
        return true; // serde_json floats are finite
    }
    if let Some(i) = n.as_i64() {
        return i.unsigned_abs() < MAX_SAFE_INT as u64;
    }
    // u64 above i64::MAX
    false
}

struct Ctx<'a> {
    schema: &'a InputSchema,
    dev: Deviations,
    fired: Fired,
}

impl Ctx<'_> {
    /// Input coercion of `value` for the expected type `ty` (§3.12, §3.11, then the named type).
    fn coerce(&mut self, ty: &Ty, value: &Value) -> Result<Value, CoerceError> {
        match ty {
            // §3.12 Non-Null: null is an error, otherwise coerce as the wrapped type
            Ty::NonNull(inner) => {
                if value.is_null() {
                    return Err(CoerceError::NullForNonNull(ty.to_string()));
                }
                self.coerce(inner, value)
            }
            _ if value.is_null() => Ok(Value::Null),
            // §3.11 List
            Ty::List(item_ty) => match value {
                Value::Array(items) => Ok(Value::Array(
                    items.iter().map(|it| self.coerce(item_ty, it)).collect::<Result<_, _>>()?,
                )),
                // "If the value passed as an input to a list type is not a list and not the
                // null value, then the result of input coercion is a list of size one, where
                // the single item value is the result of input coercion for the list's item
                // type on the provided value (note this may apply recursively for nested lists)."
                single => Ok(Value::Array(vec![self.coerce(item_ty, single)?])),
            },
            Ty::Named(name) => self.coerce_named(name, value),
        }
    }

    fn coerce_named(&mut self, name: &str, value: &Value) -> Result<Value, CoerceError> {
        let wrong = || CoerceError::WrongType { ty: name.to_string(), value: value.to_string() };
        match name {
            "Int" => match value {
                Value::Number(n) if n.as_i64().is_some_and(|i| i32::try_from(i).is_ok()) && !n.is_f64() => {
                    Ok(value.clone())
                }
                _ => Err(wrong()),
            },
            "Float" => match value {
                Value::Number(n) if float_accepts(n) => Ok(value.clone()),
                _ => Err(wrong()),
            },
            "String" => match value {
                Value::String(_) => Ok(value.clone()),
                _ => Err(wrong()),
            },
            "Boolean" => match value {
                Value::Bool(_) => Ok(value.clone()),
                _ => Err(wrong()),
            },
            "ID" => match value {
                Value::String(_) => Ok(value.clone()),
                Value::Number(n) if n.is_i64() || n.is_u64() => Ok(value.clone()),
                _ => Err(wrong()),
            },
            _ => match self.schema.types.get(name) {
                None => Err(CoerceError::Invalid(format!("undefined type {name}"))),
                Some(InputTypeDef::Output) => Err(CoerceError::Invalid(format!("{name} is not an input type"))),
                Some(InputTypeDef::Scalar) => Ok(value.clone()),
                Some(InputTypeDef::Enum(values)) => match value {
                    Value::String(s) if values.iter().any(|v| v == s) => Ok(value.clone()),
                    _ => Err(wrong()),
                },
                Some(InputTypeDef::InputObject(fields)) => {
                    // §3.10 Input Objects, Input Coercion
                    let Value::Object(obj) = value else {
                        return Err(wrong());
                    };
                    if let Some(key) = obj.keys().find(|k| !fields.iter().any(|f| f.name == **k)) {
                        return Err(CoerceError::UnknownInputField { ty: name.to_string(), key: key.clone() });
                    }
                    let fields = fields.clone();
                    let mut out = Map::new();
                    for f in &fields {
                        if let Some(v) = obj.get(&f.name) {
                            out.insert(f.name.clone(), self.coerce(&f.ty, v)?);
                        } else if let Some(d) = &f.default {
                            let verbatim = literal_to_json(d)?;
                            let saved = self.fired;
                            let coerced = self.coerce(&f.ty, &verbatim);
                            if self.dev.input_field_default_not_coerced {
                                // the coerced value is only compared, not used: switches that
                                // fired inside it changed nothing
                                self.fired = saved;
                                if !coerced.is_ok_and(|c| json_equiv(&verbatim, &c)) {
                                    self.fired.input_field_default_not_coerced = true;
                                }
                                out.insert(f.name.clone(), verbatim);
                            } else {
                                out.insert(f.name.clone(), coerced?);
                            }
                        } else if f.ty.is_non_null() {
                            return Err(CoerceError::MissingNonNullInputField {
                                ty: name.to_string(),
                                field: f.name.clone(),
                            });
                        }
                    }
                    Ok(Value::Object(out))
                }
            },
        }
    }
}

/// Input coercion of a single JSON value against a type (strict).
pub fn coerce_input_value(schema: &InputSchema, ty: &Ty, value: &Value) -> Result<Value, CoerceError> {
    Ctx { schema, dev: Deviations::default(), fired: Fired::default() }.coerce(ty, value)
}

// ---------------------------------------------------------------------------------
// CoerceVariableValues
// ---------------------------------------------------------------------------------

/// `CoerceVariableValues(schema, operation, variableValues)`.
pub fn coerce_variable_values(
    schema: &InputSchema,
    variable_definitions: &[VarDef],
    variable_values: &Map<String, Value>,
    dev: Deviations,
) -> Outcome {
    let mut ctx = Ctx { schema, dev, fired: Fired::default() };
    let result = coerce_variables(&mut ctx, variable_definitions, variable_values);
    Outcome { result, fired: ctx.fired }
}

/// Strict `CoerceVariableValues`.
pub fn variables(
    schema: &InputSchema,
    variable_definitions: &[VarDef],
    variable_values: &Map<String, Value>,
) -> CoerceResult {
    coerce_variable_values(schema, variable_definitions, variable_values, Deviations::default()).result
}

fn coerce_variables(ctx: &mut Ctx<'_>, defs: &[VarDef], variable_values: &Map<String, Value>) -> CoerceResult {
    // 1. Let coercedValues be an empty unordered Map.
    let mut coerced_values = Map::new();
    // 2./3. For each variableDefinition in variablesDefinition:
    for def in defs {
        // a./b. Let variableName / variableType be the name / expected type.
        let variable_name = &def.name;
        let variable_type = &def.ty;
        // c. Assert: IsInputType(variableType) must be true.  (checked when coercing)
        // d. Let defaultValue be the default value for variableDefinition.
        let default_value = def.default.as_ref();
        // e. Let hasValue be true if variableValues provides a value for the name variableName.
        // f. Let value be the value provided in variableValues for the name variableName.
        let value = variable_values.get(variable_name);
        let has_value = value.is_some();
        // g. If hasValue is not true and defaultValue exists (including null):
        if let (false, Some(default_value)) = (has_value, default_value) {
            // i. Add an entry to coercedValues named variableName with the value defaultValue.
            let verbatim = literal_to_json(default_value)?;
            // the default value is a value *of the variable's type*: the literal is coerced
            let saved = ctx.fired;
            let coerced = ctx.coerce(variable_type, &verbatim);
            if ctx.dev.default_value_not_coerced {
                // the coerced value is only compared, not used: switches that fired inside it
                // changed nothing
                ctx.fired = saved;
                if !coerced.is_ok_and(|c| json_equiv(&verbatim, &c)) {
                    ctx.fired.default_value_not_coerced = true;
                }
                coerced_values.insert(variable_name.clone(), verbatim);
            } else {
                coerced_values.insert(variable_name.clone(), coerced?);
            }
        }
        // h. Otherwise if variableType is a Non-Nullable type, and either hasValue is not true
        //    or value is null, raise a request error.
        else if variable_type.is_non_null() && value.is_none_or(|v| v.is_null()) {
            return Err(CoerceError::MissingNonNullVariable(variable_name.clone()));
        }
        // i. Otherwise if hasValue is true:
        else if let Some(value) = value {
            // i. If value is null: add an entry named variableName with the value null.
            if value.is_null() {
                coerced_values.insert(variable_name.clone(), Value::Null);
            } else {
                // ii. Otherwise: if value cannot be coerced according to the input coercion
                //     rules of variableType, raise a request error; else add coercedValue.
                let coerced_value = ctx.coerce(variable_type, value)?;
                coerced_values.insert(variable_name.clone(), coerced_value);
            }
        }
    }
    // 4. Return coercedValues.
    Ok(coerced_values)
}

// ---------------------------------------------------------------------------------
// Conformance and comparison helpers (used by the C28 check)
// ---------------------------------------------------------------------------------

/// Is `value` a *result* value of type `ty` — i.e. what input coercion may return, with no
/// coercion left to do: lists are arrays, input objects carry exactly known keys, every field
/// with a default or a non-null type is present, scalars obey the scalar rules.
pub fn conforms(schema: &InputSchema, ty: &Ty, value: &Value) -> bool {
    match ty {
        Ty::NonNull(inner) => !value.is_null() && conforms(schema, inner, value),
        _ if value.is_null() => true,
        Ty::List(item) => match value {
            Value::Array(items) => items.iter().all(|v| conforms(schema, item, v)),
            _ => false,
        },
        Ty::Named(name) => match name.as_str() {
            "Int" => matches!(value, Value::Number(n) if !n.is_f64() && n.as_i64().is_some_and(|i| i32::try_from(i).is_ok())),
            "Float" => matches!(value, Value::Number(_)),
            "String" => value.is_string(),
            "Boolean" => value.is_boolean(),
            "ID" => matches!(value, Value::String(_)) || matches!(value, Value::Number(n) if !n.is_f64()),
            _ => match schema.types.get(name) {
                None | Some(InputTypeDef::Output) => false,
                Some(InputTypeDef::Scalar) => true,
                Some(InputTypeDef::Enum(vs)) => matches!(value, Value::String(s) if vs.iter().any(|v| v == s)),
                Some(InputTypeDef::InputObject(fields)) => {
                    let Value::Object(obj) = value else {
                        return false;
                    };
                    obj.keys().all(|k| fields.iter().any(|f| f.name == *k))
                        && fields.iter().all(|f| match obj.get(&f.name) {
                            Some(v) => conforms(schema, &f.ty, v),
                            None => f.default.is_none() && !f.ty.is_non_null(),
                        })
                }
            },
        },
    }
}

/// Equality of JSON values in which numbers are compared by numeric value (`1 == 1.0`) and
/// objects as unordered maps.
pub fn json_equiv(a: &Value, b: &Value) -> bool {
    match (a, b) {
        (Value::Number(x), Value::Number(y)) => {
            if x.is_f64() || y.is_f64() {
                match (x.as_f64(), y.as_f64()) {
                    // an integer that f64 cannot hold exactly is not equal to any float
                    (Some(fx), Some(fy)) => fx == fy && exact(x) && exact(y),
                    _ => false,
                }
            } else {
                x == y
            }
        }
        (Value::Array(x), Value::Array(y)) => x.len() == y.len() && x.iter().zip(y).all(|(p, q)| json_equiv(p, q)),
        (Value::Object(x), Value::Object(y)) => {
            x.len() == y.len() && x.iter().all(|(k, v)| y.get(k).is_some_and(|w| json_equiv(v, w)))
        }
        (Value::Null, Value::Null) => true,
        (Value::Bool(x), Value::Bool(y)) => x == y,
        (Value::String(x), Value::String(y)) => x == y,
        _ => false,
    }
}

fn exact(n: &Number) -> bool {
    if n.is_f64() {
        return true;
    }
    match (n.as_i64(), n.as_u64()) {
        (Some(i), _) => (i as f64) as i128 == i as i128,
        (None, Some(u)) => (u as f64) as u128 == u as u128,
        _ => false,
    }
}

#[cfg(test)]
mod tests {
    use super::*;
    use crate::ast::{Definition, EnumValueDef, InputValueDef, TypeDef};
    use serde_json::json;

    fn schema() -> InputSchema {
        // input ExampleInputObject { a: String  b: Int! }     (spec §3.10, example 86)
        // input In { a: Int!  b: Int = 1  c: In2  d: [Int] }  input In2 { x: Int  y: Int = 7 }
        // input In3 { e: [Int] = 1  g: In2 = {x: 1} }          enum E { A C }   scalar S
        let mut ex = TypeDef::new(TypeKind::Input, "ExampleInputObject");
        ex.input_fields.push(InputValueDef::new("a", Ty::named("String")));
        ex.input_fields.push(InputValueDef::new("b", Ty::parse("Int!")));
        let mut i = TypeDef::new(TypeKind::Input, "In");
        i.input_fields.push(InputValueDef::new("a", Ty::parse("Int!")));
        let mut b = InputValueDef::new("b", Ty::named("Int"));
        b.default = Some(Lit::int(1));
        i.input_fields.push(b);
        i.input_fields.push(InputValueDef::new("c", Ty::named("In2")));
        i.input_fields.push(InputValueDef::new("d", Ty::parse("[Int]")));
        let mut i2 = TypeDef::new(TypeKind::Input, "In2");
        i2.input_fields.push(InputValueDef::new("x", Ty::named("Int")));
        let mut y = InputValueDef::new("y", Ty::named("Int"));
        y.default = Some(Lit::int(7));
        i2.input_fields.push(y);
        let mut i3 = TypeDef::new(TypeKind::Input, "In3");
        let mut e = InputValueDef::new("e", Ty::parse("[Int]"));
        e.default = Some(Lit::int(1));
        i3.input_fields.push(e);
        let mut g = InputValueDef::new("g", Ty::named("In2"));
        g.default = Some(Lit::obj(&[("x", Lit::int(1))]));
        i3.input_fields.push(g);
        let mut en = TypeDef::new(TypeKind::Enum, "E");
        for v in ["A", "C"] {
            en.values.push(EnumValueDef { description: None, name: v.into(), directives: vec![] });
        }
        let s = TypeDef::new(TypeKind::Scalar, "S");
        let o = TypeDef::new(TypeKind::Object, "Obj");
        InputSchema::from_document(&Document {
            defs: [ex, i, i2, i3, en, s, o].into_iter().map(Definition::Type).collect(),
        })
    }

    fn c(ty: &str, v: Value) -> Result<Value, CoerceError> {
        coerce_input_value(&schema(), &Ty::parse(ty), &v)
    }

    /// §3.11 List, Input Coercion table (with the `[[Int]] [1,2,3]` row as corrected in the draft)
    #[test]
    fn list_coercion_table() {
        assert_eq!(c("[Int]", json!([1, 2, 3])), Ok(json!([1, 2, 3])));
        assert!(c("[Int]", json!([1, "b", true])).is_err());
        assert_eq!(c("[Int]", json!(1)), Ok(json!([1])));
        assert_eq!(c("[Int]", json!(null)), Ok(json!(null)));
        assert_eq!(c("[[Int]]", json!([[1], [2, 3]])), Ok(json!([[1], [2, 3]])));
        assert_eq!(c("[[Int]]", json!([1, 2, 3])), Ok(json!([[1], [2], [3]])));
        assert_eq!(c("[[Int]]", json!(1)), Ok(json!([[1]])));
        assert_eq!(c("[[Int]]", json!(null)), Ok(json!(null)));
    }

    /// §3.10 Input Objects, Input Coercion table (`{ a: String, b: Int! }`), JSON-value rows
    #[test]
    fn input_object_coercion_table() {
        let t = "ExampleInputObject";
        assert_eq!(c(t, json!({"a": "abc", "b": 123})), Ok(json!({"a": "abc", "b": 123})));
        assert_eq!(c(t, json!({"a": null, "b": 123})), Ok(json!({"a": null, "b": 123})));
        assert_eq!(c(t, json!({"b": 123})), Ok(json!({"b": 123})));
        assert!(c(t, json!({"a": "abc", "b": "123"})).is_err()); // Error: Incorrect value
        assert!(c(t, json!({"a": "abc"})).is_err()); // Error: Missing required field b
        assert!(c(t, json!({"a": "abc", "b": null})).is_err()); // Error: b must be non-null
        assert!(c(t, json!({"b": 123, "c": "xyz"})).is_err()); // Error: Unexpected field c
    }

    /// §3.12 Non-Null, and combinations of lists and non-null (table in §3.12)
    #[test]
    fn list_non_null_table() {
        assert_eq!(c("[Int]", json!([1, null, 3])), Ok(json!([1, null, 3])));
        assert!(c("[Int]!", json!(null)).is_err());
        assert_eq!(c("[Int]!", json!([1, null])), Ok(json!([1, null])));
        assert_eq!(c("[Int!]", json!(null)), Ok(json!(null)));
        assert!(c("[Int!]", json!([1, null])).is_err());
        assert!(c("[Int!]!", json!(null)).is_err());
        assert!(c("[Int!]!", json!([1, null])).is_err());
        assert_eq!(c("[Int!]!", json!([1, 2])), Ok(json!([1, 2])));
    }

    #[test]
    fn scalars() {
        assert!(c("Int", json!(2147483647)).is_ok());
        assert!(c("Int", json!(-2147483648i64)).is_ok());
        assert!(c("Int", json!(2147483648i64)).is_err());
        assert!(c("Int", json!(-2147483649i64)).is_err());
        assert!(c("Int", json!(1.5)).is_err());
        assert!(c("Int", json!("1")).is_err());
        assert!(c("Int", json!(true)).is_err());
        // pinned unit tests of input_coercion.rs
        assert!(c("Float!", json!(9007199254740991.5f64)).is_ok());
        assert!(c("Float!", json!(14)).is_ok());
        assert!(c("Float!", json!(i64::MAX)).is_err());
        assert!(c("Float!", json!("14")).is_err());
        assert!(c("Float", json!(9007199254740990i64)).is_ok());
        assert!(c("Float", json!(9007199254740993i64)).is_err());
        assert!(float_integer_is_ambiguous(9007199254740991) && float_integer_is_ambiguous(9007199254740992));
        assert!(float_integer_is_ambiguous(1 << 60) && float_integer_is_ambiguous(-(1 << 53)));
        assert!(!float_integer_is_ambiguous(9007199254740990) && !float_integer_is_ambiguous(9007199254740993));
        assert!(!float_integer_is_ambiguous(i64::MAX));
        assert!(c("String", json!("a")).is_ok() && c("String", json!(1)).is_err());
        assert!(c("Boolean", json!(true)).is_ok() && c("Boolean", json!(1)).is_err() && c("Boolean", json!("true")).is_err());
        assert!(c("ID", json!("a")).is_ok() && c("ID", json!(4)).is_ok() && c("ID", json!(i64::MAX)).is_ok());
        assert!(c("ID", json!(1.5)).is_err() && c("ID", json!(true)).is_err());
        assert!(c("E", json!("A")).is_ok() && c("E", json!("B")).is_err() && c("E", json!(1)).is_err());
        assert_eq!(c("S", json!({"k": [1, "x"]})), Ok(json!({"k": [1, "x"]})));
        assert!(c("S!", json!(null)).is_err());
        assert!(matches!(c("Obj", json!({})), Err(CoerceError::Invalid(_))));
        assert!(matches!(c("Nope", json!(1)), Err(CoerceError::Invalid(_))));
    }

    #[test]
    fn input_objects_fill_defaults_recursively() {
        assert_eq!(c("In", json!({"a": 1})), Ok(json!({"a": 1, "b": 1})));
        assert_eq!(c("In", json!({"a": 1, "b": null})), Ok(json!({"a": 1, "b": null})));
        assert_eq!(
            c("In", json!({"a": 1, "c": {"x": 1}, "d": 2})),
            Ok(json!({"a": 1, "b": 1, "c": {"x": 1, "y": 7}, "d": [2]}))
        );
        assert_eq!(c("[In]", json!({"a": 1})), Ok(json!([{"a": 1, "b": 1}])));
        assert!(c("In", json!([{"a": 1}])).is_err());
        assert!(c("In", json!({"a": 1, "c": {"zz": 1}})).is_err());
        // field defaults are coerced to the field's type
        assert_eq!(c("In3", json!({})), Ok(json!({"e": [1], "g": {"x": 1, "y": 7}})));
    }

    fn var(name: &str, ty: &str, default: Option<Lit>) -> VarDef {
        VarDef { name: name.into(), ty: Ty::parse(ty), default, directives: vec![] }
    }

    fn vars(defs: &[VarDef], provided: Value) -> CoerceResult {
        variables(&schema(), defs, provided.as_object().unwrap())
    }

    /// the algorithm of §6.1.2 step by step
    #[test]
    fn coerce_variable_values_steps() {
        let m = |v: Value| v.as_object().unwrap().clone();
        // g: no value, default exists (including null)
        assert_eq!(vars(&[var("v", "Int", Some(Lit::int(3)))], json!({})), Ok(m(json!({"v": 3}))));
        assert_eq!(vars(&[var("v", "Int", Some(Lit::Null))], json!({})), Ok(m(json!({"v": null}))));
        assert_eq!(vars(&[var("v", "Int!", Some(Lit::int(3)))], json!({})), Ok(m(json!({"v": 3}))));
        // h: non-null, no value / null value
        assert!(vars(&[var("v", "Int!", None)], json!({})).is_err());
        assert!(vars(&[var("v", "Int!", None)], json!({"v": null})).is_err());
        assert!(vars(&[var("v", "Int!", Some(Lit::int(3)))], json!({"v": null})).is_err());
        // i.i: explicit null
        assert_eq!(vars(&[var("v", "Int", Some(Lit::int(3)))], json!({"v": null})), Ok(m(json!({"v": null}))));
        // i.ii: coercion
        assert_eq!(vars(&[var("v", "[Int]", None)], json!({"v": 1})), Ok(m(json!({"v": [1]}))));
        assert!(vars(&[var("v", "Int", None)], json!({"v": "1"})).is_err());
        // neither value nor default, nullable: no entry
        assert_eq!(vars(&[var("v", "Int", None)], json!({})), Ok(m(json!({}))));
        // undeclared keys are not copied; several variables
        assert_eq!(
            vars(&[var("v", "Int", None), var("w", "E", None)], json!({"w": "A", "zz": 1})),
            Ok(m(json!({"w": "A"})))
        );
        assert!(vars(&[var("v", "Int", None), var("w", "E", None)], json!({"w": "B"})).is_err());
    }

    /// the witness of finding C28-default-value-not-coerced
    #[test]
    fn defaults_are_coerced_and_the_switch_reproduces_the_defect() {
        let defs = [
            var("v", "[Int]", Some(Lit::int(1))),
            var("w", "In", Some(Lit::obj(&[("a", Lit::int(2))]))),
        ];
        let s = schema();
        let none = Map::new();
        let strict = coerce_variable_values(&s, &defs, &none, Deviations::default());
        assert_eq!(strict.result, Ok(json!({"v": [1], "w": {"a": 2, "b": 1}}).as_object().unwrap().clone()));
        assert_eq!(strict.fired, Fired::default());
        let dev = Deviations { default_value_not_coerced: true, ..Default::default() };
        let d = coerce_variable_values(&s, &defs, &none, dev);
        assert_eq!(d.result, Ok(json!({"v": 1, "w": {"a": 2}}).as_object().unwrap().clone()));
        assert!(d.fired.default_value_not_coerced);
        // a default that needs no coercion does not fire
        let d = coerce_variable_values(&s, &[var("v", "Int", Some(Lit::int(1)))], &none, dev);
        assert!(!d.fired.default_value_not_coerced);
        // input-field defaults
        let dev2 = Deviations { input_field_default_not_coerced: true, ..Default::default() };
        let p = json!({"v": {}}).as_object().unwrap().clone();
        let d = coerce_variable_values(&s, &[var("v", "In3", None)], &p, dev2);
        assert_eq!(d.result, Ok(json!({"v": {"e": 1, "g": {"x": 1}}}).as_object().unwrap().clone()));
        assert!(d.fired.input_field_default_not_coerced);
        // both switches on, default `{}` of an In3 variable: only the outer switch decides
        let both = Deviations { default_value_not_coerced: true, input_field_default_not_coerced: true };
        let d = coerce_variable_values(&s, &[var("v", "In3", Some(Lit::obj(&[])))], &none, both);
        assert_eq!(d.result, Ok(json!({"v": {}}).as_object().unwrap().clone()));
        assert_eq!(d.fired, Fired { default_value_not_coerced: true, input_field_default_not_coerced: false });
        let p = json!({"v": {"a": 1}}).as_object().unwrap().clone();
        let d = coerce_variable_values(&s, &[var("v", "In", None)], &p, dev2);
        assert_eq!(d.result, Ok(json!({"v": {"a": 1, "b": 1}}).as_object().unwrap().clone()));
        assert!(!d.fired.input_field_default_not_coerced);
    }

    #[test]
    fn literals_and_helpers() {
        let l = Lit::obj(&[("k", Lit::List(vec![Lit::int(1), Lit::en("A"), Lit::Float("1.5".into()), Lit::str("s"), Lit::Null, Lit::Bool(true)]))]);
        assert_eq!(literal_to_json(&l), Ok(json!({"k": [1, "A", 1.5, "s", null, true]})));
        assert!(literal_to_json(&Lit::var("v")).is_err());
        assert!(json_equiv(&json!(1), &json!(1.0)) && !json_equiv(&json!(1), &json!(1.5)));
        assert!(!json_equiv(&json!(9007199254740993i64), &json!(9007199254740992.0)));
        assert!(json_equiv(&json!({"a": 1, "b": [2]}), &json!({"b": [2.0], "a": 1})));
        assert!(!json_equiv(&json!({"a": 1}), &json!({"a": 1, "b": null})));
        let s = schema();
        assert!(conforms(&s, &Ty::parse("[Int]"), &json!([1])) && !conforms(&s, &Ty::parse("[Int]"), &json!(1)));
        assert!(conforms(&s, &Ty::parse("In"), &json!({"a": 1, "b": 1})));
        assert!(!conforms(&s, &Ty::parse("In"), &json!({"a": 1}))); // default not filled
        assert!(!conforms(&s, &Ty::parse("In"), &json!({"a": 1, "b": 1, "zz": 1})));
        assert!(!conforms(&s, &Ty::parse("Int"), &json!(1.0)) && conforms(&s, &Ty::parse("Float"), &json!(1)));
        assert!(!conforms(&s, &Ty::parse("Int!"), &json!(null)) && conforms(&s, &Ty::parse("Int"), &json!(null)));
    }
}
