//! `compat` — the three type-compatibility algorithms of the GraphQL specification, verbatim
//! (DESIGN.md §5.4, Appendix A.7; judges C29, used by the C14/C17 models):
//!
//! * `AreTypesCompatible(variableType, locationType)`            — spec §5.8.5
//! * `IsVariableUsageAllowed(variableDefinition, variableUsage)`  — spec §5.8.5
//! * `IsValidImplementationFieldType(fieldType, implementedFieldType)` — spec §3.6 / §3.7
//!
//! They work on `refmodel::ast::Ty`. The only schema knowledge needed (by the third one) is a
//! tiny subtype oracle, `TypeRelations`.
//!
//! Each function is a line-by-line transcription; the spec step is quoted above the line that
//! implements it. Nothing here depends on an apollo crate.

use crate::ast::{Ty, Value};
use std::collections::{BTreeMap, BTreeSet};

// ---------------------------------------------------------------------------------
// AreTypesCompatible
// ---------------------------------------------------------------------------------

/// `AreTypesCompatible(variableType, locationType)`.
pub fn are_types_compatible(variable_type: &Ty, location_type: &Ty) -> bool {
    // 1. If locationType is a non-null type:
    if let Ty::NonNull(nullable_location_type) = location_type {
        // a. If variableType is NOT a non-null type, return false.
        let Ty::NonNull(nullable_variable_type) = variable_type else {
            return false;
        };
        // b./c. Let nullableLocationType / nullableVariableType be the unwrapped nullable types.
        // d. Return AreTypesCompatible(nullableVariableType, nullableLocationType).
        return are_types_compatible(nullable_variable_type, nullable_location_type);
    }
    // 2. Otherwise, if variableType is a non-null type:
    if let Ty::NonNull(nullable_variable_type) = variable_type {
        // a. Let nullableVariableType be the nullable type of variableType.
        // b. Return AreTypesCompatible(nullableVariableType, locationType).
        return are_types_compatible(nullable_variable_type, location_type);
    }
    // 3. Otherwise, if locationType is a list type:
    if let Ty::List(item_location_type) = location_type {
        // a. If variableType is NOT a list type, return false.
        let Ty::List(item_variable_type) = variable_type else {
            return false;
        };
        // b./c. Let itemLocationType / itemVariableType be the unwrapped item types.
        // d. Return AreTypesCompatible(itemVariableType, itemLocationType).
        return are_types_compatible(item_variable_type, item_location_type);
    }
    // 4. Otherwise, if variableType is a list type, return false.
    if let Ty::List(_) = variable_type {
        return false;
    }
    // 5. Return true if variableType and locationType are identical, otherwise false.
    variable_type == location_type
}

// ---------------------------------------------------------------------------------
// IsVariableUsageAllowed
// ---------------------------------------------------------------------------------

/// Deviation switches (DESIGN §2.2): every one reproduces a listed defect of apollo-rs exactly;
/// all are off unless the corresponding finding is open in /verif/known_findings.json.
#[derive(Debug, Clone, Copy, Default, PartialEq, Eq)]
pub struct Deviations {
    /// finding `C29-null-default-counts-as-default`: `hasNonNullVariableDefaultValue` is
    /// computed as "a default value exists", so the default `null` counts as well.
    pub null_default_counts_as_default: bool,
}

/// Verdict plus the information whether a deviation switch changed a sub-decision.
#[derive(Debug, Clone, Copy, PartialEq, Eq)]
pub struct UsageVerdict {
    pub allowed: bool,
    /// `null_default_counts_as_default` was on and changed `hasNonNullVariableDefaultValue`
    pub null_default_fired: bool,
}

/// `IsVariableUsageAllowed(variableDefinition, variableUsage)` — strict.
///
/// `variable_default`: the default value literal of the variable definition, if any.
/// `location_has_default`: a default value exists for the argument / input field where the
/// variable is used.
pub fn is_variable_usage_allowed(
    variable_type: &Ty,
    variable_default: Option<&Value>,
    location_type: &Ty,
    location_has_default: bool,
) -> bool {
    is_variable_usage_allowed_with(
        variable_type,
        variable_default,
        location_type,
        location_has_default,
        Deviations::default(),
    )
    .allowed
}

/// The same algorithm with deviation switches.
pub fn is_variable_usage_allowed_with(
    variable_type: &Ty,
    variable_default: Option<&Value>,
    location_type: &Ty,
    location_has_default: bool,
    dev: Deviations,
) -> UsageVerdict {
    let mut null_default_fired = false;
    // 1./2. Let variableType / locationType be the expected types.
    // 3. If locationType is a non-null type AND variableType is NOT a non-null type:
    if let (Ty::NonNull(nullable_location_type), false) = (location_type, variable_type.is_non_null()) {
        // a. Let hasNonNullVariableDefaultValue be true if a default value exists for
        //    variableDefinition and is not the value null.
        let mut has_non_null_variable_default_value =
            matches!(variable_default, Some(v) if *v != Value::Null);
        if dev.null_default_counts_as_default && matches!(variable_default, Some(Value::Null)) {
            has_non_null_variable_default_value = true;
            null_default_fired = true;
        }
        // b. Let hasLocationDefaultValue be true if a default value exists for the Argument or
        //    ObjectField where variableUsage is located.
        let has_location_default_value = location_has_default;
        // c. If hasNonNullVariableDefaultValue is NOT true AND hasLocationDefaultValue is NOT
        //    true, return false.
        if !has_non_null_variable_default_value && !has_location_default_value {
            return UsageVerdict { allowed: false, null_default_fired };
        }
        // d. Let nullableLocationType be the unwrapped nullable type of locationType.
        // e. Return AreTypesCompatible(variableType, nullableLocationType).
        // (the switch only matters if it decided step c.)
        let fired = null_default_fired && !has_location_default_value;
        return UsageVerdict {
            allowed: are_types_compatible(variable_type, nullable_location_type),
            null_default_fired: fired,
        };
    }
    // 4. Return AreTypesCompatible(variableType, locationType).
    UsageVerdict {
        allowed: are_types_compatible(variable_type, location_type),
        null_default_fired,
    }
}

// ---------------------------------------------------------------------------------
// IsValidImplementationFieldType
// ---------------------------------------------------------------------------------

/// The schema knowledge `IsValidImplementationFieldType` needs: kinds of named types, union
/// membership ("possible type of") and *declared* interface implementation.
pub trait TypeRelations {
    fn is_object(&self, name: &str) -> bool;
    fn is_interface(&self, name: &str) -> bool;
    fn is_union(&self, name: &str) -> bool;
    /// `object` is one of the member types of the union `union`
    fn union_has_member(&self, union: &str, object: &str) -> bool;
    /// the object or interface type `ty` declares `implements iface`
    fn declares_implements(&self, ty: &str, iface: &str) -> bool;
}

/// A plain-data `TypeRelations`.
#[derive(Debug, Clone, Default, PartialEq, Eq)]
pub struct SimpleRelations {
    pub objects: BTreeSet<String>,
    pub interfaces: BTreeSet<String>,
    pub unions: BTreeSet<String>,
    /// union name -> member names
    pub members: BTreeMap<String, BTreeSet<String>>,
    /// object / interface name -> names in its `implements` list
    pub implements: BTreeMap<String, BTreeSet<String>>,
}

impl SimpleRelations {
    pub fn object(mut self, name: &str, implements: &[&str]) -> Self {
        self.objects.insert(name.to_string());
        self.implements
            .entry(name.to_string())
            .or_default()
            .extend(implements.iter().map(|s| s.to_string()));
        self
    }
    pub fn interface(mut self, name: &str, implements: &[&str]) -> Self {
        self.interfaces.insert(name.to_string());
        self.implements
            .entry(name.to_string())
            .or_default()
            .extend(implements.iter().map(|s| s.to_string()));
        self
    }
    pub fn union(mut self, name: &str, members: &[&str]) -> Self {
        self.unions.insert(name.to_string());
        self.members
            .entry(name.to_string())
            .or_default()
            .extend(members.iter().map(|s| s.to_string()));
        self
    }
    /// Collect the relations from the type definitions (and extensions) of a mini-AST document.
    pub fn from_document(doc: &crate::ast::Document) -> Self {
        use crate::ast::TypeKind;
        let mut r = SimpleRelations::default();
        for t in doc.types() {
            match t.kind {
                TypeKind::Object => {
                    r.objects.insert(t.name.clone());
                }
                TypeKind::Interface => {
                    r.interfaces.insert(t.name.clone());
                }
                TypeKind::Union => {
                    r.unions.insert(t.name.clone());
                }
                _ => {}
            }
            if matches!(t.kind, TypeKind::Object | TypeKind::Interface) {
                r.implements.entry(t.name.clone()).or_default().extend(t.implements.iter().cloned());
            }
            if t.kind == TypeKind::Union {
                r.members.entry(t.name.clone()).or_default().extend(t.members.iter().cloned());
            }
        }
        r
    }
}

impl TypeRelations for SimpleRelations {
    fn is_object(&self, name: &str) -> bool {
        self.objects.contains(name)
    }
    fn is_interface(&self, name: &str) -> bool {
        self.interfaces.contains(name)
    }
    fn is_union(&self, name: &str) -> bool {
        self.unions.contains(name)
    }
    fn union_has_member(&self, union: &str, object: &str) -> bool {
        self.members.get(union).is_some_and(|m| m.contains(object))
    }
    fn declares_implements(&self, ty: &str, iface: &str) -> bool {
        self.implements.get(ty).is_some_and(|m| m.contains(iface))
    }
}

/// `IsValidImplementationFieldType(fieldType, implementedFieldType)`: `field_type` is the type
/// of the field of the *implementing* object / interface, `implemented_field_type` the type of
/// the same-named field of the implemented interface.
pub fn is_valid_implementation_field_type(
    field_type: &Ty,
    implemented_field_type: &Ty,
    rel: &dyn TypeRelations,
) -> bool {
    // 1. If fieldType is a Non-Null type:
    if let Ty::NonNull(nullable_type) = field_type {
        // a. Let nullableType be the unwrapped nullable type of fieldType.
        // b. Let implementedNullableType be the unwrapped nullable type of implementedFieldType
        //    if it is a Non-Null type, otherwise let it be implementedFieldType directly.
        let implemented_nullable_type = match implemented_field_type {
            Ty::NonNull(t) => t,
            t => t,
        };
        // c. Return IsValidImplementationFieldType(nullableType, implementedNullableType).
        return is_valid_implementation_field_type(nullable_type, implemented_nullable_type, rel);
    }
    // 2. If fieldType is a List type and implementedFieldType is also a List type:
    if let (Ty::List(item_type), Ty::List(implemented_item_type)) = (field_type, implemented_field_type) {
        // a./b. Let itemType / implementedItemType be the unwrapped item types.
        // c. Return IsValidImplementationFieldType(itemType, implementedItemType).
        return is_valid_implementation_field_type(item_type, implemented_item_type, rel);
    }
    // 3. If fieldType is the same type as implementedFieldType then return true.
    if field_type == implemented_field_type {
        return true;
    }
    if let (Ty::Named(f), Ty::Named(i)) = (field_type, implemented_field_type) {
        // 4. If fieldType is an Object type and implementedFieldType is a Union type and
        //    fieldType is a possible type of implementedFieldType then return true.
        if rel.is_object(f) && rel.is_union(i) && rel.union_has_member(i, f) {
            return true;
        }
        // 5. If fieldType is an Object or Interface type and implementedFieldType is an
        //    Interface type and fieldType declares it implements implementedFieldType then
        //    return true.
        if (rel.is_object(f) || rel.is_interface(f)) && rel.is_interface(i) && rel.declares_implements(f, i) {
            return true;
        }
    }
    // 6. Otherwise return false.
    false
}

#[cfg(test)]
mod tests {
    use super::*;

    fn t(s: &str) -> Ty {
        Ty::parse(s)
    }

    /// §5.8.5 "All Variable Usages Are Allowed", examples 181–187 (October 2021 numbering:
    /// the `intCannotGoIntoBoolean`, `booleanListCannotGoIntoBoolean`, ... family).
    #[test]
    fn variable_usage_spec_examples() {
        // Counter Example: query intCannotGoIntoBoolean($intArg: Int) { booleanArgField(booleanArg: $intArg) }
        assert!(!is_variable_usage_allowed(&t("Int"), None, &t("Boolean"), false));
        // Counter Example: booleanListCannotGoIntoBoolean($booleanListArg: [Boolean]) -> booleanArg: Boolean
        assert!(!is_variable_usage_allowed(&t("[Boolean]"), None, &t("Boolean"), false));
        // Counter Example: booleanArgQuery($booleanArg: Boolean) { nonNullBooleanArgField(nonNullBooleanArg: $booleanArg) }
        assert!(!is_variable_usage_allowed(&t("Boolean"), None, &t("Boolean!"), false));
        // Example: nonNullListToList($nonNullBooleanList: [Boolean]!) -> booleanListArg: [Boolean]
        assert!(is_variable_usage_allowed(&t("[Boolean]!"), None, &t("[Boolean]"), false));
        // Counter Example: listToNonNullList($booleanList: [Boolean]) -> nonNullBooleanListArg: [Boolean]!
        assert!(!is_variable_usage_allowed(&t("[Boolean]"), None, &t("[Boolean]!"), false));
        // Example: booleanArgQueryWithDefault($booleanArg: Boolean) { optionalNonNullBooleanArgField(optionalBooleanArg: $booleanArg) }
        //   optionalNonNullBooleanArgField(optionalBooleanArg: Boolean! = false)
        assert!(is_variable_usage_allowed(&t("Boolean"), None, &t("Boolean!"), true));
        // Example: booleanArgQueryWithDefault($booleanArg: Boolean = true) { nonNullBooleanArgField(nonNullBooleanArg: $booleanArg) }
        assert!(is_variable_usage_allowed(&t("Boolean"), Some(&Value::Bool(true)), &t("Boolean!"), false));
    }

    /// "hasNonNullVariableDefaultValue be true if a default value exists ... and is not the
    /// value null"
    #[test]
    fn null_default_is_not_a_non_null_default() {
        assert!(!is_variable_usage_allowed(&t("Int"), Some(&Value::Null), &t("Int!"), false));
        assert!(is_variable_usage_allowed(&t("Int"), Some(&Value::Null), &t("Int!"), true));
        assert!(is_variable_usage_allowed(&t("Int"), Some(&Value::Null), &t("Int"), false));
        // the default does not rescue an incompatible type
        assert!(!is_variable_usage_allowed(&t("[Int]"), Some(&Value::int(1)), &t("Int!"), false));
        // ... and applies to the outermost level only
        assert!(!is_variable_usage_allowed(&t("[Int]"), Some(&Value::List(vec![])), &t("[Int!]"), true));
        assert!(is_variable_usage_allowed(&t("[Int!]"), Some(&Value::List(vec![])), &t("[Int]!"), false));
        // deviation switch reproduces the listed defect and reports that it fired
        let dev = Deviations { null_default_counts_as_default: true };
        let v = is_variable_usage_allowed_with(&t("Int"), Some(&Value::Null), &t("Int!"), false, dev);
        assert_eq!(v, UsageVerdict { allowed: true, null_default_fired: true });
        let v = is_variable_usage_allowed_with(&t("Int"), Some(&Value::Null), &t("Int!"), true, dev);
        assert_eq!(v, UsageVerdict { allowed: true, null_default_fired: false });
        let v = is_variable_usage_allowed_with(&t("Int"), Some(&Value::int(1)), &t("Int!"), false, dev);
        assert_eq!(v, UsageVerdict { allowed: true, null_default_fired: false });
        let v = is_variable_usage_allowed_with(&t("Int"), None, &t("Int!"), false, dev);
        assert_eq!(v, UsageVerdict { allowed: false, null_default_fired: false });
    }

    #[test]
    fn are_types_compatible_structure() {
        let yes = [
            ("Int", "Int"),
            ("Int!", "Int"),
            ("Int!", "Int!"),
            ("[Int]", "[Int]"),
            ("[Int!]", "[Int]"),
            ("[Int!]!", "[Int]"),
            ("[Int]!", "[Int]!"),
            ("[[Int!]!]!", "[[Int]]"),
        ];
        let no = [
            ("Int", "Int!"),
            ("Int", "String"),
            ("Int", "[Int]"),
            ("[Int]", "Int"),
            ("[Int]", "[Int!]"),
            ("[Int]", "[Int]!"),
            ("[[Int]]", "[Int]"),
            ("[[Int]!]", "[[Int!]]"),
            // no subtyping in AreTypesCompatible: names must be identical
            ("Obj", "Itf"),
        ];
        for (v, l) in yes {
            assert!(are_types_compatible(&t(v), &t(l)), "{v} -> {l}");
        }
        for (v, l) in no {
            assert!(!are_types_compatible(&t(v), &t(l)), "{v} -> {l}");
        }
    }

    fn rel() -> SimpleRelations {
        SimpleRelations::default()
            .interface("Itf", &[])
            .interface("Sub", &["Itf"])
            .object("Obj", &["Itf"])
            .object("Other", &[])
            .union("Uni", &["Obj"])
    }

    /// §3.6.? "IsValidImplementation" prose: "An object field type is a valid sub-type if it is
    /// equal to (the same type as) the interface field type", "... a possible type of a union",
    /// "... implements the interface", list wrapping, non-null variant.
    #[test]
    fn implementation_field_type() {
        let r = rel();
        let yes = [
            ("Int", "Int"),
            ("Int!", "Int"),
            ("Int!", "Int!"),
            ("Obj", "Itf"),
            ("Obj!", "Itf"),
            ("Obj", "Uni"),
            ("Sub", "Itf"),
            ("[Obj]", "[Itf]"),
            ("[Obj!]!", "[Itf]"),
            ("[[Obj]]", "[[Uni]]"),
            ("Itf", "Itf"),
        ];
        let no = [
            ("Int", "Int!"),
            ("Itf", "Obj"),
            ("Uni", "Obj"),
            ("Other", "Itf"),
            ("Other", "Uni"),
            ("Sub", "Uni"),
            ("Itf", "Uni"),
            ("[Obj]", "Itf"),
            ("Obj", "[Itf]"),
            ("[Obj]", "[Itf!]"),
            ("[Obj]", "[Itf]!"),
            ("[[Obj]]", "[Itf]"),
            ("Int", "Itf"),
        ];
        for (f, i) in yes {
            assert!(is_valid_implementation_field_type(&t(f), &t(i), &r), "{f} implements {i}");
        }
        for (f, i) in no {
            assert!(!is_valid_implementation_field_type(&t(f), &t(i), &r), "{f} implements {i}");
        }
    }

    #[test]
    fn relations_from_document() {
        use crate::ast::*;
        let mut o = TypeDef::new(TypeKind::Object, "Obj");
        o.implements.push("Itf".into());
        let i = TypeDef::new(TypeKind::Interface, "Itf");
        let mut u = TypeDef::new(TypeKind::Union, "Uni");
        u.members.push("Obj".into());
        let d = Document { defs: vec![Definition::Type(o), Definition::Type(i), Definition::Type(u)] };
        let r = SimpleRelations::from_document(&d);
        assert!(r.is_object("Obj") && r.is_interface("Itf") && r.is_union("Uni"));
        assert!(r.declares_implements("Obj", "Itf") && r.union_has_member("Uni", "Obj"));
        assert!(!r.declares_implements("Itf", "Obj") && !r.union_has_member("Uni", "Itf"));
    }
}
