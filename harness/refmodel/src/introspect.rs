//! Reference introspection over the mini-AST (DESIGN.md §6 C24, Appendix A.6).
//!
//! A transcription of graphql-js v16 (16.0 – 16.8, i.e. before `@oneOf` / `isOneOf`):
//!   * `buildASTSchema` / `extendSchemaImpl` as far as introspection can see it (type and
//!     member order = document order, extensions appended after the definition, root
//!     operation types by convention when there is no `schema` definition, the four specified
//!     directives added, `String`/`Boolean` always in the type map, `Int`/`Float`/`ID` when
//!     referenced by a type or a directive definition),
//!   * the resolvers of `type/introspection.ts`,
//!   * `valueFromAST` (default-value literals are coerced when the schema is built; missing
//!     input-object fields are FILLED with the field's own coerced default, unknown fields are
//!     dropped, a single value is wrapped for a list type),
//!   * `astFromValue` + `print` + `printString` (what `__InputValue.defaultValue` prints),
//!   * a small executor for introspection operations (CollectFields with fragment type
//!     conditions, aliases, `includeDeprecated` with its default `false`).
//!
//! Deviation switch `default_value_printed_verbatim` (known finding
//! `C24-default-value-printed-verbatim`): `defaultValue` is the literal as written,
//! re-serialised the way apollo's `serialize().no_indent()` prints a value.
//!
//! `Err(..)` from any function here means "outside the modelled alphabet" (e.g. a list literal
//! as the default of a custom scalar, for which graphql-js throws), never a verdict.

use crate::ast::*;
use serde_json::{json, Map, Value as J};
use std::collections::BTreeMap;

#[derive(Debug, Clone, Copy, Default, PartialEq, Eq)]
pub struct Switches {
    pub default_value_printed_verbatim: bool,
}

pub const BUILTIN_SCALARS: [&str; 5] = ["Int", "Float", "String", "Boolean", "ID"];
pub const BUILTIN_DIRECTIVES: [&str; 4] = ["skip", "include", "deprecated", "specifiedBy"];

// ---------------------------------------------------------------------------------
// Schema model
// ---------------------------------------------------------------------------------

#[derive(Debug, Clone)]
pub struct Model {
    pub description: Option<String>,
    pub query: Option<Name>,
    pub mutation: Option<Name>,
    pub subscription: Option<Name>,
    /// every named type of the type map (user types in document order, then the built-ins;
    /// the order of this list is not part of the contract)
    pub types: Vec<TypeDef>,
    pub directives: Vec<DirectiveDef>,
}

impl Model {
    pub fn ty(&self, name: &str) -> Option<&TypeDef> {
        self.types.iter().find(|t| t.name == name)
    }
}

fn fd(name: &str, ty: &str) -> FieldDef {
    FieldDef::new(name, Ty::parse(ty))
}

fn include_deprecated_arg() -> InputValueDef {
    let mut a = InputValueDef::new("includeDeprecated", Ty::named("Boolean"));
    a.default = Some(Value::Bool(false));
    a
}

fn with_incl(mut f: FieldDef) -> FieldDef {
    f.args.push(include_deprecated_arg());
    f
}

fn object(name: &str, fields: Vec<FieldDef>) -> TypeDef {
    let mut t = TypeDef::new(TypeKind::Object, name);
    t.fields = fields;
    t
}

fn enumeration(name: &str, values: &[&str]) -> TypeDef {
    let mut t = TypeDef::new(TypeKind::Enum, name);
    t.values = values
        .iter()
        .map(|v| EnumValueDef { description: None, name: v.to_string(), directives: vec![] })
        .collect();
    t
}

pub const DIRECTIVE_LOCATIONS: [&str; 19] = [
    "QUERY",
    "MUTATION",
    "SUBSCRIPTION",
    "FIELD",
    "FRAGMENT_DEFINITION",
    "FRAGMENT_SPREAD",
    "INLINE_FRAGMENT",
    "VARIABLE_DEFINITION",
    "SCHEMA",
    "SCALAR",
    "OBJECT",
    "FIELD_DEFINITION",
    "ARGUMENT_DEFINITION",
    "INTERFACE",
    "UNION",
    "ENUM",
    "ENUM_VALUE",
    "INPUT_OBJECT",
    "INPUT_FIELD_DEFINITION",
];

/// The introspection types of graphql-js v16 `type/introspection.ts` (descriptions omitted:
/// they are not compared).
pub fn introspection_types() -> Vec<TypeDef> {
    vec![
        object(
            "__Schema",
            vec![
                fd("description", "String"),
                fd("types", "[__Type!]!"),
                fd("queryType", "__Type!"),
                fd("mutationType", "__Type"),
                fd("subscriptionType", "__Type"),
                fd("directives", "[__Directive!]!"),
            ],
        ),
        object(
            "__Type",
            vec![
                fd("kind", "__TypeKind!"),
                fd("name", "String"),
                fd("description", "String"),
                fd("specifiedByURL", "String"),
                with_incl(fd("fields", "[__Field!]")),
                fd("interfaces", "[__Type!]"),
                fd("possibleTypes", "[__Type!]"),
                with_incl(fd("enumValues", "[__EnumValue!]")),
                with_incl(fd("inputFields", "[__InputValue!]")),
                fd("ofType", "__Type"),
            ],
        ),
        enumeration(
            "__TypeKind",
            &["SCALAR", "OBJECT", "INTERFACE", "UNION", "ENUM", "INPUT_OBJECT", "LIST", "NON_NULL"],
        ),
        object(
            "__Field",
            vec![
                fd("name", "String!"),
                fd("description", "String"),
                with_incl(fd("args", "[__InputValue!]!")),
                fd("type", "__Type!"),
                fd("isDeprecated", "Boolean!"),
                fd("deprecationReason", "String"),
            ],
        ),
        object(
            "__InputValue",
            vec![
                fd("name", "String!"),
                fd("description", "String"),
                fd("type", "__Type!"),
                fd("defaultValue", "String"),
                fd("isDeprecated", "Boolean!"),
                fd("deprecationReason", "String"),
            ],
        ),
        object(
            "__EnumValue",
            vec![
                fd("name", "String!"),
                fd("description", "String"),
                fd("isDeprecated", "Boolean!"),
                fd("deprecationReason", "String"),
            ],
        ),
        object(
            "__Directive",
            vec![
                fd("name", "String!"),
                fd("description", "String"),
                fd("isRepeatable", "Boolean!"),
                fd("locations", "[__DirectiveLocation!]!"),
                with_incl(fd("args", "[__InputValue!]!")),
            ],
        ),
        enumeration("__DirectiveLocation", &DIRECTIVE_LOCATIONS),
    ]
}

/// `specifiedDirectives` of graphql-js v16.0–16.8.
pub fn specified_directives() -> Vec<DirectiveDef> {
    let dd = |name: &str, args: Vec<InputValueDef>, locs: &[&str]| DirectiveDef {
        description: None,
        name: name.to_string(),
        args,
        repeatable: false,
        locations: locs.iter().map(|s| s.to_string()).collect(),
    };
    let mut reason = InputValueDef::new("reason", Ty::named("String"));
    reason.default = Some(Value::str("No longer supported"));
    vec![
        dd(
            "include",
            vec![InputValueDef::new("if", Ty::parse("Boolean!"))],
            &["FIELD", "FRAGMENT_SPREAD", "INLINE_FRAGMENT"],
        ),
        dd(
            "skip",
            vec![InputValueDef::new("if", Ty::parse("Boolean!"))],
            &["FIELD", "FRAGMENT_SPREAD", "INLINE_FRAGMENT"],
        ),
        dd(
            "deprecated",
            vec![reason],
            &["FIELD_DEFINITION", "ARGUMENT_DEFINITION", "INPUT_FIELD_DEFINITION", "ENUM_VALUE"],
        ),
        dd("specifiedBy", vec![InputValueDef::new("url", Ty::parse("String!"))], &["SCALAR"]),
    ]
}

/// Build the schema model of a type-system document.
///
/// Alphabet: no redefinition of built-in scalars / directives / introspection types; type
/// extensions only after the definition they extend; no `extend schema` with operation types;
/// no `extend scalar`.
pub fn build(doc: &Document) -> Result<Model, String> {
    let mut types: Vec<TypeDef> = Vec::new();
    let mut directives: Vec<DirectiveDef> = Vec::new();
    let mut schema_def: Option<&SchemaDef> = None;
    for d in &doc.defs {
        match d {
            Definition::Type(t) if !t.extend => {
                if BUILTIN_SCALARS.contains(&t.name.as_str()) || t.name.starts_with("__") {
                    return Err(format!("redefinition of built-in type {}", t.name));
                }
                if types.iter().any(|x| x.name == t.name) {
                    return Err(format!("duplicate type {}", t.name));
                }
                types.push(t.clone());
            }
            Definition::Type(t) => {
                if t.kind == TypeKind::Scalar {
                    return Err("extend scalar is outside the alphabet".into());
                }
                let Some(base) = types.iter_mut().find(|x| x.name == t.name) else {
                    return Err(format!("extension of {} before its definition", t.name));
                };
                if base.kind != t.kind {
                    return Err("extension kind mismatch".into());
                }
                base.implements.extend(t.implements.iter().cloned());
                base.directives.extend(t.directives.iter().cloned());
                base.fields.extend(t.fields.iter().cloned());
                base.members.extend(t.members.iter().cloned());
                base.values.extend(t.values.iter().cloned());
                base.input_fields.extend(t.input_fields.iter().cloned());
            }
            Definition::Directive(dd) => {
                if BUILTIN_DIRECTIVES.contains(&dd.name.as_str()) {
                    return Err(format!("redefinition of built-in directive @{}", dd.name));
                }
                directives.push(dd.clone());
            }
            Definition::Schema(s) if !s.extend => {
                if schema_def.is_some() {
                    return Err("two schema definitions".into());
                }
                schema_def = Some(s);
            }
            Definition::Schema(s) => {
                if !s.roots.is_empty() {
                    return Err("extend schema with operation types is outside the alphabet".into());
                }
            }
            Definition::Operation(_) | Definition::Fragment(_) => {
                return Err("executable definition in a schema document".into())
            }
        }
    }
    let root = |k: OpKind, conventional: &str| -> Option<Name> {
        match schema_def {
            Some(s) => s.roots.iter().find(|(kk, _)| *kk == k).map(|(_, n)| n.clone()),
            None => types
                .iter()
                .find(|t| t.name == conventional && t.kind == TypeKind::Object)
                .map(|t| t.name.clone()),
        }
    };
    let query = root(OpKind::Query, "Query");
    let mutation = root(OpKind::Mutation, "Mutation");
    let subscription = root(OpKind::Subscription, "Subscription");
    // referenced built-in scalars
    let mut referenced: Vec<&str> = vec!["String", "Boolean"];
    {
        let mut note = |t: &Ty| {
            let n = t.inner_name();
            if let Some(b) = BUILTIN_SCALARS.iter().find(|b| **b == n) {
                if !referenced.contains(b) {
                    referenced.push(b);
                }
            }
        };
        for t in &types {
            for f in &t.fields {
                note(&f.ty);
                for a in &f.args {
                    note(&a.ty);
                }
            }
            for f in &t.input_fields {
                note(&f.ty);
            }
        }
        for d in &directives {
            for a in &d.args {
                note(&a.ty);
            }
        }
    }
    types.extend(introspection_types());
    for b in BUILTIN_SCALARS {
        if referenced.contains(&b) {
            types.push(TypeDef::new(TypeKind::Scalar, b));
        }
    }
    let mut all_directives = specified_directives();
    all_directives.extend(directives);
    Ok(Model {
        description: schema_def.and_then(|s| s.description.clone()),
        query,
        mutation,
        subscription,
        types,
        directives: all_directives,
    })
}

// ---------------------------------------------------------------------------------
// valueFromAST
// ---------------------------------------------------------------------------------

/// An internal (coerced) value. Object entries are in *type* order.
#[derive(Debug, Clone, PartialEq)]
pub enum Coerced {
    Null,
    Bool(bool),
    Num(f64),
    Str(String),
    /// internal value of an enum built from SDL = its name
    Enum(String),
    List(Vec<Coerced>),
    Object(Vec<(String, Coerced)>),
}

fn parse_int_literal(s: &str) -> Option<f64> {
    let v: i64 = s.parse().ok()?;
    if v > i32::MAX as i64 || v < i32::MIN as i64 {
        return None;
    }
    Some(v as f64)
}

/// `Ok(None)` = graphql-js `undefined` (invalid literal for the type).
pub fn value_from_ast(m: &Model, v: &Value, ty: &Ty) -> Result<Option<Coerced>, String> {
    value_from_ast_at(m, v, ty, 0)
}

/// `fill_depth` counts nested default fillings: a default of an input field whose coercion
/// needs the containing type's own field map again never terminates in graphql-js v16 either
/// (stack overflow while the field thunk is being resolved) — outside the alphabet.
fn value_from_ast_at(m: &Model, v: &Value, ty: &Ty, fill_depth: u32) -> Result<Option<Coerced>, String> {
    if fill_depth > 16 {
        return Err("circular input-object default values are outside the alphabet".into());
    }
    let value_from_ast = |m: &Model, v: &Value, ty: &Ty| value_from_ast_at(m, v, ty, fill_depth);
    if let Value::Var(_) = v {
        return Err("variable in a const value".into());
    }
    match ty {
        Ty::NonNull(inner) => {
            if *v == Value::Null {
                return Ok(None);
            }
            value_from_ast(m, v, inner)
        }
        _ if *v == Value::Null => Ok(Some(Coerced::Null)),
        Ty::List(item) => {
            if let Value::List(items) = v {
                let mut out = Vec::new();
                for it in items {
                    match value_from_ast(m, it, item)? {
                        Some(c) => out.push(c),
                        None => return Ok(None),
                    }
                }
                Ok(Some(Coerced::List(out)))
            } else {
                Ok(value_from_ast(m, v, item)?.map(|c| Coerced::List(vec![c])))
            }
        }
        Ty::Named(n) => {
            let def = m.ty(n).ok_or_else(|| format!("unknown type {n}"))?;
            match def.kind {
                TypeKind::Input => {
                    let Value::Object(fields) = v else { return Ok(None) };
                    let mut out = Vec::new();
                    for f in &def.input_fields {
                        // keyMap: the last field node of a name wins (duplicates are invalid anyway)
                        match fields.iter().rev().find(|(k, _)| *k == f.name) {
                            None => {
                                if let Some(d) = &f.default {
                                    // field.defaultValue is itself valueFromAST(default, field.type)
                                    match value_from_ast_at(m, d, &f.ty, fill_depth + 1)? {
                                        Some(c) => out.push((f.name.clone(), c)),
                                        // `undefined` default: treated as no default
                                        None => {
                                            if f.ty.is_non_null() {
                                                return Ok(None);
                                            }
                                        }
                                    }
                                } else if f.ty.is_non_null() {
                                    return Ok(None);
                                }
                            }
                            Some((_, fv)) => match value_from_ast(m, fv, &f.ty)? {
                                Some(c) => out.push((f.name.clone(), c)),
                                None => return Ok(None),
                            },
                        }
                    }
                    Ok(Some(Coerced::Object(out)))
                }
                TypeKind::Enum => match v {
                    Value::Enum(e) if def.values.iter().any(|x| x.name == *e) => {
                        Ok(Some(Coerced::Enum(e.clone())))
                    }
                    _ => Ok(None),
                },
                TypeKind::Scalar => match n.as_str() {
                    "Int" => Ok(match v {
                        Value::Int(s) => parse_int_literal(s).map(Coerced::Num),
                        _ => None,
                    }),
                    "Float" => Ok(match v {
                        Value::Int(s) | Value::Float(s) => {
                            s.parse::<f64>().ok().filter(|x| x.is_finite()).map(Coerced::Num)
                        }
                        _ => None,
                    }),
                    "String" => Ok(match v {
                        Value::Str(s) => Some(Coerced::Str(s.clone())),
                        _ => None,
                    }),
                    "Boolean" => Ok(match v {
                        Value::Bool(b) => Some(Coerced::Bool(*b)),
                        _ => None,
                    }),
                    "ID" => Ok(match v {
                        Value::Str(s) => Some(Coerced::Str(s.clone())),
                        Value::Int(s) => Some(Coerced::Str(s.clone())),
                        _ => None,
                    }),
                    // custom scalar: parseLiteral = valueFromASTUntyped
                    _ => match v {
                        Value::Int(s) => Ok(Some(Coerced::Num(
                            s.parse::<f64>().map_err(|e| format!("int literal {s}: {e}"))?,
                        ))),
                        Value::Float(s) => Ok(Some(Coerced::Num(
                            s.parse::<f64>().map_err(|e| format!("float literal {s}: {e}"))?,
                        ))),
                        Value::Str(s) => Ok(Some(Coerced::Str(s.clone()))),
                        Value::Bool(b) => Ok(Some(Coerced::Bool(*b))),
                        _ => Err("enum / list / object literal as the default of a custom scalar is outside the alphabet (astFromValue throws or prints a string)".into()),
                    },
                },
                _ => Err(format!("{n} is not an input type")),
            }
        }
    }
}

// ---------------------------------------------------------------------------------
// astFromValue, print, printString
// ---------------------------------------------------------------------------------

/// JavaScript `String(number)` for the part of the number line whose printing is beyond
/// doubt: 0, and 1e-6 ≤ |x| < 1e21 (no exponent form).
pub fn js_number_to_string(x: f64) -> Result<String, String> {
    if x == 0.0 {
        return Ok("0".into());
    }
    if !x.is_finite() || x.abs() < 1e-6 || x.abs() >= 1e21 {
        return Err(format!("number {x:e} is outside the alphabet (exponent notation)"));
    }
    // Rust prints the shortest digits that round-trip, without exponent — as ECMAScript
    // Number::toString does in this range.
    Ok(format!("{x}"))
}

fn is_integer_string(s: &str) -> bool {
    let t = s.strip_prefix('-').unwrap_or(s);
    !t.is_empty() && t.bytes().all(|b| b.is_ascii_digit()) && (t == "0" || !t.starts_with('0'))
}

/// `Ok(None)` = no AST (graphql-js returns `null`: the entry is omitted).
pub fn ast_from_value(m: &Model, c: &Coerced, ty: &Ty) -> Result<Option<Value>, String> {
    match ty {
        Ty::NonNull(inner) => {
            let a = ast_from_value(m, c, inner)?;
            Ok(match a {
                Some(Value::Null) => None,
                other => other,
            })
        }
        _ if *c == Coerced::Null => Ok(Some(Value::Null)),
        Ty::List(item) => {
            if let Coerced::List(items) = c {
                let mut out = Vec::new();
                for it in items {
                    if let Some(a) = ast_from_value(m, it, item)? {
                        out.push(a);
                    }
                }
                Ok(Some(Value::List(out)))
            } else {
                ast_from_value(m, c, item)
            }
        }
        Ty::Named(n) => {
            let def = m.ty(n).ok_or_else(|| format!("unknown type {n}"))?;
            match def.kind {
                TypeKind::Input => {
                    let Coerced::Object(entries) = c else { return Ok(None) };
                    let mut out = Vec::new();
                    for f in &def.input_fields {
                        if let Some((_, fv)) = entries.iter().find(|(k, _)| *k == f.name) {
                            if let Some(a) = ast_from_value(m, fv, &f.ty)? {
                                out.push((f.name.clone(), a));
                            }
                        }
                    }
                    Ok(Some(Value::Object(out)))
                }
                TypeKind::Enum => match c {
                    Coerced::Enum(e) => Ok(Some(Value::Enum(e.clone()))),
                    _ => Err("non-enum internal value for an enum type".into()),
                },
                TypeKind::Scalar => match c {
                    Coerced::Bool(b) => Ok(Some(Value::Bool(*b))),
                    Coerced::Num(x) => {
                        let s = js_number_to_string(*x)?;
                        Ok(Some(if is_integer_string(&s) { Value::Int(s) } else { Value::Float(s) }))
                    }
                    Coerced::Str(s) => {
                        if n == "ID" && is_integer_string(s) {
                            Ok(Some(Value::Int(s.clone())))
                        } else {
                            Ok(Some(Value::Str(s.clone())))
                        }
                    }
                    _ => Err("composite internal value for a scalar".into()),
                },
                _ => Err(format!("{n} is not an input type")),
            }
        }
    }
}

/// graphql-js v16 `printString`.
pub fn print_string(s: &str, o: &mut String) {
    o.push('"');
    for c in s.chars() {
        match c {
            '"' => o.push_str("\\\""),
            '\\' => o.push_str("\\\\"),
            '\u{8}' => o.push_str("\\b"),
            '\t' => o.push_str("\\t"),
            '\n' => o.push_str("\\n"),
            '\u{c}' => o.push_str("\\f"),
            '\r' => o.push_str("\\r"),
            c if (c as u32) < 0x20 || (0x7f..=0x9f).contains(&(c as u32)) => {
                o.push_str(&format!("\\u{:04X}", c as u32));
            }
            c => o.push(c),
        }
    }
    o.push('"');
}

/// graphql-js v16 `print` of a const value node: `[a, b]`, `{a: 1, b: 2}`.
pub fn print_js(v: &Value, o: &mut String) {
    match v {
        Value::Null => o.push_str("null"),
        Value::Bool(b) => o.push_str(if *b { "true" } else { "false" }),
        Value::Int(s) | Value::Float(s) => o.push_str(s),
        Value::Str(s) => print_string(s, o),
        Value::Enum(n) => o.push_str(n),
        Value::Var(n) => {
            o.push('$');
            o.push_str(n);
        }
        Value::List(items) => {
            o.push('[');
            for (i, it) in items.iter().enumerate() {
                if i > 0 {
                    o.push_str(", ");
                }
                print_js(it, o);
            }
            o.push(']');
        }
        Value::Object(fields) => {
            o.push('{');
            for (i, (k, it)) in fields.iter().enumerate() {
                if i > 0 {
                    o.push_str(", ");
                }
                o.push_str(k);
                o.push_str(": ");
                print_js(it, o);
            }
            o.push('}');
        }
    }
}

/// The deviation: the literal as written, re-serialised as apollo's value serializer prints it
/// without indentation. Numbers keep their text; strings are re-escaped from their *value*
/// (`\b \n \f \r \" \\`, other C0 controls except TAB as `\u00XX`; TAB and U+007F.. raw);
/// lists `[a, b]`, objects `{k: v, k: v}` in written order.
pub fn print_verbatim(v: &Value, o: &mut String) {
    match v {
        Value::Str(s) => {
            o.push('"');
            for c in s.chars() {
                match c {
                    '"' => o.push_str("\\\""),
                    '\\' => o.push_str("\\\\"),
                    '\u{8}' => o.push_str("\\b"),
                    '\n' => o.push_str("\\n"),
                    '\u{c}' => o.push_str("\\f"),
                    '\r' => o.push_str("\\r"),
                    '\t' => o.push('\t'),
                    c if (c as u32) < 0x20 => o.push_str(&format!("\\u{:04X}", c as u32)),
                    c => o.push(c),
                }
            }
            o.push('"');
        }
        Value::List(items) => {
            o.push('[');
            for (i, it) in items.iter().enumerate() {
                if i > 0 {
                    o.push_str(", ");
                }
                print_verbatim(it, o);
            }
            o.push(']');
        }
        Value::Object(fields) => {
            o.push('{');
            for (i, (k, it)) in fields.iter().enumerate() {
                if i > 0 {
                    o.push_str(", ");
                }
                o.push_str(k);
                o.push_str(": ");
                print_verbatim(it, o);
            }
            o.push('}');
        }
        other => print_js(other, o),
    }
}

/// `__InputValue.defaultValue`.
pub fn default_value_string(
    m: &Model,
    iv: &InputValueDef,
    sw: Switches,
) -> Result<Option<String>, String> {
    let Some(lit) = &iv.default else { return Ok(None) };
    let mut o = String::new();
    if sw.default_value_printed_verbatim {
        print_verbatim(lit, &mut o);
        return Ok(Some(o));
    }
    let Some(c) = value_from_ast(m, lit, &iv.ty)? else {
        return Err(format!(
            "default {} is not a valid literal of type {} (outside the alphabet)",
            value_to_string(lit),
            iv.ty
        ));
    };
    match ast_from_value(m, &c, &iv.ty)? {
        Some(a) => {
            print_js(&a, &mut o);
            Ok(Some(o))
        }
        None => Ok(None),
    }
}

// ---------------------------------------------------------------------------------
// Deprecation, specifiedBy
// ---------------------------------------------------------------------------------

/// `getDeprecationReason`: the coerced `reason` argument of `@deprecated` (default "No longer
/// supported"). `reason: null` is outside the alphabet.
pub fn deprecation_reason(dirs: &[Directive]) -> Result<Option<String>, String> {
    let Some(d) = dirs.iter().find(|d| d.name == "deprecated") else { return Ok(None) };
    match d.arg("reason") {
        None => Ok(Some("No longer supported".into())),
        Some(Value::Str(s)) => Ok(Some(s.clone())),
        Some(other) => Err(format!(
            "@deprecated(reason: {}) is outside the alphabet",
            value_to_string(other)
        )),
    }
}

fn specified_by_url(t: &TypeDef) -> Result<Option<String>, String> {
    if t.kind != TypeKind::Scalar {
        return Ok(None);
    }
    let Some(d) = t.directives.iter().find(|d| d.name == "specifiedBy") else { return Ok(None) };
    match d.arg("url") {
        Some(Value::Str(s)) => Ok(Some(s.clone())),
        _ => Err("@specifiedBy without a string url is outside the alphabet".into()),
    }
}

// ---------------------------------------------------------------------------------
// Executor for introspection operations
// ---------------------------------------------------------------------------------

#[derive(Clone, Debug)]
enum Obj<'m> {
    Schema,
    /// `Ty::Named` = a named type of the model, otherwise a LIST / NON_NULL wrapper
    Type(Ty),
    Field(&'m FieldDef),
    Input(&'m InputValueDef),
    EnumValue(&'m EnumValueDef),
    Directive(&'m DirectiveDef),
}

impl Obj<'_> {
    fn type_name(&self) -> &'static str {
        match self {
            Obj::Schema => "__Schema",
            Obj::Type(_) => "__Type",
            Obj::Field(_) => "__Field",
            Obj::Input(_) => "__InputValue",
            Obj::EnumValue(_) => "__EnumValue",
            Obj::Directive(_) => "__Directive",
        }
    }
}

enum Res<'m> {
    Leaf(J),
    Null,
    One(Obj<'m>),
    Many(Vec<Obj<'m>>),
}

struct Exec<'m> {
    m: &'m Model,
    frags: BTreeMap<&'m str, &'m Fragment>,
    sw: Switches,
}

fn opt_str(s: &Option<String>) -> J {
    match s {
        Some(s) => J::String(s.clone()),
        None => J::Null,
    }
}

fn kind_name(k: TypeKind) -> &'static str {
    match k {
        TypeKind::Scalar => "SCALAR",
        TypeKind::Object => "OBJECT",
        TypeKind::Interface => "INTERFACE",
        TypeKind::Union => "UNION",
        TypeKind::Enum => "ENUM",
        TypeKind::Input => "INPUT_OBJECT",
    }
}

fn include_deprecated(f: &Field) -> Result<bool, String> {
    match f.args.iter().find(|(k, _)| k == "includeDeprecated") {
        None => Ok(false), // the argument's default value
        Some((_, Value::Bool(b))) => Ok(*b),
        Some((_, v)) => Err(format!("includeDeprecated: {} is outside the alphabet", value_to_string(v))),
    }
}

impl<'m> Exec<'m> {
    /// CollectFields: response key -> the fields with that key, in order of first appearance.
    fn collect<'q>(
        &self,
        type_name: &str,
        sel: &'q [Selection],
        out: &mut Vec<(String, Vec<&'q Field>)>,
        visited: &mut Vec<String>,
    ) -> Result<(), String>
    where
        'm: 'q,
    {
        for s in sel {
            match s {
                Selection::Field(f) => {
                    if !f.directives.is_empty() {
                        return Err("directives in the operation are outside the alphabet".into());
                    }
                    match out.iter_mut().find(|(k, _)| k == f.key()) {
                        Some((_, v)) => v.push(f),
                        None => out.push((f.key().to_string(), vec![f])),
                    }
                }
                Selection::Spread { name, directives } => {
                    if !directives.is_empty() {
                        return Err("directives in the operation are outside the alphabet".into());
                    }
                    if visited.contains(name) {
                        continue;
                    }
                    visited.push(name.clone());
                    let fr = self.frags.get(name.as_str()).ok_or("undefined fragment")?;
                    if fr.on == type_name {
                        self.collect(type_name, &fr.selection, out, visited)?;
                    }
                }
                Selection::Inline { on, directives, selection } => {
                    if !directives.is_empty() {
                        return Err("directives in the operation are outside the alphabet".into());
                    }
                    if on.as_deref().map_or(true, |t| t == type_name) {
                        self.collect(type_name, selection, out, visited)?;
                    }
                }
            }
        }
        Ok(())
    }

    fn named(&self, n: &str) -> Res<'m> {
        if self.m.ty(n).is_some() {
            Res::One(Obj::Type(Ty::named(n)))
        } else {
            Res::Null
        }
    }

    fn named_opt(&self, n: &Option<Name>) -> Res<'m> {
        match n {
            Some(n) => self.named(n),
            None => Res::Null,
        }
    }

    fn resolve(&self, obj: &Obj<'m>, f: &Field) -> Result<Res<'m>, String> {
        let m = self.m;
        let name = f.name.as_str();
        if name == "__typename" {
            return Ok(Res::Leaf(json!(obj.type_name())));
        }
        let unknown = || Err(format!("no field {} on {}", name, obj.type_name()));
        Ok(match obj {
            Obj::Schema => match name {
                "description" => Res::Leaf(opt_str(&m.description)),
                "types" => Res::Many(m.types.iter().map(|t| Obj::Type(Ty::named(&t.name))).collect()),
                "queryType" => self.named_opt(&m.query),
                "mutationType" => self.named_opt(&m.mutation),
                "subscriptionType" => self.named_opt(&m.subscription),
                "directives" => Res::Many(m.directives.iter().map(Obj::Directive).collect()),
                _ => return unknown(),
            },
            Obj::Type(Ty::Named(n)) => {
                let t = m.ty(n).ok_or("dangling type reference")?;
                match name {
                    "kind" => Res::Leaf(json!(kind_name(t.kind))),
                    "name" => Res::Leaf(json!(t.name)),
                    "description" => Res::Leaf(opt_str(&t.description)),
                    "specifiedByURL" => Res::Leaf(opt_str(&specified_by_url(t)?)),
                    "fields" => {
                        if matches!(t.kind, TypeKind::Object | TypeKind::Interface) {
                            let incl = include_deprecated(f)?;
                            let mut v = Vec::new();
                            for fd in &t.fields {
                                if incl || deprecation_reason(&fd.directives)?.is_none() {
                                    v.push(Obj::Field(fd));
                                }
                            }
                            Res::Many(v)
                        } else {
                            Res::Null
                        }
                    }
                    "interfaces" => {
                        if matches!(t.kind, TypeKind::Object | TypeKind::Interface) {
                            Res::Many(t.implements.iter().map(|i| Obj::Type(Ty::named(i))).collect())
                        } else {
                            Res::Null
                        }
                    }
                    "possibleTypes" => match t.kind {
                        // getPossibleTypes: union members; object implementers in type-map order
                        TypeKind::Union => {
                            Res::Many(t.members.iter().map(|i| Obj::Type(Ty::named(i))).collect())
                        }
                        TypeKind::Interface => Res::Many(
                            m.types
                                .iter()
                                .filter(|o| o.kind == TypeKind::Object && o.implements.contains(&t.name))
                                .map(|o| Obj::Type(Ty::named(&o.name)))
                                .collect(),
                        ),
                        _ => Res::Null,
                    },
                    "enumValues" => {
                        if t.kind == TypeKind::Enum {
                            let incl = include_deprecated(f)?;
                            let mut v = Vec::new();
                            for ev in &t.values {
                                if incl || deprecation_reason(&ev.directives)?.is_none() {
                                    v.push(Obj::EnumValue(ev));
                                }
                            }
                            Res::Many(v)
                        } else {
                            Res::Null
                        }
                    }
                    "inputFields" => {
                        if t.kind == TypeKind::Input {
                            let incl = include_deprecated(f)?;
                            let mut v = Vec::new();
                            for iv in &t.input_fields {
                                if incl || deprecation_reason(&iv.directives)?.is_none() {
                                    v.push(Obj::Input(iv));
                                }
                            }
                            Res::Many(v)
                        } else {
                            Res::Null
                        }
                    }
                    "ofType" => Res::Null,
                    _ => return unknown(),
                }
            }
            Obj::Type(wrapper) => match name {
                "kind" => Res::Leaf(json!(if matches!(wrapper, Ty::List(_)) { "LIST" } else { "NON_NULL" })),
                "ofType" => match wrapper {
                    Ty::List(t) | Ty::NonNull(t) => Res::One(Obj::Type((**t).clone())),
                    Ty::Named(_) => unreachable!(),
                },
                "name" | "description" | "specifiedByURL" | "fields" | "interfaces"
                | "possibleTypes" | "enumValues" | "inputFields" => Res::Null,
                _ => return unknown(),
            },
            Obj::Field(fd) => match name {
                "name" => Res::Leaf(json!(fd.name)),
                "description" => Res::Leaf(opt_str(&fd.description)),
                "args" => {
                    let incl = include_deprecated(f)?;
                    let mut v = Vec::new();
                    for a in &fd.args {
                        if incl || deprecation_reason(&a.directives)?.is_none() {
                            v.push(Obj::Input(a));
                        }
                    }
                    Res::Many(v)
                }
                "type" => Res::One(Obj::Type(fd.ty.clone())),
                "isDeprecated" => Res::Leaf(json!(deprecation_reason(&fd.directives)?.is_some())),
                "deprecationReason" => Res::Leaf(opt_str(&deprecation_reason(&fd.directives)?)),
                _ => return unknown(),
            },
            Obj::Input(iv) => match name {
                "name" => Res::Leaf(json!(iv.name)),
                "description" => Res::Leaf(opt_str(&iv.description)),
                "type" => Res::One(Obj::Type(iv.ty.clone())),
                "defaultValue" => Res::Leaf(opt_str(&default_value_string(m, iv, self.sw)?)),
                "isDeprecated" => Res::Leaf(json!(deprecation_reason(&iv.directives)?.is_some())),
                "deprecationReason" => Res::Leaf(opt_str(&deprecation_reason(&iv.directives)?)),
                _ => return unknown(),
            },
            Obj::EnumValue(ev) => match name {
                "name" => Res::Leaf(json!(ev.name)),
                "description" => Res::Leaf(opt_str(&ev.description)),
                "isDeprecated" => Res::Leaf(json!(deprecation_reason(&ev.directives)?.is_some())),
                "deprecationReason" => Res::Leaf(opt_str(&deprecation_reason(&ev.directives)?)),
                _ => return unknown(),
            },
            Obj::Directive(d) => match name {
                "name" => Res::Leaf(json!(d.name)),
                "description" => Res::Leaf(opt_str(&d.description)),
                "isRepeatable" => Res::Leaf(json!(d.repeatable)),
                "locations" => Res::Leaf(json!(d.locations)),
                "args" => {
                    let incl = include_deprecated(f)?;
                    let mut v = Vec::new();
                    for a in &d.args {
                        if incl || deprecation_reason(&a.directives)?.is_none() {
                            v.push(Obj::Input(a));
                        }
                    }
                    Res::Many(v)
                }
                _ => return unknown(),
            },
        })
    }

    fn complete(&self, res: Res<'m>, fields: &[&Field]) -> Result<J, String> {
        let sub = |o: &Obj<'m>| -> Result<J, String> {
            let mut merged: Vec<Selection> = Vec::new();
            for f in fields {
                merged.extend(f.selection.iter().cloned());
            }
            if merged.is_empty() {
                return Err("composite field without a selection set".into());
            }
            self.object(o, &merged)
        };
        Ok(match res {
            Res::Leaf(j) => j,
            Res::Null => J::Null,
            Res::One(o) => sub(&o)?,
            Res::Many(v) => J::Array(v.iter().map(sub).collect::<Result<Vec<_>, _>>()?),
        })
    }

    fn object(&self, obj: &Obj<'m>, sel: &[Selection]) -> Result<J, String> {
        let mut groups = Vec::new();
        self.collect(obj.type_name(), sel, &mut groups, &mut Vec::new())?;
        let mut out = Map::new();
        for (key, fields) in &groups {
            let res = self.resolve(obj, fields[0])?;
            out.insert(key.clone(), self.complete(res, fields)?);
        }
        Ok(J::Object(out))
    }
}

/// Execute the (single) operation of `query` against the schema model with introspection
/// enabled and *partial execution*: root fields other than `__schema`, `__type`, `__typename`
/// are skipped (their keys are absent). Returns the `data` object.
pub fn execute(m: &Model, query: &Document, sw: Switches) -> Result<J, String> {
    let op = query.operations().next().ok_or("no operation")?;
    if op.kind != OpKind::Query {
        return Err("not a query".into());
    }
    let root_name = m.query.clone().ok_or("schema without a query type")?;
    let ex = Exec { m, frags: query.fragments().map(|f| (f.name.as_str(), f)).collect(), sw };
    let mut groups = Vec::new();
    ex.collect(&root_name, &op.selection, &mut groups, &mut Vec::new())?;
    let mut out = Map::new();
    for (key, fields) in &groups {
        let f = fields[0];
        let res = match f.name.as_str() {
            "__schema" => Res::One(Obj::Schema),
            "__typename" => Res::Leaf(json!(root_name)),
            "__type" => match f.args.iter().find(|(k, _)| k == "name") {
                Some((_, Value::Str(n))) => ex.named(n),
                _ => return Err("__type needs a string literal name".into()),
            },
            _ => continue, // concrete root field: skipped by partial execution
        };
        out.insert(key.clone(), ex.complete(res, fields)?);
    }
    Ok(J::Object(out))
}

// ---------------------------------------------------------------------------------
// The standard introspection query
// ---------------------------------------------------------------------------------

/// graphql-js v16 `getIntrospectionQuery({ descriptions: true, specifiedByUrl: true,
/// directiveIsRepeatable: true, schemaDescription: true, inputValueDeprecation: true })`,
/// verbatim.
pub const FULL_QUERY_TEXT: &str = r#"
    query IntrospectionQuery {
      __schema {
        description
        queryType { name }
        mutationType { name }
        subscriptionType { name }
        types {
          ...FullType
        }
        directives {
          name
          description
          isRepeatable
          locations
          args(includeDeprecated: true) {
            ...InputValue
          }
        }
      }
    }

    fragment FullType on __Type {
      kind
      name
      description
      specifiedByURL
      fields(includeDeprecated: true) {
        name
        description
        args(includeDeprecated: true) {
          ...InputValue
        }
        type {
          ...TypeRef
        }
        isDeprecated
        deprecationReason
      }
      inputFields(includeDeprecated: true) {
        ...InputValue
      }
      interfaces {
        ...TypeRef
      }
      enumValues(includeDeprecated: true) {
        name
        description
        isDeprecated
        deprecationReason
      }
      possibleTypes {
        ...TypeRef
      }
    }

    fragment InputValue on __InputValue {
      name
      description
      type { ...TypeRef }
      defaultValue
      isDeprecated
      deprecationReason
    }

    fragment TypeRef on __Type {
      kind
      name
      ofType {
        kind
        name
        ofType {
          kind
          name
          ofType {
            kind
            name
            ofType {
              kind
              name
              ofType {
                kind
                name
                ofType {
                  kind
                  name
                  ofType {
                    kind
                    name
                  }
                }
              }
            }
          }
        }
      }
    }
  "#;

/// Number of `ofType` levels in `TypeRef`.
pub const TYPE_REF_DEPTH: usize = 7;

/// The same query as a mini-AST. `include_deprecated`: `Some(true)` is the standard text;
/// `Some(false)` / `None` replace / remove every `(includeDeprecated: true)` (variants used to
/// exercise the filters and the argument's default). `extra_roots` are added to the operation's
/// selection set *around* `__schema` (first half before, second half after).
pub fn full_query(include_deprecated: Option<bool>, extra_roots: &[Selection]) -> Document {
    let leaf = Selection::field;
    let f = |n: &str, sel: Vec<Selection>| -> Selection { Field::new(n).sel(sel).into() };
    let incl = |n: &str, sel: Vec<Selection>| -> Selection {
        let mut fld = Field::new(n).sel(sel);
        if let Some(b) = include_deprecated {
            fld = fld.arg("includeDeprecated", Value::Bool(b));
        }
        fld.into()
    };
    let sp = Selection::spread;
    let mut type_ref = vec![leaf("kind"), leaf("name")];
    for _ in 0..TYPE_REF_DEPTH {
        type_ref = vec![leaf("kind"), leaf("name"), f("ofType", type_ref)];
    }
    let schema_sel = vec![
        leaf("description"),
        f("queryType", vec![leaf("name")]),
        f("mutationType", vec![leaf("name")]),
        f("subscriptionType", vec![leaf("name")]),
        f("types", vec![sp("FullType")]),
        f(
            "directives",
            vec![
                leaf("name"),
                leaf("description"),
                leaf("isRepeatable"),
                leaf("locations"),
                incl("args", vec![sp("InputValue")]),
            ],
        ),
    ];
    let full_type = vec![
        leaf("kind"),
        leaf("name"),
        leaf("description"),
        leaf("specifiedByURL"),
        incl(
            "fields",
            vec![
                leaf("name"),
                leaf("description"),
                incl("args", vec![sp("InputValue")]),
                f("type", vec![sp("TypeRef")]),
                leaf("isDeprecated"),
                leaf("deprecationReason"),
            ],
        ),
        incl("inputFields", vec![sp("InputValue")]),
        f("interfaces", vec![sp("TypeRef")]),
        incl(
            "enumValues",
            vec![leaf("name"), leaf("description"), leaf("isDeprecated"), leaf("deprecationReason")],
        ),
        f("possibleTypes", vec![sp("TypeRef")]),
    ];
    let input_value = vec![
        leaf("name"),
        leaf("description"),
        f("type", vec![sp("TypeRef")]),
        leaf("defaultValue"),
        leaf("isDeprecated"),
        leaf("deprecationReason"),
    ];
    let half = extra_roots.len() / 2;
    let mut root: Vec<Selection> = extra_roots[..half].to_vec();
    root.push(f("__schema", schema_sel));
    root.extend(extra_roots[half..].iter().cloned());
    let mut op = Operation::query(root);
    op.name = Some("IntrospectionQuery".into());
    let frag = |name: &str, on: &str, selection: Vec<Selection>| {
        Definition::Fragment(Fragment { name: name.into(), on: on.into(), directives: vec![], selection })
    };
    Document {
        defs: vec![
            Definition::Operation(op),
            frag("FullType", "__Type", full_type),
            frag("InputValue", "__InputValue", input_value),
            frag("TypeRef", "__Type", type_ref),
        ],
    }
}

// ---------------------------------------------------------------------------------
// Normalisation of the allowed differences
// ---------------------------------------------------------------------------------

fn sort_by_name(v: &mut J) {
    if let J::Array(items) = v {
        items.sort_by(|a, b| {
            a["name"].as_str().unwrap_or("").cmp(b["name"].as_str().unwrap_or(""))
        });
    }
}

fn blank_description(v: &mut J) {
    if let J::Object(o) = v {
        if o.contains_key("description") {
            o.insert("description".into(), J::Null);
        }
    }
}

/// Normalise a `__schema` object (response shape of [`full_query`]) for comparison:
/// `types` and `directives` sorted by name; for the built-in `__*` types the members
/// (`fields`, their `args`, `enumValues`, `inputFields`) sorted by name; description strings of
/// built-in types (`__*` and the five scalars), of their members, and of the four specified
/// directives and their arguments blanked (they cannot be pinned offline).
pub fn normalise(schema: &mut J) {
    sort_by_name(&mut schema["types"]);
    sort_by_name(&mut schema["directives"]);
    if let Some(types) = schema["types"].as_array_mut() {
        for t in types {
            let name = t["name"].as_str().unwrap_or("").to_string();
            let introspection_type = name.starts_with("__");
            if !(introspection_type || BUILTIN_SCALARS.contains(&name.as_str())) {
                continue;
            }
            blank_description(t);
            for key in ["fields", "enumValues", "inputFields"] {
                if introspection_type {
                    sort_by_name(&mut t[key]);
                }
                if let Some(ms) = t[key].as_array_mut() {
                    for mbr in ms {
                        blank_description(mbr);
                        sort_by_name(&mut mbr["args"]);
                        if let Some(args) = mbr["args"].as_array_mut() {
                            args.iter_mut().for_each(blank_description);
                        }
                    }
                }
            }
        }
    }
    if let Some(ds) = schema["directives"].as_array_mut() {
        for d in ds {
            if BUILTIN_DIRECTIVES.contains(&d["name"].as_str().unwrap_or("")) {
                blank_description(d);
                if let Some(args) = d["args"].as_array_mut() {
                    args.iter_mut().for_each(blank_description);
                }
            }
        }
    }
}

/// First difference between two JSON values as a path + the two sub-values (for messages).
pub fn first_difference(a: &J, b: &J, path: &str) -> Option<String> {
    match (a, b) {
        (J::Object(x), J::Object(y)) => {
            for (k, xv) in x {
                match y.get(k) {
                    None => return Some(format!("{path}.{k}: missing on the right")),
                    Some(yv) => {
                        if let Some(d) = first_difference(xv, yv, &format!("{path}.{k}")) {
                            return Some(d);
                        }
                    }
                }
            }
            for k in y.keys() {
                if !x.contains_key(k) {
                    return Some(format!("{path}.{k}: missing on the left"));
                }
            }
            None
        }
        (J::Array(x), J::Array(y)) => {
            for (i, (xv, yv)) in x.iter().zip(y.iter()).enumerate() {
                let label = match xv.get("name").and_then(|n| n.as_str()) {
                    Some(n) => format!("{path}[{i}:{n}]"),
                    None => format!("{path}[{i}]"),
                };
                if let Some(d) = first_difference(xv, yv, &label) {
                    return Some(d);
                }
            }
            if x.len() != y.len() {
                let names = |v: &Vec<J>| -> Vec<String> {
                    v.iter().map(|e| e.get("name").map_or(e.to_string(), |n| n.to_string())).collect()
                };
                return Some(format!("{path}: lengths {} vs {} ({:?} vs {:?})", x.len(), y.len(), names(x), names(y)));
            }
            None
        }
        _ => {
            if a == b {
                None
            } else {
                Some(format!("{path}: {a} vs {b}"))
            }
        }
    }
}

#[cfg(test)]
mod tests {
    use super::*;
    use crate::lex;

    fn significant(s: &str) -> Vec<String> {
        lex::tokenize(s, lex::Params::default())
            .expect("lexes")
            .into_iter()
            .filter(|t| !t.is_ignored())
            .map(|t| t.text.to_string())
            .collect()
    }

    #[test]
    fn query_ast_is_the_verbatim_text() {
        let ast = full_query(Some(true), &[]).print();
        assert_eq!(significant(&ast), significant(FULL_QUERY_TEXT));
        // variants differ only in the includeDeprecated arguments
        let none = full_query(None, &[]).print();
        assert_eq!(
            significant(&none),
            significant(&FULL_QUERY_TEXT.replace("(includeDeprecated: true)", ""))
        );
    }

    fn input(name: &str, fields: Vec<InputValueDef>) -> Definition {
        let mut t = TypeDef::new(TypeKind::Input, name);
        t.input_fields = fields;
        Definition::Type(t)
    }
    fn iv(name: &str, ty: &str, default: Option<Value>) -> InputValueDef {
        let mut i = InputValueDef::new(name, Ty::parse(ty));
        i.default = default;
        i
    }

    fn test_model() -> Model {
        let mut q = TypeDef::new(TypeKind::Object, "Query");
        q.fields.push(FieldDef::new("f", Ty::named("Int")));
        q.fields.push(FieldDef::new("g", Ty::named("Float")));
        q.fields.push(FieldDef::new("h", Ty::named("ID")));
        let mut e = TypeDef::new(TypeKind::Enum, "Color");
        for v in ["RED", "GREEN"] {
            e.values.push(EnumValueDef { description: None, name: v.into(), directives: vec![] });
        }
        let doc = Document {
            defs: vec![
                Definition::Type(q),
                Definition::Type(e),
                Definition::Type(TypeDef::new(TypeKind::Scalar, "Any")),
                // graphql-js valueFromAST-test.ts `TestInputObj`
                input(
                    "TestInput",
                    vec![
                        iv("int", "Int", Some(Value::int(42))),
                        iv("bool", "Boolean", None),
                        iv("requiredBool", "Boolean!", None),
                    ],
                ),
                input(
                    "In",
                    vec![
                        iv("a", "Int", Some(Value::int(1))),
                        iv("b", "Int", None),
                        iv("c", "[Float]", None),
                        iv("f", "Float", Some(Value::Float("1.0".into()))),
                        iv("n", "In", None),
                    ],
                ),
            ],
        };
        build(&doc).unwrap()
    }

    fn coerce(m: &Model, v: Value, ty: &str) -> Option<Coerced> {
        value_from_ast(m, &v, &Ty::parse(ty)).unwrap()
    }

    #[test]
    fn value_from_ast_examples() {
        use Coerced as C;
        let m = test_model();
        // valueFromAST-test.ts "coerces input objects according to input coercion rules"
        let obj = |fs: &[(&str, Value)]| Value::obj(fs);
        assert_eq!(coerce(&m, Value::Null, "TestInput"), Some(C::Null));
        assert_eq!(coerce(&m, Value::List(vec![]), "TestInput"), None);
        assert_eq!(
            coerce(&m, obj(&[("int", Value::int(123)), ("requiredBool", Value::Bool(false))]), "TestInput"),
            Some(C::Object(vec![("int".into(), C::Num(123.0)), ("requiredBool".into(), C::Bool(false))]))
        );
        assert_eq!(
            coerce(&m, obj(&[("bool", Value::Bool(true)), ("requiredBool", Value::Bool(false))]), "TestInput"),
            Some(C::Object(vec![
                ("int".into(), C::Num(42.0)),
                ("bool".into(), C::Bool(true)),
                ("requiredBool".into(), C::Bool(false))
            ]))
        );
        assert_eq!(coerce(&m, obj(&[("int", Value::Bool(true)), ("requiredBool", Value::Bool(true))]), "TestInput"), None);
        assert_eq!(coerce(&m, obj(&[("requiredBool", Value::Null)]), "TestInput"), None);
        assert_eq!(coerce(&m, obj(&[("bool", Value::Bool(true))]), "TestInput"), None);
        // "coerces lists of values" / "coerces to null unless non-null"
        assert_eq!(coerce(&m, Value::Bool(true), "[Boolean]"), Some(C::List(vec![C::Bool(true)])));
        assert_eq!(coerce(&m, Value::int(123), "[Boolean]"), None);
        assert_eq!(coerce(&m, Value::Null, "[Boolean]"), Some(C::Null));
        assert_eq!(
            coerce(&m, Value::List(vec![Value::Bool(true), Value::Null]), "[Boolean]"),
            Some(C::List(vec![C::Bool(true), C::Null]))
        );
        assert_eq!(coerce(&m, Value::List(vec![Value::Bool(true), Value::Null]), "[Boolean!]"), None);
        assert_eq!(coerce(&m, Value::Null, "Boolean!"), None);
        // scalars
        assert_eq!(coerce(&m, Value::Float("123.456".into()), "Float"), Some(C::Num(123.456)));
        assert_eq!(coerce(&m, Value::int(123), "Float"), Some(C::Num(123.0)));
        assert_eq!(coerce(&m, Value::Float("1.0".into()), "Int"), None);
        assert_eq!(coerce(&m, Value::Int("2147483648".into()), "Int"), None);
        assert_eq!(coerce(&m, Value::str("abc"), "Int"), None);
        assert_eq!(coerce(&m, Value::int(123), "ID"), Some(C::Str("123".into())));
        assert_eq!(coerce(&m, Value::en("RED"), "Color"), Some(C::Enum("RED".into())));
        assert_eq!(coerce(&m, Value::en("BLUE"), "Color"), None);
        assert_eq!(coerce(&m, Value::str("RED"), "Color"), None);
    }

    fn printed(m: &Model, v: Value, ty: &str) -> Option<String> {
        let i = iv("x", ty, Some(v));
        default_value_string(m, &i, Switches::default()).unwrap()
    }
    fn verbatim(m: &Model, v: Value, ty: &str) -> Option<String> {
        let i = iv("x", ty, Some(v));
        default_value_string(m, &i, Switches { default_value_printed_verbatim: true }).unwrap()
    }

    #[test]
    fn default_value_printing() {
        let m = test_model();
        let fl = |s: &str| Value::Float(s.into());
        // astFromValue-test.ts: floats that are whole numbers print as ints
        assert_eq!(printed(&m, fl("1.0"), "Float").as_deref(), Some("1"));
        assert_eq!(printed(&m, fl("1e3"), "Float").as_deref(), Some("1000"));
        assert_eq!(printed(&m, fl("123.5"), "Float").as_deref(), Some("123.5"));
        assert_eq!(printed(&m, fl("-2.50"), "Float").as_deref(), Some("-2.5"));
        assert_eq!(printed(&m, fl("1E2"), "Float").as_deref(), Some("100"));
        assert_eq!(printed(&m, fl("25e-1"), "Float").as_deref(), Some("2.5"));
        assert_eq!(printed(&m, Value::int(7), "Float").as_deref(), Some("7"));
        assert_eq!(printed(&m, Value::int(-1), "Int!").as_deref(), Some("-1"));
        // "converts ID values to Int/String ASTs"
        assert_eq!(printed(&m, Value::str("hello"), "ID").as_deref(), Some("\"hello\""));
        assert_eq!(printed(&m, Value::str("123"), "ID").as_deref(), Some("123"));
        assert_eq!(printed(&m, Value::str("01"), "ID").as_deref(), Some("\"01\""));
        assert_eq!(printed(&m, Value::int(123), "ID").as_deref(), Some("123"));
        // strings: printString
        assert_eq!(printed(&m, Value::str("VA\"L\\UE\n\t"), "String").as_deref(), Some("\"VA\\\"L\\\\UE\\n\\t\""));
        assert_eq!(printed(&m, Value::str("\u{1}\u{8}\u{c}\r\u{7f}é"), "String").as_deref(), Some("\"\\u0001\\b\\f\\r\\u007Fé\""));
        // lists: single value wrapped, nested
        assert_eq!(printed(&m, Value::int(1), "[Int]").as_deref(), Some("[1]"));
        assert_eq!(printed(&m, Value::int(1), "[[Int!]]!").as_deref(), Some("[[1]]"));
        assert_eq!(printed(&m, Value::List(vec![Value::int(1), Value::Null]), "[Int]").as_deref(), Some("[1, null]"));
        assert_eq!(printed(&m, Value::List(vec![]), "[Int]").as_deref(), Some("[]"));
        assert_eq!(printed(&m, Value::Null, "[Int]").as_deref(), Some("null"));
        assert_eq!(printed(&m, Value::en("RED"), "[Color!]").as_deref(), Some("[RED]"));
        // input objects: type order, defaults of missing fields filled, nested wrapping
        let obj = Value::obj(&[("b", Value::int(2)), ("a", Value::int(1))]);
        assert_eq!(printed(&m, obj.clone(), "In").as_deref(), Some("{a: 1, b: 2, f: 1}"));
        assert_eq!(verbatim(&m, obj, "In").as_deref(), Some("{b: 2, a: 1}"));
        assert_eq!(printed(&m, Value::obj(&[]), "In").as_deref(), Some("{a: 1, f: 1}"));
        assert_eq!(
            printed(&m, Value::obj(&[("a", Value::Null), ("c", fl("1.50")), ("n", Value::obj(&[("f", fl("2e0"))]))]), "[In]").as_deref(),
            Some("[{a: null, c: [1.5], f: 1, n: {a: 1, f: 2}}]")
        );
        // custom scalar
        assert_eq!(printed(&m, fl("1.0"), "Any").as_deref(), Some("1"));
        assert_eq!(printed(&m, Value::str("s"), "Any").as_deref(), Some("\"s\""));
        assert!(default_value_string(&m, &iv("x", "Any", Some(Value::List(vec![]))), Switches::default()).is_err());
        // verbatim
        assert_eq!(verbatim(&m, fl("1.0"), "Float").as_deref(), Some("1.0"));
        assert_eq!(verbatim(&m, Value::int(1), "[Int]").as_deref(), Some("1"));
        assert_eq!(verbatim(&m, Value::str("a\tb\n\u{1}"), "String").as_deref(), Some("\"a\tb\\n\\u0001\""));
        assert_eq!(verbatim(&m, Value::str("123"), "ID").as_deref(), Some("\"123\""));
        // no default
        assert_eq!(default_value_string(&m, &iv("x", "Int", None), Switches::default()).unwrap(), None);
    }

    #[test]
    fn js_numbers() {
        assert_eq!(js_number_to_string(-0.0).unwrap(), "0");
        assert_eq!(js_number_to_string(0.1).unwrap(), "0.1");
        assert_eq!(js_number_to_string(1e20).unwrap(), "100000000000000000000");
        assert_eq!(js_number_to_string(0.000001).unwrap(), "0.000001");
        assert!(js_number_to_string(1e21).is_err());
        assert!(js_number_to_string(1e-7).is_err());
    }

    #[test]
    fn executes_the_full_query() {
        // spec §4.2 style example schema
        let mut q = TypeDef::new(TypeKind::Object, "Query");
        q.implements.push("Node".into());
        let mut f = FieldDef::new("old", Ty::parse("[Int!]!"));
        f.directives.push(Directive::new("deprecated"));
        let mut a = InputValueDef::new("x", Ty::parse("[Int]"));
        a.default = Some(Value::int(1));
        f.args.push(a);
        q.fields.push(FieldDef::new("id", Ty::parse("ID!")));
        q.fields.push(f);
        let mut n = TypeDef::new(TypeKind::Interface, "Node");
        n.fields.push(FieldDef::new("id", Ty::parse("ID!")));
        let doc = Document { defs: vec![Definition::Type(q), Definition::Type(n)] };
        let m = build(&doc).unwrap();
        let names: Vec<&str> = m.types.iter().map(|t| t.name.as_str()).collect();
        assert!(names.contains(&"Int") && names.contains(&"ID") && names.contains(&"String") && names.contains(&"Boolean"));
        assert!(!names.contains(&"Float"));
        assert_eq!(m.types.len(), 2 + 8 + 4);
        let data = execute(&m, &full_query(Some(true), &[Selection::field("id")]), Switches::default()).unwrap();
        assert!(data.get("id").is_none());
        let s = &data["__schema"];
        assert_eq!(s["queryType"]["name"], "Query");
        assert_eq!(s["mutationType"], J::Null);
        let qt = s["types"].as_array().unwrap().iter().find(|t| t["name"] == "Query").unwrap();
        assert_eq!(qt["kind"], "OBJECT");
        assert_eq!(qt["interfaces"][0]["name"], "Node");
        assert_eq!(qt["possibleTypes"], J::Null);
        let old = &qt["fields"][1];
        assert_eq!(old["isDeprecated"], true);
        assert_eq!(old["deprecationReason"], "No longer supported");
        assert_eq!(old["args"][0]["defaultValue"], "[1]");
        assert_eq!(old["type"]["kind"], "NON_NULL");
        assert_eq!(old["type"]["ofType"]["kind"], "LIST");
        assert_eq!(old["type"]["ofType"]["ofType"]["kind"], "NON_NULL");
        assert_eq!(old["type"]["ofType"]["ofType"]["ofType"]["name"], "Int");
        assert_eq!(old["type"]["ofType"]["ofType"]["ofType"]["ofType"], J::Null);
        let node = s["types"].as_array().unwrap().iter().find(|t| t["name"] == "Node").unwrap();
        assert_eq!(node["possibleTypes"][0]["name"], "Query");
        // default filter
        let data = execute(&m, &full_query(None, &[]), Switches::default()).unwrap();
        let qt = data["__schema"]["types"].as_array().unwrap().iter().find(|t| t["name"] == "Query").unwrap().clone();
        assert_eq!(qt["fields"].as_array().unwrap().len(), 1);
        // the deprecated directive's own argument default
        let dep = data["__schema"]["directives"].as_array().unwrap().iter().find(|d| d["name"] == "deprecated").unwrap().clone();
        assert_eq!(dep["args"][0]["defaultValue"], "\"No longer supported\"");
        let ty = data["__schema"]["types"].as_array().unwrap().iter().find(|t| t["name"] == "__Type").unwrap().clone();
        let fields = ty["fields"].as_array().unwrap().iter().find(|f| f["name"] == "fields").unwrap().clone();
        assert_eq!(fields["args"][0]["defaultValue"], "false");
    }
}
