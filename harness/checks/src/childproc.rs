//! Crash containment for the checks whose subject is panics, hangs and stack overflow
//! (C01; DESIGN.md §2.4): the sweep is cut into fixed work units, each unit runs in a **child
//! process** (the check binary re-executes itself with `--child <space> <lo> <hi>`), on a thread
//! with an explicit stack size, every case under `catch_unwind`; the parent has a wall-clock
//! watchdog per unit and notices children that die from a signal (SIGSEGV / SIGABRT — a stack
//! overflow aborts the process). A unit that crashed or timed out is bisected down to the single
//! case index, which then becomes the violation's replay artefact.
//!
//! Determinism: unit boundaries are fixed, results are merged in unit order, so the counts do
//! not depend on scheduling. The only clock is the watchdog; a timeout that does not reproduce
//! on the single bisected case is reported as a machinery error, never as a verdict.

use serde_json::{json, Value};
use std::io::Read;
use std::process::{Command, Stdio};
use std::sync::atomic::{AtomicUsize, Ordering};
use std::sync::Mutex;
use std::time::{Duration, Instant};
use vcore::{Failure, Stats};

/// Stack size of the worker thread of a child: Rust's default for spawned threads, which is
/// what `DEFAULT_RECURSION_LIMIT` of apollo-parser was calibrated for.
pub const CHILD_STACK: usize = 2 * 1024 * 1024;

#[derive(Clone, Debug)]
pub struct Unit {
    pub space: String,
    pub lo: u64,
    pub hi: u64,
}

#[derive(Debug)]
pub enum UnitOutcome {
    Done(Stats),
    /// died from a signal or exited with an unexpected status
    Crashed(String),
    TimedOut,
}

pub fn stats_to_json(s: &Stats) -> Value {
    json!({
        "states": s.states,
        "transitions": s.transitions,
        "nontrivial": s.nontrivial,
        "outcomes": s.outcomes,
        "counters": s.counters,
        "samples": s.samples,
        "known": s.known.iter().map(|(k, (n, w, z))| json!([k, n, w, z])).collect::<Vec<_>>(),
        "failures": s.failures.iter().map(|(k, (n, f))| json!({
            "signature": k, "count": n, "case": f.case, "detail": f.detail, "size": f.size,
        })).collect::<Vec<_>>(),
    })
}

pub fn stats_from_json(v: &Value) -> Option<Stats> {
    let mut s = Stats {
        states: v["states"].as_u64()?,
        transitions: v["transitions"].as_u64()?,
        nontrivial: v["nontrivial"].as_u64()?,
        ..Stats::default()
    };
    for (k, n) in v["outcomes"].as_object()? {
        s.outcomes.insert(k.clone(), n.as_u64()?);
    }
    for (k, n) in v["counters"].as_object()? {
        s.counters.insert(k.clone(), n.as_u64()?);
    }
    for x in v["samples"].as_array()? {
        s.samples.push(x.clone());
    }
    for x in v["known"].as_array()? {
        s.known.insert(
            x[0].as_str()?.to_string(),
            (x[1].as_u64()?, x[2].as_str()?.to_string(), x[3].as_u64()?),
        );
    }
    for x in v["failures"].as_array()? {
        let sig = x["signature"].as_str()?.to_string();
        s.failures.insert(
            sig.clone(),
            (
                x["count"].as_u64()?,
                Failure {
                    signature: sig,
                    case: x["case"].clone(),
                    detail: x["detail"].as_str()?.to_string(),
                    size: x["size"].as_u64()?,
                },
            ),
        );
    }
    Some(s)
}

/// Child side: run `work` on a thread with `CHILD_STACK` bytes of stack and print the resulting
/// statistics as one JSON line on stdout.
pub fn child_main(work: impl FnOnce(&mut Stats) + Send + 'static) -> ! {
    let h = std::thread::Builder::new()
        .stack_size(CHILD_STACK)
        .spawn(move || {
            let mut st = Stats::default();
            work(&mut st);
            st
        })
        .expect("spawn worker");
    match h.join() {
        Ok(st) => {
            println!("{}", stats_to_json(&st));
            std::process::exit(0)
        }
        Err(_) => {
            // a panic that escaped catch_unwind of the case runner: harness bug
            eprintln!("worker thread panicked outside catch_unwind");
            std::process::exit(3)
        }
    }
}

/// Parent side: run one unit in a child process with a watchdog.
pub fn run_unit(unit: &Unit, tier: &str, timeout: Duration) -> UnitOutcome {
    run_unit_dyn(unit, tier, &|| timeout).0
}

/// Same, with a watchdog limit that is re-evaluated while waiting (it may shrink as the parent
/// learns how long units normally take); also returns how long the child ran.
pub fn run_unit_dyn(unit: &Unit, tier: &str, limit: &dyn Fn() -> Duration) -> (UnitOutcome, Duration) {
    let start = Instant::now();
    let r = run_unit_inner(unit, tier, limit);
    (r, start.elapsed())
}

fn run_unit_inner(unit: &Unit, tier: &str, limit: &dyn Fn() -> Duration) -> UnitOutcome {
    let exe = std::env::current_exe().expect("current_exe");
    let mut child = match Command::new(exe)
        .args([
            "--tier",
            tier,
            "--child",
            &unit.space,
            &unit.lo.to_string(),
            &unit.hi.to_string(),
        ])
        .stdin(Stdio::null())
        .stdout(Stdio::piped())
        .stderr(Stdio::piped())
        .spawn()
    {
        Ok(c) => c,
        Err(e) => vcore::machinery_error(&format!("cannot spawn child: {e}")),
    };
    let mut out = child.stdout.take().unwrap();
    let mut err = child.stderr.take().unwrap();
    let t_out = std::thread::spawn(move || {
        let mut s = String::new();
        let _ = out.read_to_string(&mut s);
        s
    });
    let t_err = std::thread::spawn(move || {
        let mut s = Vec::new();
        let _ = err.read_to_end(&mut s);
        String::from_utf8_lossy(&s).to_string()
    });
    let start = Instant::now();
    let status = loop {
        match child.try_wait() {
            Ok(Some(st)) => break Some(st),
            Ok(None) => {
                // The limit is on the child's CPU time (a loop that makes no progress burns CPU), so
                // that a loaded machine does not turn slow children into "hangs"; wall-clock time is
                // only a generous backstop for a child that sleeps forever.
                let lim = limit();
                let cpu = cpu_time(child.id());
                let hung = match cpu {
                    Some(c) => c > lim || start.elapsed() > lim * 20,
                    None => start.elapsed() > lim,
                };
                if hung {
                    let _ = child.kill();
                    let _ = child.wait();
                    break None;
                }
                std::thread::sleep(Duration::from_millis(3));
            }
            Err(e) => vcore::machinery_error(&format!("wait on child failed: {e}")),
        }
    };
    let stdout = t_out.join().unwrap_or_default();
    let stderr = t_err.join().unwrap_or_default();
    let Some(status) = status else {
        return UnitOutcome::TimedOut;
    };
    if status.success() {
        let parsed = stdout
            .lines()
            .last()
            .and_then(|l| serde_json::from_str::<Value>(l).ok())
            .and_then(|v| stats_from_json(&v));
        return match parsed {
            Some(s) => UnitOutcome::Done(s),
            None => vcore::machinery_error(&format!(
                "child for unit {unit:?} exited 0 but its output does not parse: {}",
                vcore::short(&stdout)
            )),
        };
    }
    use std::os::unix::process::ExitStatusExt;
    let how = match (status.signal(), status.code()) {
        (Some(sig), _) => format!("killed by signal {sig}"),
        (None, Some(c)) => format!("exit status {c}"),
        _ => "unknown status".to_string(),
    };
    let tail: String = stderr.lines().rev().take(4).collect::<Vec<_>>().join(" | ");
    UnitOutcome::Crashed(format!("{how}; stderr: {}", vcore::short(&tail)))
}

/// CPU time (user + system) consumed so far by process `pid`, from /proc.
pub fn cpu_time(pid: u32) -> Option<Duration> {
    let stat = std::fs::read_to_string(format!("/proc/{pid}/stat")).ok()?;
    // fields after the command name (which may contain spaces): split at the last ')'
    let rest = &stat[stat.rfind(')')? + 1..];
    let f: Vec<&str> = rest.split_whitespace().collect();
    // rest starts at field 3 (state); utime = field 14, stime = field 15
    let utime: u64 = f.get(11)?.parse().ok()?;
    let stime: u64 = f.get(12)?.parse().ok()?;
    Some(Duration::from_millis((utime + stime) * 10)) // USER_HZ = 100 on Linux
}

/// Result of exploring all units.
pub struct SweepResult {
    pub stats: Stats,
    /// (space, index, what happened) for every single case that crashed / hung its child
    pub dead_cases: Vec<(String, u64, String)>,
    /// units that failed but whose bisection did not reproduce (machinery problem)
    pub unreproduced: Vec<String>,
    /// failed units that were not bisected because `MAX_DEAD` dead cases were already isolated
    pub unbisected: Vec<String>,
    pub units: usize,
}

/// After this many isolated dead cases further failing units are only listed (a defect that
/// kills every case of a space would otherwise cost log2(unit) child runs per case).
pub const MAX_DEAD: usize = 6;

/// Bisect a failed unit to single case indices. Returns the outcome statistics of the parts
/// that ran to completion, and the dead single cases.
fn bisect(
    unit: &Unit,
    tier: &str,
    timeout: Duration,
    stats: &mut Stats,
    dead: &mut Vec<(String, u64, String)>,
    what: String,
) -> bool {
    if unit.hi - unit.lo <= 1 {
        dead.push((unit.space.clone(), unit.lo, what));
        return true;
    }
    let mid = unit.lo + (unit.hi - unit.lo) / 2;
    let mut found = false;
    for (lo, hi) in [(unit.lo, mid), (mid, unit.hi)] {
        let u = Unit { space: unit.space.clone(), lo, hi };
        match run_unit(&u, tier, timeout) {
            UnitOutcome::Done(s) => {
                let cur = std::mem::take(stats);
                *stats = cur.merge(s);
            }
            UnitOutcome::Crashed(w) => {
                found |= bisect(&u, tier, timeout, stats, dead, w);
            }
            UnitOutcome::TimedOut => {
                found |= bisect(&u, tier, timeout, stats, dead, "timed out (watchdog)".into());
            }
        }
    }
    found
}

/// Run all units on `jobs` concurrent children; merge in unit order.
pub fn run_units(
    units: &[Unit],
    tier: &str,
    timeout: Duration,
    bisect_timeout: Duration,
    jobs: usize,
) -> SweepResult {
    let next = AtomicUsize::new(0);
    let results: Mutex<Vec<Option<UnitOutcome>>> =
        Mutex::new((0..units.len()).map(|_| None).collect());
    // Watchdog (DESIGN §2.4): max(floor, 50 × median duration of the units completed so far),
    // never more than `timeout`; until 8 units have completed the cap alone applies. The
    // median scales with the load of the machine, the explored set does not depend on it.
    let durations: Mutex<Vec<f64>> = Mutex::new(Vec::new());
    let floor = bisect_timeout.min(timeout);
    let limit = || {
        let d = durations.lock().unwrap();
        if d.len() < 8 {
            return timeout;
        }
        let mut v = d.clone();
        v.sort_by(|a, b| a.partial_cmp(b).unwrap());
        let median = v[v.len() / 2];
        Duration::from_secs_f64((50.0 * median).max(floor.as_secs_f64())).min(timeout)
    };
    std::thread::scope(|sc| {
        for _ in 0..jobs.max(1) {
            sc.spawn(|| loop {
                let i = next.fetch_add(1, Ordering::SeqCst);
                if i >= units.len() {
                    break;
                }
                let (r, took) = run_unit_dyn(&units[i], tier, &limit);
                if matches!(r, UnitOutcome::Done(_)) {
                    durations.lock().unwrap().push(took.as_secs_f64());
                }
                results.lock().unwrap()[i] = Some(r);
            });
        }
    });
    let results = results.into_inner().unwrap();
    let mut stats = Stats::default();
    let mut dead = Vec::new();
    let mut unreproduced = Vec::new();
    let mut unbisected = Vec::new();
    for (u, r) in units.iter().zip(results) {
        let r = r.expect("unit not run");
        if dead.len() >= MAX_DEAD && !matches!(r, UnitOutcome::Done(_)) {
            unbisected.push(format!("{u:?}: {r:?}"));
            continue;
        }
        match r {
            UnitOutcome::Done(s) => stats = stats.merge(s),
            UnitOutcome::Crashed(w) => {
                let mut part = Stats::default();
                if !bisect(u, tier, bisect_timeout, &mut part, &mut dead, w.clone()) {
                    unreproduced.push(format!("{u:?}: {w}"));
                }
                stats = stats.merge(part);
            }
            UnitOutcome::TimedOut => {
                let mut part = Stats::default();
                if !bisect(u, tier, bisect_timeout, &mut part, &mut dead, "timed out (watchdog)".into()) {
                    // every part of the unit completed when run on its own: the unit was only
                    // slower than the adaptive watchdog (50 x the median unit), not hung. Its cases
                    // have all been explored by the split runs, whose statistics are merged here.
                    part.count("units slower than the adaptive watchdog, explored in parts", 1);
                }
                stats = stats.merge(part);
            }
        }
    }
    SweepResult { stats, dead_cases: dead, unreproduced, unbisected, units: units.len() }
}

/// Cut `0..total` of a space into units of `size` cases.
pub fn units_for(space: &str, total: u64, size: u64) -> Vec<Unit> {
    let size = size.max(1);
    let mut v = Vec::new();
    let mut lo = 0;
    while lo < total {
        let hi = (lo + size).min(total);
        v.push(Unit { space: space.to_string(), lo, hi });
        lo = hi;
    }
    v
}
