//! Shared by C26 and C27: the adapter that serves a `refmodel::exec` resolver world to the REAL
//! executor (`apollo_compiler::resolvers`, sync and async), the three schemas, the operation
//! generator, and the E-CHOICE controller / hand-written executor for `execute_async`.

use apollo_compiler::resolvers::{
    AsyncObjectValue, AsyncResolvedValue, Execution, FieldError, ObjectValue, ResolveInfo, ResolvedValue,
};
use apollo_compiler::validation::Valid;
use apollo_compiler::{ExecutableDocument, Schema};
use futures::future::BoxFuture;
use futures::Stream;
use refmodel::ast::{self, Definition, Document, Field, Fragment, OpKind, Operation, Selection, Ty, VarDef};
use refmodel::exec::{self, Dev, ExecSchema, Path, PosWorld, Res, Seg, World};
use refmodel::execparse::parse_document;
use serde_json::{json, Map, Value as Json};
use std::collections::{BTreeMap, BTreeSet};
use std::future::Future;
use std::pin::Pin;
use std::sync::atomic::{AtomicBool, Ordering};
use std::sync::{Arc, Mutex};
use std::task::{Context, Poll, Wake, Waker};

// ---------------------------------------------------------------------------------
// Schemas
// ---------------------------------------------------------------------------------

/// S1: every leaf kind x every wrapper, plus argument coercion made visible through `Echo`.
/// Field `<k><w>`: k in i f s b d c e (Int Float String Boolean ID custom-scalar enum), w in
/// 0..7 = T, T!, [T], [T!], [T]!, [T!]!, [[T!]].
pub fn s1_sdl() -> String {
    let kinds = [("i", "Int"), ("f", "Float"), ("s", "String"), ("b", "Boolean"), ("d", "ID"), ("c", "C"), ("e", "E")];
    let wraps = ["T", "T!", "[T]", "[T!]", "[T]!", "[T!]!", "[[T!]]"];
    let mut s = String::from(
        "scalar C scalar Echo enum E { A B } input In { a: String b: Int! c: Int = 7 } \
         type Query { arg(x: Int! = 5, y: [Int], z: In, e: E): Echo req(x: Int!): Echo! ",
    );
    for (k, t) in kinds {
        for (w, shape) in wraps.iter().enumerate() {
            s.push_str(&format!("{k}{w}: {} ", shape.replace('T', t)));
        }
    }
    s.push('}');
    s
}

/// S2: interface + union + objects (fragments, type conditions, abstract type resolution).
pub const S2_SDL: &str = "interface I { x: Int n: Int! } \
    type T implements I { x: Int n: Int! s: String } \
    type W implements I { x: Int n: Int! w: Int } \
    type V { x: Int v: Int } \
    union U = T | V \
    type Query { i: I u: U t: T lu: [U!] un: U! li: [I] }";

/// S3: objects three deep with every nullability pattern on the way, and a mutation root.
pub const S3_SDL: &str = "type Query { a: A an: A! la: [A] lan: [A!]! s: Int } \
    type A { b: B bn: B! lb: [B!] x: Int xn: Int! } \
    type B { c: Int cn: Int! } \
    type Mutation { m1: A m2: Int! m3(x: Int = 1): Int lm: [Int!] }";

pub struct SchemaCx {
    pub name: &'static str,
    pub doc: Document,
    pub text: String,
    pub exec: ExecSchema,
    pub apollo: Valid<Schema>,
}

impl SchemaCx {
    pub fn new(name: &'static str, sdl: &str) -> SchemaCx {
        let doc = parse_document(sdl).unwrap_or_else(|e| vcore::machinery_error(&format!("schema {name}: {e}")));
        // apollo sees the harness printer's rendering of the harness's own AST
        let text = doc.print();
        let apollo = Schema::parse_and_validate(&text, format!("{name}.graphql"))
            .unwrap_or_else(|e| vcore::machinery_error(&format!("schema {name} rejected by apollo: {}", e.errors)));
        SchemaCx { name, exec: ExecSchema::from_document(&doc), doc, text, apollo }
    }
}

pub fn schemas() -> Vec<SchemaCx> {
    vec![SchemaCx::new("S1", &s1_sdl()), SchemaCx::new("S2", S2_SDL), SchemaCx::new("S3", S3_SDL)]
}

// ---------------------------------------------------------------------------------
// Variables
// ---------------------------------------------------------------------------------

/// A variable a generated operation may use: its definition and the menu of request values
/// (`None` = not provided). Values are already of the declared type (coercion is C28's subject).
pub struct VarSpec {
    pub name: &'static str,
    pub ty: &'static str,
    pub default: Option<ast::Value>,
    pub values: Vec<Option<Json>>,
}

/// One table for all schemas (a schema that lacks a type never uses the variable).
/// Explicit `null` for the Boolean variable with a default used in `@skip` / `@include` is NOT in
/// the menu: the specification text (null is "not true") and graphql-js (raises an error for the
/// non-null `if` argument) disagree on that shape.
pub fn var_table() -> Vec<VarSpec> {
    vec![
        VarSpec { name: "v", ty: "Int", default: None, values: vec![None, Some(json!(2)), Some(Json::Null)] },
        VarSpec { name: "vn", ty: "Int!", default: None, values: vec![Some(json!(2))] },
        VarSpec { name: "vd", ty: "Int", default: Some(ast::Value::int(3)), values: vec![None, Some(json!(2)), Some(Json::Null)] },
        VarSpec { name: "w", ty: "[Int]", default: None, values: vec![None, Some(json!([1, null])), Some(Json::Null)] },
        VarSpec { name: "st", ty: "String", default: None, values: vec![None, Some(json!("q")), Some(Json::Null)] },
        VarSpec { name: "en", ty: "E", default: Some(ast::Value::en("B")), values: vec![None, Some(json!("A"))] },
        VarSpec { name: "p", ty: "Boolean!", default: None, values: vec![Some(json!(true)), Some(json!(false))] },
        VarSpec { name: "q", ty: "Boolean", default: Some(ast::Value::Bool(true)), values: vec![None, Some(json!(false))] },
    ]
}

fn vars_in_value(v: &ast::Value, out: &mut BTreeSet<String>) {
    match v {
        ast::Value::Var(n) => {
            out.insert(n.clone());
        }
        ast::Value::List(items) => items.iter().for_each(|i| vars_in_value(i, out)),
        ast::Value::Object(fs) => fs.iter().for_each(|(_, i)| vars_in_value(i, out)),
        _ => {}
    }
}

fn scan(sels: &[Selection], vars: &mut BTreeSet<String>, frags: &mut BTreeSet<String>) {
    for s in sels {
        let (dirs, sub): (&Vec<ast::Directive>, &[Selection]) = match s {
            Selection::Field(f) => {
                f.args.iter().for_each(|(_, v)| vars_in_value(v, vars));
                (&f.directives, &f.selection)
            }
            Selection::Spread { name, directives } => {
                frags.insert(name.clone());
                (directives, &[])
            }
            Selection::Inline { directives, selection, .. } => (directives, selection),
        };
        for d in dirs {
            d.args.iter().for_each(|(_, v)| vars_in_value(v, vars));
        }
        scan(sub, vars, frags);
    }
}

// ---------------------------------------------------------------------------------
// Operation generator
// ---------------------------------------------------------------------------------

/// One entry of a selection menu: a selection head and, for composite heads, the type its
/// sub-selection is generated on.
#[derive(Clone)]
pub struct Atom {
    pub head: Selection,
    pub child: Option<&'static str>,
}

fn leaf(text: &str) -> Atom {
    Atom { head: sel(text), child: None }
}
fn comp(text: &str, child: &'static str) -> Atom {
    Atom { head: sel(text), child: Some(child) }
}
/// a selection written as text (`a: x`, `...F`, `... on T`, `f(x: 1) @skip(if: $p)`); composite
/// heads are written without their braces
fn sel(text: &str) -> Selection {
    let t = text.trim();
    let inline = match t.strip_prefix("...") {
        Some(rest) => {
            let rest = rest.trim_start();
            rest.is_empty() || rest.starts_with("on ") || rest.starts_with('@')
        }
        None => false,
    };
    let doc = if inline { parse_document(&format!("{{ {t} {{ zz }} }}")) } else { parse_document(&format!("{{ {t} }}")) }
        .unwrap_or_else(|e| vcore::machinery_error(&format!("menu atom {text:?}: {e}")));
    let mut s = doc.operations().next().unwrap().selection[0].clone();
    if let Selection::Inline { selection, .. } = &mut s {
        selection.clear();
    }
    s
}

pub type Menu = BTreeMap<&'static str, Vec<Atom>>;

/// All selection sequences on `ty` whose total number of selections is exactly `k`.
pub struct SetGen<'m> {
    menu: &'m Menu,
    memo: BTreeMap<(&'static str, usize), Arc<Vec<Vec<Selection>>>>,
    counts: BTreeMap<(&'static str, usize), u64>,
}

impl<'m> SetGen<'m> {
    pub fn new(menu: &'m Menu) -> Self {
        SetGen { menu, memo: BTreeMap::new(), counts: BTreeMap::new() }
    }
    fn key(&self, ty: &str) -> &'static str {
        self.menu.keys().find(|k| **k == ty).copied().unwrap_or_else(|| vcore::machinery_error(&format!("no menu for type {ty}")))
    }
    /// number of sequences of exactly `k` selections (no materialisation)
    pub fn count_exact(&mut self, ty: &str, k: usize) -> u64 {
        if k == 0 {
            return 1;
        }
        let ty = self.key(ty);
        if let Some(c) = self.counts.get(&(ty, k)) {
            return *c;
        }
        let mut n = 0u64;
        for a in self.menu[ty].clone() {
            match a.child {
                None => n += self.count_exact(ty, k - 1),
                Some(ch) => {
                    for c in 1..k {
                        n += self.count_exact(ch, c) * self.count_exact(ty, k - 1 - c);
                    }
                }
            }
        }
        self.counts.insert((ty, k), n);
        n
    }
    pub fn exact(&mut self, ty: &str, k: usize) -> Arc<Vec<Vec<Selection>>> {
        if k == 0 {
            return Arc::new(vec![vec![]]);
        }
        let ty = self.key(ty);
        if let Some(v) = self.memo.get(&(ty, k)) {
            return v.clone();
        }
        let mut out = Vec::new();
        for a in self.menu[ty].clone() {
            match a.child {
                None => {
                    for rest in self.exact(ty, k - 1).iter() {
                        let mut s = vec![a.head.clone()];
                        s.extend(rest.iter().cloned());
                        out.push(s);
                    }
                }
                Some(ch) => {
                    for c in 1..k {
                        let subs = self.exact(ch, c);
                        let rests = self.exact(ty, k - 1 - c);
                        for sub in subs.iter() {
                            let mut head = a.head.clone();
                            match &mut head {
                                Selection::Field(f) => f.selection = sub.clone(),
                                Selection::Inline { selection, .. } => *selection = sub.clone(),
                                Selection::Spread { .. } => unreachable!(),
                            }
                            for rest in rests.iter() {
                                let mut s = vec![head.clone()];
                                s.extend(rest.iter().cloned());
                                out.push(s);
                            }
                        }
                    }
                }
            }
        }
        let v = Arc::new(out);
        self.memo.insert((ty, k), v.clone());
        v
    }
}

/// A generated request family: one operation (plus the fragments it uses) and all its coerced
/// variable maps.
pub struct GenOp {
    pub schema: usize,
    pub family: &'static str,
    pub operation: Operation,
    pub fragments: Vec<Fragment>,
    pub text: String,
    pub var_maps: Vec<Map<String, Json>>,
}

fn fragment_pool(schema: &str) -> Vec<Fragment> {
    let text = match schema {
        "S1" => "fragment FQ on Query { i0 ...FQ2 } fragment FQ2 on Query { i1 }",
        "S2" => {
            "fragment FI on I { x } fragment FT on T { s x } fragment FW on W { w } fragment FU on U { __typename ...FT } \
             fragment FN on I { n ...FI }"
        }
        _ => "fragment FA on A { x b { c } } fragment FB on B { cn } fragment FQ on Query { s a { xn } }",
    };
    parse_document(text).unwrap().fragments().cloned().collect()
}

/// Assemble an operation around a root selection set: add the variable definitions it uses
/// (transitively through fragments), the fragments it uses, print, enumerate variable maps.
pub fn assemble(schema: usize, sname: &str, family: &'static str, kind: OpKind, selection: Vec<Selection>) -> GenOp {
    let pool = fragment_pool(sname);
    let mut vars = BTreeSet::new();
    let mut frag_names = BTreeSet::new();
    scan(&selection, &mut vars, &mut frag_names);
    // transitive closure over fragment spreads
    loop {
        let before = frag_names.len();
        for f in &pool {
            if frag_names.contains(&f.name) {
                scan(&f.selection, &mut vars, &mut frag_names);
            }
        }
        if frag_names.len() == before {
            break;
        }
    }
    let fragments: Vec<Fragment> = pool.into_iter().filter(|f| frag_names.contains(&f.name)).collect();
    let table = var_table();
    let used: Vec<&VarSpec> = table.iter().filter(|s| vars.contains(s.name)).collect();
    let operation = Operation {
        kind,
        name: None,
        vars: used
            .iter()
            .map(|s| VarDef { name: s.name.to_string(), ty: Ty::parse(s.ty), default: s.default.clone(), directives: vec![] })
            .collect(),
        directives: vec![],
        selection,
        shorthand: false,
    };
    let mut defs = vec![Definition::Operation(operation.clone())];
    defs.extend(fragments.iter().cloned().map(Definition::Fragment));
    let text = Document { defs }.print();
    // full product of the value menus of the used variables
    let mut raw_maps: Vec<Map<String, Json>> = vec![Map::new()];
    for s in &used {
        let mut next = Vec::new();
        for m in &raw_maps {
            for v in &s.values {
                let mut m2 = m.clone();
                if let Some(v) = v {
                    m2.insert(s.name.to_string(), v.clone());
                }
                next.push(m2);
            }
        }
        raw_maps = next;
    }
    let var_maps = raw_maps.iter().map(|raw| exec::coerced_variables(&operation, raw)).collect();
    GenOp { schema, family, operation, fragments, text, var_maps }
}

fn directive_variants() -> Vec<Vec<ast::Directive>> {
    let d = |text: &str| -> Vec<ast::Directive> {
        match sel(&format!("zz {text}")) {
            Selection::Field(f) => f.directives,
            _ => unreachable!(),
        }
    };
    vec![
        d("@skip(if: true)"),
        d("@skip(if: false)"),
        d("@include(if: true)"),
        d("@include(if: false)"),
        d("@skip(if: $p)"),
        d("@include(if: $p)"),
        d("@skip(if: $q)"),
        d("@include(if: $q)"),
        d("@skip(if: true) @include(if: true)"),
        d("@include(if: false) @skip(if: false)"),
        d("@skip(if: $p) @include(if: $q)"),
    ]
}

/// number of selection nodes (fields, spreads, inline fragments) in pre-order
fn node_count(sels: &[Selection]) -> usize {
    sels.iter()
        .map(|s| match s {
            Selection::Field(f) => 1 + node_count(&f.selection),
            Selection::Spread { .. } => 1,
            Selection::Inline { selection, .. } => 1 + node_count(selection),
        })
        .sum()
}

/// set the directives of the `idx`-th node (pre-order); returns false if it already has some
fn decorate(sels: &mut [Selection], idx: &mut usize, dirs: &[ast::Directive]) -> bool {
    for s in sels {
        let (d, sub): (&mut Vec<ast::Directive>, Option<&mut Vec<Selection>>) = match s {
            Selection::Field(f) => (&mut f.directives, Some(&mut f.selection)),
            Selection::Spread { directives, .. } => (directives, None),
            Selection::Inline { directives, selection, .. } => (directives, Some(selection)),
        };
        if *idx == 0 {
            if !d.is_empty() {
                return false;
            }
            *d = dirs.to_vec();
            *idx = usize::MAX;
            return true;
        }
        *idx -= 1;
        if let Some(sub) = sub {
            if decorate(sub, idx, dirs) {
                return true;
            }
            if *idx == usize::MAX {
                return false;
            }
        }
    }
    false
}

pub struct GenBounds {
    /// max selections of the grammar-derived operations (full menus), per schema
    pub max_sel: [usize; 3],
    /// operations of max_sel+1 ..= core_sel selections are derived from the reduced menus
    pub core_sel: usize,
    /// max selections of the mutation operations (S3)
    pub mutation_sel: usize,
    /// directive decorations: base operations up to this many selections, this many decorated nodes
    pub deco_base_sel: usize,
    pub deco_nodes: usize,
    /// S1: sequence length over the reduced field list
    pub s1_seq: usize,
}

/// Reduced menus, used for the operation sizes the full menus cannot reach.
pub fn core_menus(schema: &str) -> Menu {
    let mut m: Menu = BTreeMap::new();
    match schema {
        "S2" => {
            m.insert("Query", vec![comp("i", "I"), comp("u", "U"), comp("lu", "U")]);
            m.insert("I", vec![leaf("x"), leaf("n"), leaf("...FI"), comp("... on T", "T"), comp("... on U", "U")]);
            m.insert("U", vec![leaf("__typename"), leaf("...FT"), comp("... on T", "T"), comp("... on I", "I")]);
            m.insert("T", vec![leaf("x"), leaf("s"), leaf("...FI")]);
        }
        "S3" => {
            m.insert("Query", vec![comp("a", "A"), comp("an", "A"), comp("lan", "A"), leaf("s")]);
            m.insert("A", vec![leaf("x"), leaf("xn"), comp("b", "B"), comp("bn", "B"), comp("lb", "B")]);
            m.insert("B", vec![leaf("c"), leaf("cn")]);
        }
        _ => {}
    }
    m
}

pub fn menus(schema: &str) -> Menu {
    let mut m: Menu = BTreeMap::new();
    match schema {
        "S1" => {
            m.insert(
                "Query",
                vec![leaf("i0"), leaf("i1"), leaf("i3"), leaf("i5"), leaf("i6"), leaf("__typename"), leaf("k: i2"), leaf("...FQ")],
            );
        }
        "S2" => {
            m.insert("Query", vec![comp("i", "I"), comp("u", "U"), comp("t", "T"), comp("lu", "U"), comp("un", "U"), comp("k: i", "I")]);
            m.insert(
                "I",
                vec![
                    leaf("x"),
                    leaf("n"),
                    leaf("__typename"),
                    leaf("a: x"),
                    leaf("...FI"),
                    leaf("...FT"),
                    leaf("...FU"),
                    comp("... on T", "T"),
                    comp("... on W", "W"),
                    comp("... on U", "U"),
                    comp("...", "I"),
                ],
            );
            m.insert(
                "U",
                vec![
                    leaf("__typename"),
                    leaf("...FT"),
                    leaf("...FU"),
                    leaf("...FN"),
                    comp("... on T", "T"),
                    comp("... on V", "V"),
                    comp("... on I", "I"),
                ],
            );
            m.insert("T", vec![leaf("x"), leaf("s"), leaf("n"), leaf("a: s"), leaf("...FI"), leaf("...FT"), comp("... on I", "I"), comp("... on U", "U")]);
            m.insert("W", vec![leaf("w"), leaf("x"), leaf("...FW"), leaf("...FN")]);
            m.insert("V", vec![leaf("v"), leaf("x"), leaf("a: v")]);
        }
        _ => {
            m.insert(
                "Query",
                vec![comp("a", "A"), comp("an", "A"), comp("la", "A"), comp("lan", "A"), leaf("s"), comp("k: a", "A"), leaf("...FQ"), comp("... on Query", "Query")],
            );
            m.insert("A", vec![leaf("x"), leaf("xn"), comp("b", "B"), comp("bn", "B"), comp("lb", "B"), leaf("...FA"), comp("k: b", "B")]);
            m.insert("B", vec![leaf("c"), leaf("cn"), leaf("z: c"), leaf("...FB")]);
            m.insert("Mutation", vec![comp("m1", "A"), leaf("m2"), leaf("m3"), leaf("m3(x: 2)"), leaf("k: m2"), leaf("lm")]);
        }
    }
    m
}

/// Argument-coercion operations on S1 (literals, variables, defaults, nested variables, input
/// objects; literal Int for Float / ID and non-coerced-form defaults are not in the alphabet).
pub fn s1_argument_selections() -> Vec<Vec<Selection>> {
    let atoms = [
        "arg",
        "arg(x: 1)",
        "arg(y: 3, x: 1)",
        "arg(x: $v)",
        "arg(x: $vn)",
        "arg(x: $vd)",
        "arg(y: [1, 2])",
        "arg(y: 1)",
        "arg(y: null)",
        "arg(y: [null, 1])",
        "arg(y: $w)",
        "arg(y: [$v, 1])",
        "arg(y: [$vn])",
        "arg(y: $v)",
        "arg(z: {b: 1})",
        "arg(z: {c: null, b: 1, a: \"x\"})",
        "arg(z: {a: $st, b: 1})",
        "arg(z: {b: $vn})",
        "arg(z: {b: $vd, c: $v})",
        "arg(z: null)",
        "arg(e: A)",
        "arg(e: $en)",
        "arg(e: null, x: 2)",
        "req(x: 1)",
        "req(x: $v)",
        "req(x: $vn)",
        "req(x: $vd)",
        "k: req(x: 7)",
    ];
    let mut out: Vec<Vec<Selection>> = atoms.iter().map(|a| vec![sel(a)]).collect();
    // an argument-coercion failure next to other fields (what is nulled, what is still executed)
    for a in ["arg(x: $v)", "req(x: $vd)", "req(x: $v)"] {
        out.push(vec![sel("i0"), sel(a), sel("i1")]);
        out.push(vec![sel(a), sel(&format!("k: {a}"))]);
    }
    out
}

/// The operation space of C26 (DESIGN C26 "Explored"). Invalid candidates (by apollo's own
/// validation) are dropped by the caller.
pub fn generate(schemas: &[SchemaCx], b: &GenBounds) -> Vec<GenOp> {
    let mut ops = Vec::new();
    for (si, sc) in schemas.iter().enumerate() {
        let menu = menus(sc.name);
        let mut g = SetGen::new(&menu);
        let mut base: Vec<Vec<Selection>> = Vec::new();
        match sc.name {
            "S1" => {
                // every field alone
                for f in &sc.exec.get("Query").unwrap().fields {
                    if f.args.is_empty() {
                        ops.push(assemble(si, sc.name, "s1-single", OpKind::Query, vec![Selection::field(&f.name)]));
                    }
                }
                for s in s1_argument_selections() {
                    ops.push(assemble(si, sc.name, "s1-args", OpKind::Query, s));
                }
                for s in ["__schema { queryType { name } }", "__type(name: \"Query\") { name }"] {
                    let mut head = sel(&s[..s.find('{').unwrap()]);
                    if let Selection::Field(f) = &mut head {
                        f.selection = parse_document(&s[s.find('{').unwrap()..]).unwrap().operations().next().unwrap().selection.clone();
                    }
                    ops.push(assemble(si, sc.name, "s1-meta", OpKind::Query, vec![Selection::field("i0"), head.clone(), Selection::field("i1")]));
                    ops.push(assemble(si, sc.name, "s1-meta", OpKind::Query, vec![head]));
                }
                for k in 2..=b.s1_seq {
                    for s in g.exact("Query", k).iter() {
                        base.push(s.clone());
                        ops.push(assemble(si, sc.name, "s1-seq", OpKind::Query, s.clone()));
                    }
                }
            }
            _ => {
                for k in 1..=b.max_sel[si] {
                    for s in g.exact("Query", k).iter() {
                        if k <= b.deco_base_sel {
                            base.push(s.clone());
                        }
                        ops.push(assemble(si, sc.name, if sc.name == "S2" { "s2-grammar" } else { "s3-grammar" }, OpKind::Query, s.clone()));
                    }
                }
                let core = core_menus(sc.name);
                let mut gc = SetGen::new(&core);
                for k in b.max_sel[si] + 1..=b.core_sel {
                    for s in gc.exact("Query", k).iter() {
                        ops.push(assemble(si, sc.name, if sc.name == "S2" { "s2-core-grammar" } else { "s3-core-grammar" }, OpKind::Query, s.clone()));
                    }
                }
                if sc.name == "S3" {
                    for k in 1..=b.mutation_sel {
                        for s in g.exact("Mutation", k).iter() {
                            ops.push(assemble(si, sc.name, "s3-mutation", OpKind::Mutation, s.clone()));
                        }
                    }
                }
            }
        }
        // @skip / @include decorations of the small operations
        let variants = directive_variants();
        for s in base.iter().filter(|s| node_count(s) <= b.deco_base_sel) {
            let n = node_count(s);
            for i in 0..n {
                for (vi, dv) in variants.iter().enumerate() {
                    let mut s1 = s.clone();
                    if !decorate(&mut s1, &mut i.clone(), dv) {
                        continue;
                    }
                    ops.push(assemble(si, sc.name, "decorated-1", OpKind::Query, s1.clone()));
                    if b.deco_nodes >= 2 {
                        for j in i + 1..n {
                            for dv2 in &variants[..variants.len().min(vi + 6)] {
                                let mut s2 = s1.clone();
                                if decorate(&mut s2, &mut j.clone(), dv2) {
                                    ops.push(assemble(si, sc.name, "decorated-2", OpKind::Query, s2));
                                }
                            }
                        }
                    }
                }
            }
        }
    }
    ops
}

/// A generated operation parsed and validated by apollo.
pub struct Prepared {
    pub gen: GenOp,
    pub apollo: Valid<ExecutableDocument>,
}

pub fn prepare(sc: &SchemaCx, gen: GenOp) -> Result<Prepared, String> {
    match ExecutableDocument::parse_and_validate(&sc.apollo, &gen.text, "op.graphql") {
        Ok(apollo) => Ok(Prepared { gen, apollo }),
        Err(e) => Err(e.errors.to_string()),
    }
}

// ---------------------------------------------------------------------------------
// Serving a world to the real executor
// ---------------------------------------------------------------------------------

#[derive(Clone, Debug, PartialEq)]
pub enum Event {
    /// `resolve_field` was called for the field at this position with these arguments
    Call(Path, Json),
    /// the future returned by `resolve_field` answered Ready
    Ready(Path),
    /// the list at this position yielded item `usize`
    Item(Path, usize),
    /// the list at this position ended
    End(Path),
}

impl Event {
    pub fn path(&self) -> &Path {
        match self {
            Event::Call(p, _) | Event::Ready(p) | Event::Item(p, _) | Event::End(p) => p,
        }
    }
    pub fn to_json(&self) -> Json {
        match self {
            Event::Call(p, a) => json!({"call": exec::path_json(p), "args": a}),
            Event::Ready(p) => json!({"ready": exec::path_json(p)}),
            Event::Item(p, i) => json!({"item": exec::path_json(p), "index": i}),
            Event::End(p) => json!({"end": exec::path_json(p)}),
        }
    }
}

fn to_bytes_value(v: Json) -> serde_json_bytes::Value {
    serde_json_bytes::Value::from(v)
}

fn error() -> FieldError {
    FieldError { message: "E".into() }
}

pub struct SyncShared<'w> {
    pub world: &'w (dyn World + Sync),
    pub log: Mutex<Vec<Event>>,
}

pub struct SyncObj<'w> {
    sh: &'w SyncShared<'w>,
    type_name: String,
    state: Json,
    path: Path,
}

fn sync_value<'w>(sh: &'w SyncShared<'w>, res: Res, pos: Path) -> Result<ResolvedValue<'w>, FieldError> {
    match res {
        Res::Error => Err(error()),
        Res::Leaf(v) => Ok(ResolvedValue::Leaf(to_bytes_value(v))),
        Res::Object { type_name, state } => Ok(ResolvedValue::object(SyncObj { sh, type_name, state, path: pos })),
        Res::List(items) => {
            let mut items = items.into_iter();
            let mut idx = 0usize;
            let mut ended = false;
            Ok(ResolvedValue::List(Box::new(std::iter::from_fn(move || match items.next() {
                Some(it) => {
                    sh.log.lock().unwrap().push(Event::Item(pos.clone(), idx));
                    let mut p = pos.clone();
                    p.push(Seg::Index(idx));
                    idx += 1;
                    Some(sync_value(sh, it, p))
                }
                None => {
                    if !ended {
                        ended = true;
                        sh.log.lock().unwrap().push(Event::End(pos.clone()));
                    }
                    None
                }
            }))))
        }
    }
}

impl ObjectValue for SyncObj<'_> {
    fn type_name(&self) -> &str {
        &self.type_name
    }
    fn resolve_field<'a>(&'a self, info: &'a ResolveInfo<'a>) -> Result<ResolvedValue<'a>, FieldError> {
        let mut pos = self.path.clone();
        pos.push(Seg::Key(info.field_selections()[0].response_key().to_string()));
        let args = serde_json::to_value(info.arguments()).unwrap_or(Json::Null);
        self.sh.log.lock().unwrap().push(Event::Call(pos.clone(), args.clone()));
        let res = self.sh.world.resolve(&self.type_name, &self.state, info.field_name(), &pos, &args);
        self.sh.log.lock().unwrap().push(Event::Ready(pos.clone()));
        sync_value(self.sh, res, pos)
    }
}

/// What the real executor answered.
#[derive(Clone, Debug, PartialEq)]
pub struct Real {
    /// the whole serialized response
    pub response: Json,
    pub data: Json,
    pub error_paths: Vec<Path>,
    pub events: Vec<Event>,
}

fn split_response(response: Json, events: Vec<Event>) -> Real {
    let data = response.get("data").cloned().unwrap_or(Json::Null);
    let error_paths = response
        .get("errors")
        .and_then(|e| e.as_array())
        .map(|a| a.iter().map(|e| exec::path_from_json(e.get("path").unwrap_or(&Json::Null))).collect())
        .unwrap_or_default();
    Real { response, data, error_paths, events }
}

fn valid_vars(vars: &Map<String, Json>) -> Valid<apollo_compiler::response::JsonMap> {
    let v = to_bytes_value(Json::Object(vars.clone()));
    Valid::assume_valid(v.as_object().cloned().unwrap_or_default())
}

/// `Execution::execute_sync` on the world. `Err` = request error or panic (text).
pub fn run_sync(sc: &SchemaCx, doc: &Valid<ExecutableDocument>, vars: &Map<String, Json>, world: &(dyn World + Sync), root_type: &str) -> Result<Real, String> {
    let sh = SyncShared { world, log: Mutex::new(Vec::new()) };
    let vv = valid_vars(vars);
    let r = vcore::catch(|| {
        let root = SyncObj { sh: &sh, type_name: root_type.to_string(), state: world.root_state(), path: vec![] };
        Execution::new(&sc.apollo, doc).coerced_variable_values(&vv).execute_sync(&root).map(|resp| serde_json::to_value(&resp).unwrap())
    });
    match r {
        Err(p) => Err(format!("panic: {p}")),
        Ok(Err(e)) => Err(format!("request error: {}", e.message())),
        Ok(Ok(j)) => Ok(split_response(j, std::mem::take(&mut sh.log.lock().unwrap()))),
    }
}

pub fn root_type_of(sc: &SchemaCx, op: &Operation) -> String {
    match op.kind {
        OpKind::Mutation => sc.exec.mutation.clone().unwrap_or_else(|| "Mutation".into()),
        _ => sc.exec.query.clone(),
    }
}

// ---------------------------------------------------------------------------------
// E-CHOICE: async resolvers whose readiness is chosen by the explorer
// ---------------------------------------------------------------------------------

/// Choice at a poll of a harness future / stream: 0 = ready, 1 = pending and the waker is
/// signalled immediately (during the poll), 2 = pending and the waker is signalled when the
/// executor goes idle.
pub const MENU: u8 = 3;

#[derive(Clone, Debug, PartialEq)]
pub struct ChoicePoint {
    pub choice: u8,
    pub menu: u8,
    /// what is being polled (for the divergence check of replays)
    pub tag: String,
}

pub struct Controller {
    pub prefix: Vec<ChoicePoint>,
    pub trace: Vec<ChoicePoint>,
    pub max_pending: u8,
    pub deferred: Vec<Waker>,
    pub events: Vec<Event>,
    /// a replayed choice did not meet the choice point it was recorded at
    pub diverged: Option<String>,
}

impl Controller {
    fn choose(&mut self, menu: u8, tag: String) -> u8 {
        let i = self.trace.len();
        let c = match self.prefix.get(i) {
            Some(p) => {
                if p.menu != menu || p.tag != tag || p.choice >= menu {
                    self.diverged.get_or_insert_with(|| format!("choice point {i}: recorded {p:?}, met menu {menu} tag {tag}"));
                    0
                } else {
                    p.choice
                }
            }
            None => 0,
        };
        self.trace.push(ChoicePoint { choice: c, menu, tag });
        c
    }
}

pub struct AsyncShared<'w> {
    pub world: &'w (dyn World + Sync),
    pub ctl: Mutex<Controller>,
}

impl AsyncShared<'_> {
    /// true = answer Pending
    fn decide(&self, tag: String, pendings: u8, cx: &mut Context<'_>) -> bool {
        let mut ctl = self.ctl.lock().unwrap();
        if pendings >= ctl.max_pending {
            return false;
        }
        match ctl.choose(MENU, tag) {
            0 => false,
            1 => {
                drop(ctl);
                cx.waker().wake_by_ref();
                true
            }
            _ => {
                let w = cx.waker().clone();
                ctl.deferred.push(w);
                true
            }
        }
    }
    fn log(&self, e: Event) {
        self.ctl.lock().unwrap().events.push(e);
    }
}

pub struct AsyncObj<'w> {
    sh: &'w AsyncShared<'w>,
    type_name: String,
    state: Json,
    path: Path,
}

struct Delay<'w> {
    sh: &'w AsyncShared<'w>,
    pos: Path,
    res: Option<Res>,
    pendings: u8,
}

impl<'w> Future for Delay<'w> {
    type Output = Result<AsyncResolvedValue<'w>, FieldError>;
    fn poll(mut self: Pin<&mut Self>, cx: &mut Context<'_>) -> Poll<Self::Output> {
        if self.sh.decide(format!("field {}", exec::path_string(&self.pos)), self.pendings, cx) {
            self.pendings += 1;
            return Poll::Pending;
        }
        let res = self.res.take().expect("harness future polled after completion");
        self.sh.log(Event::Ready(self.pos.clone()));
        Poll::Ready(async_value(self.sh, res, self.pos.clone()))
    }
}

struct DelayStream<'w> {
    sh: &'w AsyncShared<'w>,
    pos: Path,
    items: std::vec::IntoIter<Res>,
    idx: usize,
    pendings: u8,
    ended: bool,
}

impl<'w> Stream for DelayStream<'w> {
    type Item = Result<AsyncResolvedValue<'w>, FieldError>;
    fn poll_next(mut self: Pin<&mut Self>, cx: &mut Context<'_>) -> Poll<Option<Self::Item>> {
        if self.ended {
            return Poll::Ready(None);
        }
        if self.sh.decide(format!("item {} {}", exec::path_string(&self.pos), self.idx), self.pendings, cx) {
            self.pendings += 1;
            return Poll::Pending;
        }
        self.pendings = 0;
        match self.items.next() {
            Some(it) => {
                let idx = self.idx;
                self.idx += 1;
                self.sh.log(Event::Item(self.pos.clone(), idx));
                let mut p = self.pos.clone();
                p.push(Seg::Index(idx));
                Poll::Ready(Some(async_value(self.sh, it, p)))
            }
            None => {
                self.ended = true;
                self.sh.log(Event::End(self.pos.clone()));
                Poll::Ready(None)
            }
        }
    }
}

fn async_value<'w>(sh: &'w AsyncShared<'w>, res: Res, pos: Path) -> Result<AsyncResolvedValue<'w>, FieldError> {
    match res {
        Res::Error => Err(error()),
        Res::Leaf(v) => Ok(AsyncResolvedValue::Leaf(to_bytes_value(v))),
        Res::Object { type_name, state } => Ok(AsyncResolvedValue::object(AsyncObj { sh, type_name, state, path: pos })),
        Res::List(items) => Ok(AsyncResolvedValue::List(Box::pin(DelayStream {
            sh,
            pos,
            items: items.into_iter(),
            idx: 0,
            pendings: 0,
            ended: false,
        }))),
    }
}

impl AsyncObjectValue for AsyncObj<'_> {
    fn type_name(&self) -> &str {
        &self.type_name
    }
    fn resolve_field<'a>(&'a self, info: &'a ResolveInfo<'a>) -> BoxFuture<'a, Result<AsyncResolvedValue<'a>, FieldError>> {
        let mut pos = self.path.clone();
        pos.push(Seg::Key(info.field_selections()[0].response_key().to_string()));
        let args = serde_json::to_value(info.arguments()).unwrap_or(Json::Null);
        self.sh.log(Event::Call(pos.clone(), args.clone()));
        let res = self.sh.world.resolve(&self.type_name, &self.state, info.field_name(), &pos, &args);
        Box::pin(Delay { sh: self.sh, pos, res: Some(res), pendings: 0 })
    }
}

struct WakeFlag {
    woken: AtomicBool,
}

impl Wake for WakeFlag {
    fn wake(self: Arc<Self>) {
        self.woken.store(true, Ordering::SeqCst);
    }
    fn wake_by_ref(self: &Arc<Self>) {
        self.woken.store(true, Ordering::SeqCst);
    }
}

#[derive(Clone, Debug, PartialEq)]
pub enum Verdict {
    /// the root future completed
    Done(Result<Json, String>),
    /// the root future is pending, no wake-up was delivered and none is outstanding
    LostWakeup,
    /// more root polls than 10 x (choice points + 1)
    Horizon,
    Panic(String),
}

pub struct Schedule {
    pub verdict: Verdict,
    pub trace: Vec<ChoicePoint>,
    pub events: Vec<Event>,
    pub root_polls: u32,
    pub diverged: Option<String>,
}

/// One execution of `execute_async` under a choice prefix, driven by a hand-written executor:
/// the root future is polled only when its waker was signalled; when it is pending and not
/// signalled the executor is idle and the deferred wake-ups are delivered.
pub fn run_async(
    sc: &SchemaCx,
    doc: &Valid<ExecutableDocument>,
    vars: &Map<String, Json>,
    world: &(dyn World + Sync),
    root_type: &str,
    prefix: Vec<ChoicePoint>,
    max_pending: u8,
) -> Schedule {
    let sh = AsyncShared {
        world,
        ctl: Mutex::new(Controller { prefix, trace: vec![], max_pending, deferred: vec![], events: vec![], diverged: None }),
    };
    let vv = valid_vars(vars);
    let mut root_polls = 0u32;
    let verdict = vcore::catch(|| {
        let root = AsyncObj { sh: &sh, type_name: root_type.to_string(), state: world.root_state(), path: vec![] };
        let exec = Execution::new(&sc.apollo, doc).coerced_variable_values(&vv);
        let mut fut = Box::pin(exec.execute_async(&root));
        let flag = Arc::new(WakeFlag { woken: AtomicBool::new(true) });
        let waker = Waker::from(flag.clone());
        let mut cx = Context::from_waker(&waker);
        loop {
            if !flag.woken.swap(false, Ordering::SeqCst) {
                // idle: deliver the deferred wake-ups
                let ws: Vec<Waker> = std::mem::take(&mut sh.ctl.lock().unwrap().deferred);
                if ws.is_empty() {
                    return Verdict::LostWakeup;
                }
                for w in ws {
                    w.wake();
                }
                if !flag.woken.swap(false, Ordering::SeqCst) {
                    // the wakers the pending futures were given do not reach the root task
                    return Verdict::LostWakeup;
                }
            }
            root_polls += 1;
            let points = sh.ctl.lock().unwrap().trace.len() as u32;
            if root_polls > 10 * (points + 1) {
                return Verdict::Horizon;
            }
            if let Poll::Ready(r) = fut.as_mut().poll(&mut cx) {
                return Verdict::Done(match r {
                    Ok(resp) => Ok(serde_json::to_value(&resp).unwrap()),
                    Err(e) => Err(e.message().to_string()),
                });
            }
        }
    });
    let verdict = match verdict {
        Ok(v) => v,
        Err(p) => Verdict::Panic(p),
    };
    let mut ctl = sh.ctl.lock().unwrap();
    Schedule {
        verdict,
        trace: std::mem::take(&mut ctl.trace),
        events: std::mem::take(&mut ctl.events),
        root_polls,
        diverged: ctl.diverged.take(),
    }
}

// ---------------------------------------------------------------------------------
// Cases (shared replay format)
// ---------------------------------------------------------------------------------

pub fn devs_to_json(devs: &[(Path, Dev)]) -> Json {
    Json::Array(devs.iter().map(|(p, d)| json!({"at": exec::path_json(p), "serve": d.to_json()})).collect())
}

pub fn devs_from_json(v: &Json) -> Vec<(Path, Dev)> {
    v.as_array()
        .map(|a| a.iter().map(|d| (exec::path_from_json(&d["at"]), Dev::from_json(&d["serve"]))).collect())
        .unwrap_or_default()
}

/// A self-contained case: schema name, document text, coerced variables, deviations.
pub fn case_json(sc: &SchemaCx, text: &str, vars: &Map<String, Json>, devs: &[(Path, Dev)]) -> Json {
    json!({"schema": sc.name, "schema_sdl": sc.text, "document": text, "coerced_variables": vars, "deviations": devs_to_json(devs)})
}

/// Rebuild (operation, fragments) from the text of a case.
pub fn parse_case_document(text: &str) -> Result<(Operation, Vec<Fragment>), String> {
    let doc = parse_document(text)?;
    let op = doc.operations().next().cloned().ok_or("no operation")?;
    Ok((op, doc.fragments().cloned().collect()))
}

pub fn world<'a>(sc: &'a SchemaCx, devs: &[(Path, Dev)]) -> PosWorld<'a> {
    PosWorld { schema: &sc.exec, deviations: devs.to_vec() }
}

/// used by the direct invariants: `Field` selections grouped for an object
pub fn merged_subselections<'a>(fields: &[&'a Field]) -> Vec<&'a Selection> {
    fields.iter().flat_map(|f| f.selection.iter()).collect()
}
