//! Schema spaces shared by C14 and C15 (DESIGN.md §6 C14 "Explored"):
//!
//! 1. *Deviation-bounded mutation*: small valid base schemas (one per rule family) × mutation
//!    operators applied at **every** applicable site; k = 1 (quick), k ≤ 2 (thorough).
//! 2. *Tiny-scope exhaustive*: every schema made of `Query`, `A`, `B` with kinds from
//!    {object, interface, union, input, enum}, ≤ 2 fields each (thorough only).
//!
//! Everything works on the harness's mini-AST; the text given to apollo is `Document::print`.
//! `excluded` is the alphabet filter: shapes on which the spec text and graphql-js disagree, or
//! which are syntax (C05's business), are counted and skipped, never judged.

use refmodel::ast::*;
use refmodel::typesys::{self, Merged};
use refmodel::values;
use serde_json::json;
use std::collections::{BTreeSet, HashSet};
use vcore::{Stats, Tier};

// ---------------------------------------------------------------------------------
// Base schemas
// ---------------------------------------------------------------------------------

pub const BASES: &[(&str, &str)] = &[
    (
        "roots-explicit",
        "schema { query: Q mutation: M subscription: S }\n\
         type Q { a: Int }\n\
         type M { b: String }\n\
         type S { c: Boolean }\n\
         interface I { i: Int }",
    ),
    (
        "roots-implicit",
        "type Query { a: Int }\n\
         type Mutation { b: Int }\n\
         type Other { c: ID }\n\
         enum E { A }",
    ),
    (
        "objects-interfaces-arguments",
        "type Query implements I { f(x: Int, y: String = \"s\"): T g: [T!]! }\n\
         interface I { f(x: Int): I }\n\
         type T implements I { f(x: Int): T }\n\
         input In { v: Int }",
    ),
    (
        "interface-chains",
        "type Query implements K & J { a: Int b: Int c: K }\n\
         interface J { a: Int }\n\
         interface K implements J { a: Int b: Int }\n\
         type Impl implements K & J { a: Int! b: Int }",
    ),
    (
        "covariance",
        "type Query implements I { f: T }\n\
         interface J { j: Int }\n\
         interface I { f: J }\n\
         type T implements J { j: Int }\n\
         union U = T",
    ),
    (
        "unions",
        "type Query { u: U l: [U!] }\n\
         union U = A | B\n\
         type A { a: Int }\n\
         type B { b: Float }\n\
         interface I { i: Int }",
    ),
    (
        "enums",
        "type Query { e(x: E = A): E }\n\
         enum E { A B @deprecated(reason: \"r\") }",
    ),
    (
        "input-objects",
        "type Query { f(i: In, l: [In2!]): Int }\n\
         input In { x: Int! = 1 y: In z: [In!]! n: In2! }\n\
         input In2 { a: String b: In }",
    ),
    (
        "input-cycles",
        "type Query { f(a: A): Int }\n\
         input A { b: B! v: Int }\n\
         input B { c: C! }\n\
         input C { a: A l: [A!]! }",
    ),
    (
        "directive-locations",
        "directive @d(i: Int) on SCHEMA | SCALAR | OBJECT | FIELD_DEFINITION | ARGUMENT_DEFINITION | INTERFACE | UNION | ENUM | ENUM_VALUE | INPUT_OBJECT | INPUT_FIELD_DEFINITION\n\
         directive @r repeatable on OBJECT | FIELD_DEFINITION\n\
         schema @d { query: Query }\n\
         scalar T @d\n\
         type Query implements I @d @r @r { f(a: Int @d): U @d(i: 1) }\n\
         interface I @d { f: U }\n\
         union U @d = Query\n\
         enum K @d { V @d }\n\
         input P @d { x: Int @d }",
    ),
    (
        "directive-arguments",
        "directive @d(i: Int, s: String! = \"x\", e: E, o: In, l: [Int!], c: S, b: Boolean, f: Float, id: ID, r: Int!) on OBJECT\n\
         enum E { A B }\n\
         input In { x: Int! y: String = \"d\" z: [Int!] n: In }\n\
         scalar S\n\
         type Query @d(i: 1, s: \"s\", e: A, o: {x: 1, n: {x: 2}}, l: [1, 2], c: {any: [1]}, b: true, f: 1.5, id: \"id\", r: 1) { a: Int }",
    ),
    (
        "extensions",
        "extend type Query { b: Int }\n\
         type Query { a: Int }\n\
         extend type Query implements I @d\n\
         interface I { a: Int }\n\
         extend interface I { b: Int }\n\
         union U = Query\n\
         extend union U = T\n\
         type T { t: Int }\n\
         enum E { A }\n\
         extend enum E { B }\n\
         input In { x: Int }\n\
         extend input In { y: Int }\n\
         scalar S\n\
         extend scalar S @d\n\
         extend schema @d\n\
         directive @d on OBJECT | SCALAR | SCHEMA",
    ),
    (
        "defaults-builtins",
        "type Query { f(a: Int = 1, b: [String] = [\"x\"], c: In = {x: 1}, e: E = A): Int @deprecated old: Int @deprecated(reason: \"r\") }\n\
         input In { x: Int = 2 y: Float = 1 }\n\
         enum E { A @deprecated B }\n\
         scalar S @specifiedBy(url: \"u\")\n\
         directive @include(if: Boolean!) on FIELD",
    ),
    (
        "empty-definitions-filled-by-extensions",
        "type Query\n\
         extend type Query { a: Int }\n\
         interface I\n\
         extend interface I { i: Int }\n\
         union U\n\
         extend union U = Query\n\
         enum E\n\
         extend enum E { A }\n\
         input In\n\
         extend input In { x: Int }",
    ),
];

pub fn base_documents() -> Vec<(&'static str, Document)> {
    BASES.iter().map(|(n, t)| (*n, refmodel::sdl::must(t))).collect()
}

// ---------------------------------------------------------------------------------
// Alphabet filter
// ---------------------------------------------------------------------------------

const DEFAULT_ROOT_NAMES: [(OpKind, &str); 3] =
    [(OpKind::Query, "Query"), (OpKind::Mutation, "Mutation"), (OpKind::Subscription, "Subscription")];

fn value_has_duplicate_fields(v: &Value) -> bool {
    let mut issues = Vec::new();
    values::duplicate_input_fields(v, "", &mut issues);
    !issues.is_empty()
}

/// Directive `start` reaches itself through the directives applied to its own arguments and
/// through the types of those arguments (over-approximated: every directive applied anywhere
/// inside a reachable type counts).
fn push_args<'a>(args: &'a [InputValueDef], dirs: &mut Vec<&'a str>, types: &mut Vec<&'a str>) {
    for a in args {
        types.push(a.ty.inner_name());
        for d in &a.directives {
            dirs.push(&d.name);
        }
    }
}

fn directive_reaches_itself(m: &Merged, start: &DirectiveDef) -> bool {
    let mut seen_dirs: BTreeSet<&str> = BTreeSet::new();
    let mut seen_types: BTreeSet<&str> = BTreeSet::new();
    let mut todo_dirs: Vec<&str> = Vec::new();
    let mut todo_types: Vec<&str> = Vec::new();
    push_args(&start.args, &mut todo_dirs, &mut todo_types);
    loop {
        if let Some(d) = todo_dirs.pop() {
            if d == start.name {
                return true;
            }
            if seen_dirs.insert(d) {
                if let Some(def) = m.user_directive_definitions.iter().find(|x| x.name == d) {
                    push_args(&def.args, &mut todo_dirs, &mut todo_types);
                }
            }
            continue;
        }
        if let Some(t) = todo_types.pop() {
            if seen_types.insert(t) {
                if let Some(ty) = m.get(t) {
                    for d in &ty.directives {
                        todo_dirs.push(&d.name);
                    }
                    for f in &ty.fields {
                        for d in &f.directives {
                            todo_dirs.push(&d.name);
                        }
                        push_args(&f.args, &mut todo_dirs, &mut todo_types);
                    }
                    for x in &ty.values {
                        for d in &x.directives {
                            todo_dirs.push(&d.name);
                        }
                    }
                    push_args(&ty.input_fields, &mut todo_dirs, &mut todo_types);
                }
            }
            continue;
        }
        return false;
    }
}

/// `Some(reason)` if the document is outside the alphabet of C14/C15.
pub fn excluded(doc: &Document) -> Option<&'static str> {
    // --- syntax (C05's business): productions with a `+` list printed empty
    for d in &doc.defs {
        match d {
            Definition::Type(t) if t.extend => {
                let has_body = match t.kind {
                    TypeKind::Scalar => false,
                    TypeKind::Object | TypeKind::Interface => !t.fields.is_empty() || !t.implements.is_empty(),
                    TypeKind::Union => !t.members.is_empty(),
                    TypeKind::Enum => !t.values.is_empty(),
                    TypeKind::Input => !t.input_fields.is_empty(),
                };
                if !has_body && t.directives.is_empty() {
                    return Some("syntax:empty-extension");
                }
            }
            Definition::Schema(s) => {
                if s.roots.is_empty() && (!s.extend || s.directives.is_empty()) {
                    return Some("syntax:schema-without-roots");
                }
            }
            Definition::Directive(dd) if dd.locations.is_empty() => return Some("syntax:directive-without-locations"),
            _ => {}
        }
    }
    // --- executable definitions: the spec lets a tool "choose to only allow TypeSystemDocument";
    // graphql-js's buildSchema ignores operations and fragments, apollo reports them
    if doc.defs.iter().any(|d| matches!(d, Definition::Operation(_) | Definition::Fragment(_))) {
        return Some("executable-definition-in-schema-document");
    }
    // --- built-in scalars / introspection types redefined, extended or referenced by name
    let introspection = |n: &str| typesys::INTROSPECTION_TYPES.iter().any(|(x, _)| *x == n);
    for t in doc.types() {
        if typesys::BUILTIN_SCALARS.contains(&t.name.as_str()) || introspection(&t.name) {
            return Some("built-in-type-redefined-or-extended");
        }
        let refs = t
            .fields
            .iter()
            .flat_map(|f| std::iter::once(f.ty.inner_name()).chain(f.args.iter().map(|a| a.ty.inner_name())))
            .chain(t.input_fields.iter().map(|f| f.ty.inner_name()))
            .chain(t.members.iter().map(|s| s.as_str()))
            .chain(t.implements.iter().map(|s| s.as_str()));
        for r in refs {
            if introspection(r) {
                return Some("introspection-type-referenced");
            }
        }
    }
    let p = typesys::Params::apollo_documented();
    let m = typesys::merge(doc, &p);
    for r in &m.roots {
        if introspection(&r.name) {
            return Some("introspection-type-referenced");
        }
    }
    for d in &m.user_directive_definitions {
        if d.args.iter().any(|a| introspection(a.ty.inner_name())) {
            return Some("introspection-type-referenced");
        }
    }
    // --- implicit schema: the spec does not say what a non-object type with a default root name
    // means; graphql-js takes it as the root (and rejects), apollo ignores it
    let has_schema_def = m.schema_definitions > 0;
    if !has_schema_def {
        for (_, n) in &DEFAULT_ROOT_NAMES[1..] {
            if m.get(n).is_some_and(|t| t.kind != TypeKind::Object) {
                return Some("implicit-root-name-on-non-object");
            }
        }
        if m.schema_extensions > 0 {
            let any_implicit = DEFAULT_ROOT_NAMES.iter().any(|(_, n)| m.get(n).is_some_and(|t| t.kind == TypeKind::Object));
            if !any_implicit {
                // spec: "the schema must already be defined"; graphql-js builds it from the extension
                return Some("schema-extension-without-any-schema");
            }
            for d in &doc.defs {
                if let Definition::Schema(s) = d {
                    for (op, _) in &s.roots {
                        if m.get(typesys::default_root_name(*op)).is_some() {
                            // graphql-js silently prefers the default-named type, apollo reports a duplicate
                            return Some("schema-extension-overrides-implicit-root");
                        }
                    }
                }
            }
        }
    }
    // --- default values
    for (_, iv) in typesys::input_value_definitions(&m) {
        if let Some(d) = &iv.default {
            if value_has_duplicate_fields(d) {
                return Some("duplicate-field-in-default-value");
            }
            if iv.ty.is_non_null() && !values::check_value(&m, &iv.ty, d, values::ValueParams::default()).is_empty() {
                // "required" depends on whether the invalid default counts as a default
                return Some("invalid-default-on-non-null");
            }
        }
        // --- @deprecated on arguments / input fields: not an allowed location in the October 2021
        // text, allowed by graphql-js v16 (= apollo's built-in definition) unless the argument is
        // required
        if iv.directives.iter().any(|d| d.name == "deprecated") {
            return Some("deprecated-on-argument-or-input-field");
        }
    }
    // --- directive definitions that reference themselves (spec forbids, graphql-js does not check)
    for d in &m.user_directive_definitions {
        if directive_reaches_itself(&m, d) {
            return Some("self-referential-directive-definition");
        }
    }
    // --- literal shapes on which the coercion table and graphql-js differ
    for s in typesys::directive_sites(&m) {
        for d in s.directives {
            if let Some(def) = m.directive(&d.name) {
                for (k, val) in &d.args {
                    if let Some(a) = def.args.iter().find(|a| &a.name == k) {
                        if values::unpinned_shape(&m, &a.ty, val) {
                            return Some("unpinned-literal-shape");
                        }
                    }
                }
            }
        }
    }
    None
}

// ---------------------------------------------------------------------------------
// Sites
// ---------------------------------------------------------------------------------

fn tdef(doc: &Document, i: usize) -> Option<&TypeDef> {
    match &doc.defs[i] {
        Definition::Type(t) => Some(t),
        _ => None,
    }
}
fn tdef_mut(doc: &mut Document, i: usize) -> &mut TypeDef {
    match &mut doc.defs[i] {
        Definition::Type(t) => t,
        _ => unreachable!("site index is a type definition"),
    }
}
fn ddef(doc: &Document, i: usize) -> Option<&DirectiveDef> {
    match &doc.defs[i] {
        Definition::Directive(t) => Some(t),
        _ => None,
    }
}
fn ddef_mut(doc: &mut Document, i: usize) -> &mut DirectiveDef {
    match &mut doc.defs[i] {
        Definition::Directive(t) => t,
        _ => unreachable!("site index is a directive definition"),
    }
}
fn sdef_mut(doc: &mut Document, i: usize) -> &mut SchemaDef {
    match &mut doc.defs[i] {
        Definition::Schema(t) => t,
        _ => unreachable!("site index is a schema definition"),
    }
}

/// names of the types the document defines (first definition order), extensions not counted
fn defined_types(doc: &Document) -> Vec<(String, TypeKind)> {
    let mut v: Vec<(String, TypeKind)> = Vec::new();
    for t in doc.types() {
        if !t.extend && !v.iter().any(|(n, _)| *n == t.name) {
            v.push((t.name.clone(), t.kind));
        }
    }
    v
}

/// An input value definition: field argument, input field, directive-definition argument.
#[derive(Clone, Copy, Debug)]
enum IvSite {
    Arg(usize, usize, usize),
    InputField(usize, usize),
    DirArg(usize, usize),
}

fn iv_sites(doc: &Document) -> Vec<IvSite> {
    let mut s = Vec::new();
    for (i, d) in doc.defs.iter().enumerate() {
        match d {
            Definition::Type(t) => {
                for (fi, f) in t.fields.iter().enumerate() {
                    for ai in 0..f.args.len() {
                        s.push(IvSite::Arg(i, fi, ai));
                    }
                }
                for fi in 0..t.input_fields.len() {
                    s.push(IvSite::InputField(i, fi));
                }
            }
            Definition::Directive(dd) => {
                for ai in 0..dd.args.len() {
                    s.push(IvSite::DirArg(i, ai));
                }
            }
            _ => {}
        }
    }
    s
}
fn iv_mut(doc: &mut Document, s: IvSite) -> &mut InputValueDef {
    match s {
        IvSite::Arg(i, f, a) => &mut tdef_mut(doc, i).fields[f].args[a],
        IvSite::InputField(i, f) => &mut tdef_mut(doc, i).input_fields[f],
        IvSite::DirArg(i, a) => &mut ddef_mut(doc, i).args[a],
    }
}
fn iv_ref(doc: &Document, s: IvSite) -> &InputValueDef {
    match s {
        IvSite::Arg(i, f, a) => &tdef(doc, i).unwrap().fields[f].args[a],
        IvSite::InputField(i, f) => &tdef(doc, i).unwrap().input_fields[f],
        IvSite::DirArg(i, a) => &ddef(doc, i).unwrap().args[a],
    }
}

/// A type reference.
#[derive(Clone, Copy, Debug)]
enum TySite {
    Field(usize, usize),
    Iv(IvSite),
}
fn ty_sites(doc: &Document) -> Vec<TySite> {
    let mut s = Vec::new();
    for (i, d) in doc.defs.iter().enumerate() {
        if let Definition::Type(t) = d {
            for fi in 0..t.fields.len() {
                s.push(TySite::Field(i, fi));
            }
        }
    }
    s.extend(iv_sites(doc).into_iter().map(TySite::Iv));
    s
}
fn ty_mut(doc: &mut Document, s: TySite) -> &mut Ty {
    match s {
        TySite::Field(i, f) => &mut tdef_mut(doc, i).fields[f].ty,
        TySite::Iv(iv) => &mut iv_mut(doc, iv).ty,
    }
}
fn ty_ref(doc: &Document, s: TySite) -> &Ty {
    match s {
        TySite::Field(i, f) => &tdef(doc, i).unwrap().fields[f].ty,
        TySite::Iv(iv) => &iv_ref(doc, iv).ty,
    }
}

/// A list of applied directives.
#[derive(Clone, Copy, Debug)]
enum DSite {
    Schema(usize),
    Type(usize),
    Field(usize, usize),
    EnumValue(usize, usize),
    Iv(IvSite),
}
fn d_sites(doc: &Document) -> Vec<DSite> {
    let mut s = Vec::new();
    for (i, d) in doc.defs.iter().enumerate() {
        match d {
            Definition::Schema(_) => s.push(DSite::Schema(i)),
            Definition::Type(t) => {
                s.push(DSite::Type(i));
                for fi in 0..t.fields.len() {
                    s.push(DSite::Field(i, fi));
                }
                for vi in 0..t.values.len() {
                    s.push(DSite::EnumValue(i, vi));
                }
            }
            _ => {}
        }
    }
    s.extend(iv_sites(doc).into_iter().map(DSite::Iv));
    s
}
fn d_mut(doc: &mut Document, s: DSite) -> &mut Vec<Directive> {
    match s {
        DSite::Schema(i) => &mut sdef_mut(doc, i).directives,
        DSite::Type(i) => &mut tdef_mut(doc, i).directives,
        DSite::Field(i, f) => &mut tdef_mut(doc, i).fields[f].directives,
        DSite::EnumValue(i, v) => &mut tdef_mut(doc, i).values[v].directives,
        DSite::Iv(iv) => &mut iv_mut(doc, iv).directives,
    }
}
fn d_ref(doc: &Document, s: DSite) -> &Vec<Directive> {
    let schema = |i: usize| match &doc.defs[i] {
        Definition::Schema(t) => t,
        _ => unreachable!("site index is a schema definition"),
    };
    match s {
        DSite::Schema(i) => &schema(i).directives,
        DSite::Type(i) => &tdef(doc, i).unwrap().directives,
        DSite::Field(i, f) => &tdef(doc, i).unwrap().fields[f].directives,
        DSite::EnumValue(i, v) => &tdef(doc, i).unwrap().values[v].directives,
        DSite::Iv(iv) => &iv_ref(doc, iv).directives,
    }
}

fn with_inner(ty: &Ty, name: &str) -> Ty {
    match ty {
        Ty::Named(_) => Ty::named(name),
        Ty::List(t) => Ty::List(Box::new(with_inner(t, name))),
        Ty::NonNull(t) => Ty::NonNull(Box::new(with_inner(t, name))),
    }
}

fn rename_type_everywhere(doc: &mut Document, from: &str, to: &str) {
    let fix = |n: &mut String| {
        if n == from {
            *n = to.to_string();
        }
    };
    let fix_ty = |t: &mut Ty| {
        if t.inner_name() == from {
            *t = with_inner(t, to);
        }
    };
    for d in &mut doc.defs {
        match d {
            Definition::Type(t) => {
                fix(&mut t.name);
                t.implements.iter_mut().for_each(fix);
                t.members.iter_mut().for_each(fix);
                for f in &mut t.fields {
                    fix_ty(&mut f.ty);
                    for a in &mut f.args {
                        fix_ty(&mut a.ty);
                    }
                }
                for f in &mut t.input_fields {
                    fix_ty(&mut f.ty);
                }
            }
            Definition::Schema(s) => s.roots.iter_mut().for_each(|(_, n)| fix(n)),
            Definition::Directive(dd) => {
                for a in &mut dd.args {
                    fix_ty(&mut a.ty);
                }
            }
            _ => {}
        }
    }
}

fn for_each_directive_list(doc: &mut Document, mut f: impl FnMut(&mut Vec<Directive>)) {
    for s in d_sites(doc) {
        f(d_mut(doc, s));
    }
}

// ---------------------------------------------------------------------------------
// Mutation operators
// ---------------------------------------------------------------------------------

pub struct Op {
    pub name: &'static str,
    /// false: applied at k = 1 only (very productive operators)
    pub compose: bool,
    pub apply: fn(&Document, &Ctx, &mut Vec<Document>),
}

pub struct Ctx {
    pub tier: Tier,
}

const UNDEFINED: &str = "Undefined";

fn push_with(doc: &Document, out: &mut Vec<Document>, f: impl FnOnce(&mut Document)) {
    let mut c = doc.clone();
    f(&mut c);
    out.push(c);
}

fn op_drop_query_root(doc: &Document, _: &Ctx, out: &mut Vec<Document>) {
    let mut explicit = false;
    for (i, d) in doc.defs.iter().enumerate() {
        if let Definition::Schema(s) = d {
            explicit |= !s.extend;
            for (ri, (op, _)) in s.roots.iter().enumerate() {
                if *op == OpKind::Query {
                    push_with(doc, out, |c| {
                        sdef_mut(c, i).roots.remove(ri);
                    });
                }
            }
        }
    }
    if !explicit && defined_types(doc).iter().any(|(n, _)| n == "Query") {
        push_with(doc, out, |c| rename_type_everywhere(c, "Query", "Q0"));
    }
}

fn op_retarget_root(doc: &Document, _: &Ctx, out: &mut Vec<Document>) {
    let mut names: Vec<String> = defined_types(doc).into_iter().map(|(n, _)| n).collect();
    names.push(UNDEFINED.into());
    names.push("Int".into());
    for (i, d) in doc.defs.iter().enumerate() {
        if let Definition::Schema(s) = d {
            for ri in 0..s.roots.len() {
                for n in &names {
                    if *n != s.roots[ri].1 {
                        push_with(doc, out, |c| sdef_mut(c, i).roots[ri].1 = n.clone());
                    }
                }
            }
        }
    }
}

fn op_dup_root_entry(doc: &Document, _: &Ctx, out: &mut Vec<Document>) {
    for (i, d) in doc.defs.iter().enumerate() {
        if let Definition::Schema(s) = d {
            for ri in 0..s.roots.len() {
                push_with(doc, out, |c| {
                    let e = sdef_mut(c, i).roots[ri].clone();
                    sdef_mut(c, i).roots.push(e);
                });
            }
        }
    }
}

fn op_add_root_in_extension(doc: &Document, _: &Ctx, out: &mut Vec<Document>) {
    for (n, k) in defined_types(doc) {
        if k != TypeKind::Object {
            continue;
        }
        for op in [OpKind::Query, OpKind::Mutation, OpKind::Subscription] {
            push_with(doc, out, |c| {
                c.defs.push(Definition::Schema(SchemaDef {
                    extend: true,
                    description: None,
                    directives: vec![],
                    roots: vec![(op, n.clone())],
                }))
            });
        }
    }
}

fn op_dup_schema_definition(doc: &Document, _: &Ctx, out: &mut Vec<Document>) {
    for d in &doc.defs {
        if let Definition::Schema(s) = d {
            if !s.extend {
                push_with(doc, out, |c| c.defs.push(d.clone()));
            }
        }
    }
}

fn op_add_schema_definition(doc: &Document, _: &Ctx, out: &mut Vec<Document>) {
    if doc.defs.iter().any(|d| matches!(d, Definition::Schema(s) if !s.extend)) {
        return;
    }
    for (n, _) in defined_types(doc) {
        for op in [OpKind::Query, OpKind::Mutation] {
            push_with(doc, out, |c| {
                c.defs.insert(
                    0,
                    Definition::Schema(SchemaDef { extend: false, description: None, directives: vec![], roots: vec![(op, n.clone())] }),
                )
            });
        }
    }
}

fn op_retarget_type_ref(doc: &Document, _: &Ctx, out: &mut Vec<Document>) {
    let mut names: Vec<String> = defined_types(doc).into_iter().map(|(n, _)| n).collect();
    names.push(UNDEFINED.into());
    names.extend(typesys::BUILTIN_SCALARS.iter().map(|s| s.to_string()));
    for s in ty_sites(doc) {
        let cur = ty_ref(doc, s).clone();
        for n in &names {
            if n != cur.inner_name() {
                push_with(doc, out, |c| *ty_mut(c, s) = with_inner(&cur, n));
            }
        }
    }
}

fn op_toggle_non_null(doc: &Document, _: &Ctx, out: &mut Vec<Document>) {
    for s in ty_sites(doc) {
        let cur = ty_ref(doc, s).clone();
        // outer
        let toggled = match &cur {
            Ty::NonNull(t) => (**t).clone(),
            t => t.clone().non_null(),
        };
        push_with(doc, out, |c| *ty_mut(c, s) = toggled);
        // item of a list
        if let Some(item) = cur.item() {
            let new_item = match item {
                Ty::NonNull(t) => (**t).clone(),
                t => t.clone().non_null(),
            };
            let mut new = Ty::List(Box::new(new_item));
            if cur.is_non_null() {
                new = new.non_null();
            }
            push_with(doc, out, |c| *ty_mut(c, s) = new);
        }
    }
}

fn op_wrap_unwrap_list(doc: &Document, _: &Ctx, out: &mut Vec<Document>) {
    for s in ty_sites(doc) {
        let cur = ty_ref(doc, s).clone();
        push_with(doc, out, |c| *ty_mut(c, s) = cur.clone().list());
        if let Some(item) = cur.item() {
            let item = item.clone();
            push_with(doc, out, |c| *ty_mut(c, s) = item);
        }
    }
}

fn op_clear_members(doc: &Document, _: &Ctx, out: &mut Vec<Document>) {
    for (i, d) in doc.defs.iter().enumerate() {
        if let Definition::Type(t) = d {
            let n = t.fields.len() + t.members.len() + t.values.len() + t.input_fields.len();
            if n > 0 {
                push_with(doc, out, |c| {
                    let t = tdef_mut(c, i);
                    t.fields.clear();
                    t.members.clear();
                    t.values.clear();
                    t.input_fields.clear();
                });
            }
        }
    }
}

fn op_remove_member(doc: &Document, _: &Ctx, out: &mut Vec<Document>) {
    for (i, d) in doc.defs.iter().enumerate() {
        if let Definition::Type(t) = d {
            for k in 0..t.fields.len() {
                push_with(doc, out, |c| {
                    tdef_mut(c, i).fields.remove(k);
                });
                for a in 0..t.fields[k].args.len() {
                    push_with(doc, out, |c| {
                        tdef_mut(c, i).fields[k].args.remove(a);
                    });
                }
            }
            for k in 0..t.members.len() {
                push_with(doc, out, |c| {
                    tdef_mut(c, i).members.remove(k);
                });
            }
            for k in 0..t.values.len() {
                push_with(doc, out, |c| {
                    tdef_mut(c, i).values.remove(k);
                });
            }
            for k in 0..t.input_fields.len() {
                push_with(doc, out, |c| {
                    tdef_mut(c, i).input_fields.remove(k);
                });
            }
            for k in 0..t.implements.len() {
                push_with(doc, out, |c| {
                    tdef_mut(c, i).implements.remove(k);
                });
            }
        }
        if let Definition::Directive(dd) = d {
            for a in 0..dd.args.len() {
                push_with(doc, out, |c| {
                    ddef_mut(c, i).args.remove(a);
                });
            }
        }
    }
}

fn op_retarget_union_member(doc: &Document, _: &Ctx, out: &mut Vec<Document>) {
    let mut names: Vec<String> = defined_types(doc).into_iter().map(|(n, _)| n).collect();
    names.push(UNDEFINED.into());
    names.push("Int".into());
    for (i, d) in doc.defs.iter().enumerate() {
        if let Definition::Type(t) = d {
            if t.kind != TypeKind::Union {
                continue;
            }
            for k in 0..t.members.len() {
                for n in &names {
                    if *n != t.members[k] {
                        push_with(doc, out, |c| tdef_mut(c, i).members[k] = n.clone());
                    }
                }
            }
            for n in &names {
                push_with(doc, out, |c| tdef_mut(c, i).members.push(n.clone()));
            }
        }
    }
}

fn op_dup_definition(doc: &Document, _: &Ctx, out: &mut Vec<Document>) {
    for d in &doc.defs {
        match d {
            Definition::Type(t) if !t.extend => push_with(doc, out, |c| c.defs.push(d.clone())),
            Definition::Directive(_) => push_with(doc, out, |c| c.defs.push(d.clone())),
            _ => {}
        }
    }
}

fn op_dup_member(doc: &Document, _: &Ctx, out: &mut Vec<Document>) {
    for (i, d) in doc.defs.iter().enumerate() {
        if let Definition::Type(t) = d {
            for k in 0..t.fields.len() {
                push_with(doc, out, |c| {
                    let f = tdef_mut(c, i).fields[k].clone();
                    tdef_mut(c, i).fields.push(f);
                });
                // the same field again in a new extension
                push_with(doc, out, |c| {
                    let mut e = TypeDef::new(t.kind, &t.name);
                    e.extend = true;
                    e.fields.push(t.fields[k].clone());
                    c.defs.push(Definition::Type(e));
                });
                for a in 0..t.fields[k].args.len() {
                    push_with(doc, out, |c| {
                        let x = tdef_mut(c, i).fields[k].args[a].clone();
                        tdef_mut(c, i).fields[k].args.push(x);
                    });
                }
            }
            for k in 0..t.values.len() {
                push_with(doc, out, |c| {
                    let x = tdef_mut(c, i).values[k].clone();
                    tdef_mut(c, i).values.push(x);
                });
                push_with(doc, out, |c| {
                    let mut e = TypeDef::new(t.kind, &t.name);
                    e.extend = true;
                    e.values.push(t.values[k].clone());
                    c.defs.push(Definition::Type(e));
                });
            }
            // the same interface / union member again: in the same definition, and in a new extension
            for k in 0..t.implements.len() {
                push_with(doc, out, |c| {
                    let x = tdef_mut(c, i).implements[k].clone();
                    tdef_mut(c, i).implements.push(x);
                });
                push_with(doc, out, |c| {
                    let mut e = TypeDef::new(t.kind, &t.name);
                    e.extend = true;
                    e.implements.push(t.implements[k].clone());
                    c.defs.push(Definition::Type(e));
                });
            }
            for k in 0..t.members.len() {
                push_with(doc, out, |c| {
                    let x = tdef_mut(c, i).members[k].clone();
                    tdef_mut(c, i).members.push(x);
                });
                push_with(doc, out, |c| {
                    let mut e = TypeDef::new(t.kind, &t.name);
                    e.extend = true;
                    e.members.push(t.members[k].clone());
                    c.defs.push(Definition::Type(e));
                });
            }
            for k in 0..t.input_fields.len() {
                push_with(doc, out, |c| {
                    let x = tdef_mut(c, i).input_fields[k].clone();
                    tdef_mut(c, i).input_fields.push(x);
                });
                push_with(doc, out, |c| {
                    let mut e = TypeDef::new(t.kind, &t.name);
                    e.extend = true;
                    e.input_fields.push(t.input_fields[k].clone());
                    c.defs.push(Definition::Type(e));
                });
            }
        }
        if let Definition::Directive(dd) = d {
            for a in 0..dd.args.len() {
                push_with(doc, out, |c| {
                    let x = ddef_mut(c, i).args[a].clone();
                    ddef_mut(c, i).args.push(x);
                });
            }
        }
    }
}

fn op_reserved_names(doc: &Document, _: &Ctx, out: &mut Vec<Document>) {
    for (n, _) in defined_types(doc) {
        push_with(doc, out, |c| rename_type_everywhere(c, &n, &format!("__{n}")));
    }
    for (i, d) in doc.defs.iter().enumerate() {
        match d {
            Definition::Type(t) => {
                for k in 0..t.fields.len() {
                    // rename the field in every type that has it, so that only the name rule fires
                    let fname = t.fields[k].name.clone();
                    push_with(doc, out, |c| {
                        for d in &mut c.defs {
                            if let Definition::Type(t) = d {
                                for f in &mut t.fields {
                                    if f.name == fname {
                                        f.name = format!("__{fname}");
                                    }
                                }
                            }
                        }
                    });
                    push_with(doc, out, |c| tdef_mut(c, i).fields[k].name = format!("__{fname}"));
                    for a in 0..t.fields[k].args.len() {
                        push_with(doc, out, |c| {
                            let x = &mut tdef_mut(c, i).fields[k].args[a].name;
                            *x = format!("__{x}");
                        });
                    }
                }
                for k in 0..t.values.len() {
                    push_with(doc, out, |c| {
                        let x = &mut tdef_mut(c, i).values[k].name;
                        *x = format!("__{x}");
                    });
                }
                for k in 0..t.input_fields.len() {
                    push_with(doc, out, |c| {
                        let x = &mut tdef_mut(c, i).input_fields[k].name;
                        *x = format!("__{x}");
                    });
                }
            }
            Definition::Directive(dd) => {
                let dn = dd.name.clone();
                push_with(doc, out, |c| {
                    ddef_mut(c, i).name = format!("__{dn}");
                    for_each_directive_list(c, |l| {
                        for d in l {
                            if d.name == dn {
                                d.name = format!("__{dn}");
                            }
                        }
                    });
                });
                for a in 0..dd.args.len() {
                    let an = dd.args[a].name.clone();
                    push_with(doc, out, |c| {
                        ddef_mut(c, i).args[a].name = format!("__{an}");
                        for_each_directive_list(c, |l| {
                            for d in l {
                                if d.name == dn {
                                    for (k, _) in &mut d.args {
                                        if *k == an {
                                            *k = format!("__{an}");
                                        }
                                    }
                                }
                            }
                        });
                    });
                }
            }
            _ => {}
        }
    }
}

fn op_add_implements(doc: &Document, _: &Ctx, out: &mut Vec<Document>) {
    let mut names: Vec<String> = defined_types(doc).into_iter().map(|(n, _)| n).collect();
    names.push(UNDEFINED.into());
    for (i, d) in doc.defs.iter().enumerate() {
        if let Definition::Type(t) = d {
            if matches!(t.kind, TypeKind::Object | TypeKind::Interface) {
                for n in &names {
                    push_with(doc, out, |c| tdef_mut(c, i).implements.push(n.clone()));
                }
            }
        }
    }
}

fn lattice(doc: &Document, tier: Tier) -> Vec<Ty> {
    let types = defined_types(doc);
    let mut names: Vec<String> = vec!["Int".into()];
    for k in [TypeKind::Object, TypeKind::Interface, TypeKind::Union] {
        // prefer a type that is not the root, so that sub-typing relations are non-trivial
        if let Some((n, _)) = types.iter().find(|(n, kk)| *kk == k && n != "Query").or(types.iter().find(|(_, kk)| *kk == k)) {
            names.push(n.clone());
        }
    }
    let mut wrappers: Vec<&str> = vec!["N", "N!", "[N]", "[N]!", "[N!]", "[N!]!", "[[N]]"];
    if tier == Tier::Thorough {
        wrappers.extend(["[[N]]!", "[[N]!]", "[[N!]]"]);
    }
    let mut out = Vec::new();
    for n in &names {
        for w in &wrappers {
            out.push(Ty::parse(&w.replace('N', n)));
        }
    }
    out
}

/// Every (implementing field type, interface field type) pair from the type lattice, at every
/// (type, implemented interface, common field) site.
fn op_implementation_type_pair(doc: &Document, ctx: &Ctx, out: &mut Vec<Document>) {
    let l = lattice(doc, ctx.tier);
    let p = typesys::Params::apollo_documented();
    let m = typesys::merge(doc, &p);
    let field_sites: Vec<(usize, usize)> = doc
        .defs
        .iter()
        .enumerate()
        .filter_map(|(i, d)| match d {
            Definition::Type(t) => Some((i, t)),
            _ => None,
        })
        .flat_map(|(i, t)| (0..t.fields.len()).map(move |f| (i, f)))
        .collect();
    for &(ti, tf) in &field_sites {
        let t = tdef(doc, ti).unwrap();
        let Some(mt) = m.get(&t.name) else { continue };
        for &(ii, if_) in &field_sites {
            let it = tdef(doc, ii).unwrap();
            if it.kind != TypeKind::Interface || it.name == t.name || !mt.implements.contains(&it.name) {
                continue;
            }
            if t.fields[tf].name != it.fields[if_].name {
                continue;
            }
            for a in &l {
                for b in &l {
                    push_with(doc, out, |c| {
                        tdef_mut(c, ti).fields[tf].ty = a.clone();
                        tdef_mut(c, ii).fields[if_].ty = b.clone();
                    });
                }
            }
        }
    }
}

fn new_args() -> Vec<InputValueDef> {
    let mut with_default = InputValueDef::new("zz", Ty::parse("Int!"));
    with_default.default = Some(Value::int(1));
    vec![InputValueDef::new("zz", Ty::parse("Int")), InputValueDef::new("zz", Ty::parse("Int!")), with_default]
}

fn op_add_argument(doc: &Document, _: &Ctx, out: &mut Vec<Document>) {
    for (i, d) in doc.defs.iter().enumerate() {
        match d {
            Definition::Type(t) => {
                for k in 0..t.fields.len() {
                    for a in new_args() {
                        push_with(doc, out, |c| tdef_mut(c, i).fields[k].args.push(a));
                    }
                }
            }
            Definition::Directive(_) => {
                for a in new_args() {
                    push_with(doc, out, |c| ddef_mut(c, i).args.push(a));
                }
            }
            _ => {}
        }
    }
}

fn op_add_field(doc: &Document, _: &Ctx, out: &mut Vec<Document>) {
    for (i, d) in doc.defs.iter().enumerate() {
        if let Definition::Type(t) = d {
            match t.kind {
                TypeKind::Object | TypeKind::Interface => {
                    push_with(doc, out, |c| tdef_mut(c, i).fields.push(FieldDef::new("zz", Ty::named("Int"))));
                    push_with(doc, out, |c| tdef_mut(c, i).fields.push(FieldDef::new("zz", Ty::named("Float"))));
                }
                TypeKind::Input => {
                    push_with(doc, out, |c| tdef_mut(c, i).input_fields.push(InputValueDef::new("zz", Ty::named("ID"))));
                    push_with(doc, out, |c| tdef_mut(c, i).input_fields.push(InputValueDef::new("zz", Ty::parse("Int!"))));
                }
                TypeKind::Enum => push_with(doc, out, |c| {
                    tdef_mut(c, i).values.push(EnumValueDef { description: None, name: "ZZ".into(), directives: vec![] })
                }),
                _ => {}
            }
        }
    }
}

fn directive_names(doc: &Document) -> Vec<String> {
    let mut names: Vec<String> = Vec::new();
    for d in &doc.defs {
        if let Definition::Directive(dd) = d {
            if !names.contains(&dd.name) {
                names.push(dd.name.clone());
            }
        }
    }
    for b in ["deprecated", "skip", "specifiedBy"] {
        if !names.iter().any(|n| n == b) {
            names.push(b.to_string());
        }
    }
    names.push("undefined".into());
    names
}

fn op_add_directive_application(doc: &Document, _: &Ctx, out: &mut Vec<Document>) {
    let names = directive_names(doc);
    for s in d_sites(doc) {
        for n in &names {
            push_with(doc, out, |c| d_mut(c, s).push(Directive::new(n)));
        }
    }
}

fn op_dup_remove_directive_application(doc: &Document, _: &Ctx, out: &mut Vec<Document>) {
    for s in d_sites(doc) {
        for k in 0..d_ref(doc, s).len() {
            push_with(doc, out, |c| {
                let d = d_mut(c, s)[k].clone();
                d_mut(c, s).push(d);
            });
            push_with(doc, out, |c| {
                d_mut(c, s).remove(k);
            });
        }
    }
    // the same directive again on an extension of the type (one location with the definition)
    for d in &doc.defs {
        if let Definition::Type(t) = d {
            if !t.extend {
                for dir in &t.directives {
                    push_with(doc, out, |c| {
                        let mut e = TypeDef::new(t.kind, &t.name);
                        e.extend = true;
                        e.directives.push(dir.clone());
                        c.defs.push(Definition::Type(e));
                    });
                }
            }
        }
    }
}

pub fn value_menu() -> Vec<Value> {
    use Value as V;
    vec![
        V::Null,
        V::Bool(true),
        V::int(1),
        V::Int("2147483648".into()),
        V::Float("1.5".into()),
        V::str("s"),
        V::en("A"),
        V::en("Z"),
        V::List(vec![V::int(1)]),
        V::List(vec![V::int(1), V::Null]),
        V::List(vec![V::str("s")]),
        V::List(vec![V::List(vec![V::int(1)])]),
        V::obj(&[("x", V::int(1))]),
        V::obj(&[]),
        V::obj(&[("x", V::int(1)), ("q", V::int(2))]),
        V::obj(&[("x", V::str("s"))]),
        V::obj(&[("x", V::Null)]),
        V::obj(&[("x", V::int(1)), ("x", V::int(2))]),
        V::obj(&[("x", V::int(1)), ("x", V::str("s"))]),
        V::obj(&[("x", V::int(1)), ("n", V::obj(&[]))]),
        V::obj(&[("x", V::int(1)), ("z", V::List(vec![V::Null]))]),
        V::obj(&[("x", V::int(1)), ("z", V::int(3)), ("y", V::Null)]),
    ]
}

fn op_directive_arguments(doc: &Document, _: &Ctx, out: &mut Vec<Document>) {
    for s in d_sites(doc) {
        let list = d_ref(doc, s).clone();
        for (k, d) in list.iter().enumerate() {
            push_with(doc, out, |c| d_mut(c, s)[k].args.push(("zz".into(), Value::int(1))));
            for a in 0..d.args.len() {
                push_with(doc, out, |c| {
                    d_mut(c, s)[k].args.remove(a);
                });
                push_with(doc, out, |c| {
                    let x = d_mut(c, s)[k].args[a].clone();
                    d_mut(c, s)[k].args.push(x);
                });
            }
        }
    }
}

fn op_set_directive_argument_value(doc: &Document, _: &Ctx, out: &mut Vec<Document>) {
    let menu = value_menu();
    for s in d_sites(doc) {
        let list = d_ref(doc, s).clone();
        for (k, d) in list.iter().enumerate() {
            for a in 0..d.args.len() {
                for v in &menu {
                    if *v != d.args[a].1 {
                        push_with(doc, out, |c| d_mut(c, s)[k].args[a].1 = v.clone());
                    }
                }
            }
        }
    }
}

fn op_default_values(doc: &Document, _: &Ctx, out: &mut Vec<Document>) {
    use Value as V;
    let menu =
        [V::int(1), V::str("s"), V::Null, V::List(vec![V::int(1)]), V::obj(&[("x", V::int(1))]), V::en("A"), V::Bool(true)];
    for s in iv_sites(doc) {
        let cur = iv_ref(doc, s).default.clone();
        for v in &menu {
            if cur.as_ref() != Some(v) {
                push_with(doc, out, |c| iv_mut(c, s).default = Some(v.clone()));
            }
        }
        if cur.is_some() {
            push_with(doc, out, |c| iv_mut(c, s).default = None);
        }
    }
}

/// An input-object field that refers to an input object becomes non-null AND gets a default value:
/// the cycle rule speaks of non-null links, whether or not they have a default ("required" and
/// "non-null" are different things).
fn op_non_null_input_link_with_default(doc: &Document, _: &Ctx, out: &mut Vec<Document>) {
    let inputs: Vec<String> =
        defined_types(doc).into_iter().filter(|(_, k)| *k == TypeKind::Input).map(|(n, _)| n).collect();
    for s in iv_sites(doc) {
        if !matches!(s, IvSite::InputField(..)) {
            continue;
        }
        let cur = iv_ref(doc, s).clone();
        let named = match &cur.ty {
            Ty::Named(n) => n.clone(),
            Ty::NonNull(inner) => match &**inner {
                Ty::Named(n) => n.clone(),
                _ => continue,
            },
            _ => continue,
        };
        if !inputs.contains(&named) {
            continue;
        }
        // a type-correct default (an invalid default on a non-null position is outside the alphabet)
        let Some(default) = minimal_input_value(doc, &named, 0) else { continue };
        push_with(doc, out, |c| {
            let iv = iv_mut(c, s);
            iv.ty = Ty::Named(named.clone()).non_null();
            iv.default = Some(default.clone());
        });
    }
}

/// The smallest literal of input object type `name`: every required field (non-null, no default)
/// gets a literal of its type; `None` if that needs more than three levels.
fn minimal_input_value(doc: &Document, name: &str, depth: usize) -> Option<Value> {
    if depth > 3 {
        return None;
    }
    let mut fields: Vec<(String, Value)> = Vec::new();
    for t in doc.types().filter(|t| t.kind == TypeKind::Input && t.name == name) {
        for f in &t.input_fields {
            if !f.ty.is_non_null() || f.default.is_some() {
                continue;
            }
            fields.push((f.name.clone(), minimal_value_of(doc, &f.ty, depth)?));
        }
    }
    let refs: Vec<(&str, Value)> = fields.iter().map(|(n, v)| (n.as_str(), v.clone())).collect();
    Some(Value::obj(&refs))
}

fn minimal_value_of(doc: &Document, ty: &Ty, depth: usize) -> Option<Value> {
    match ty {
        Ty::NonNull(inner) => minimal_value_of(doc, inner, depth),
        Ty::List(_) => Some(Value::List(vec![])),
        Ty::Named(n) => match n.as_str() {
            "Int" => Some(Value::int(1)),
            "Float" => Some(Value::int(1)),
            "String" | "ID" => Some(Value::str("s")),
            "Boolean" => Some(Value::Bool(true)),
            other => {
                let t = doc.types().find(|t| t.name == other && !t.extend)?;
                match t.kind {
                    TypeKind::Enum => t.values.first().map(|v| Value::en(&v.name)),
                    TypeKind::Input => minimal_input_value(doc, other, depth + 1),
                    TypeKind::Scalar => Some(Value::int(1)),
                    _ => None,
                }
            }
        },
    }
}

fn op_directive_definition(doc: &Document, _: &Ctx, out: &mut Vec<Document>) {
    for (i, d) in doc.defs.iter().enumerate() {
        if let Definition::Directive(dd) = d {
            push_with(doc, out, |c| ddef_mut(c, i).repeatable = !dd.repeatable);
            if dd.locations.len() > 1 {
                for l in 0..dd.locations.len() {
                    push_with(doc, out, |c| {
                        ddef_mut(c, i).locations.remove(l);
                    });
                }
            }
        }
    }
}

fn op_redefine_builtin_directive(doc: &Document, _: &Ctx, out: &mut Vec<Document>) {
    for b in typesys::builtin_directives() {
        push_with(doc, out, |c| c.defs.push(Definition::Directive(b.clone())));
        push_with(doc, out, |c| {
            c.defs.push(Definition::Directive(b.clone()));
            c.defs.push(Definition::Directive(b.clone()));
        });
    }
    // the built-in under another contract
    push_with(doc, out, |c| {
        c.defs.push(Definition::Directive(DirectiveDef {
            description: None,
            name: "deprecated".into(),
            args: vec![],
            repeatable: false,
            locations: vec!["OBJECT".into()],
        }))
    });
}

fn extension_of(name: &str, kind: TypeKind, doc: &Document) -> Option<TypeDef> {
    let mut e = TypeDef::new(kind, name);
    e.extend = true;
    match kind {
        TypeKind::Scalar => return None,
        TypeKind::Object | TypeKind::Interface => e.fields.push(FieldDef::new("zz", Ty::named("Int"))),
        TypeKind::Union => {
            let obj = defined_types(doc).into_iter().find(|(n, k)| *k == TypeKind::Object && n != name)?;
            e.members.push(obj.0);
        }
        TypeKind::Enum => e.values.push(EnumValueDef { description: None, name: "ZZ".into(), directives: vec![] }),
        TypeKind::Input => e.input_fields.push(InputValueDef::new("zz", Ty::named("Int"))),
    }
    Some(e)
}

const KINDS: [TypeKind; 6] =
    [TypeKind::Scalar, TypeKind::Object, TypeKind::Interface, TypeKind::Union, TypeKind::Enum, TypeKind::Input];

/// A new extension of each defined type, of each kind (the type's own kind: a legal extension;
/// another kind: kind mismatch), before everything or after everything; and of an undefined type.
fn op_add_extension(doc: &Document, _: &Ctx, out: &mut Vec<Document>) {
    let mut targets: Vec<String> = defined_types(doc).into_iter().map(|(n, _)| n).collect();
    targets.push(UNDEFINED.into());
    for n in &targets {
        for k in KINDS {
            if let Some(e) = extension_of(n, k, doc) {
                push_with(doc, out, |c| c.defs.insert(0, Definition::Type(e.clone())));
                push_with(doc, out, |c| c.defs.push(Definition::Type(e.clone())));
            }
        }
    }
}

/// Change the kind of an existing extension (object ↔ interface keeps the fields; otherwise the
/// extension is replaced by a minimal one of the other kind).
fn op_mismatch_extension(doc: &Document, _: &Ctx, out: &mut Vec<Document>) {
    for (i, d) in doc.defs.iter().enumerate() {
        if let Definition::Type(t) = d {
            if !t.extend {
                continue;
            }
            for k in KINDS {
                if k == t.kind {
                    continue;
                }
                let both_field_kinds = matches!(k, TypeKind::Object | TypeKind::Interface)
                    && matches!(t.kind, TypeKind::Object | TypeKind::Interface);
                if both_field_kinds {
                    push_with(doc, out, |c| tdef_mut(c, i).kind = k);
                } else if let Some(e) = extension_of(&t.name, k, doc) {
                    push_with(doc, out, |c| c.defs[i] = Definition::Type(e));
                }
            }
        }
    }
}

fn op_move_definition(doc: &Document, _: &Ctx, out: &mut Vec<Document>) {
    for i in 0..doc.defs.len() {
        if i > 0 {
            push_with(doc, out, |c| {
                let d = c.defs.remove(i);
                c.defs.insert(0, d);
            });
        }
        if i + 1 < doc.defs.len() {
            push_with(doc, out, |c| {
                let d = c.defs.remove(i);
                c.defs.push(d);
            });
        }
    }
}

fn op_swap_kind(doc: &Document, _: &Ctx, out: &mut Vec<Document>) {
    for (i, d) in doc.defs.iter().enumerate() {
        if let Definition::Type(t) = d {
            let new = match t.kind {
                TypeKind::Object => TypeKind::Interface,
                TypeKind::Interface => TypeKind::Object,
                _ => continue,
            };
            // the definition alone, and the definition together with all its extensions
            push_with(doc, out, |c| tdef_mut(c, i).kind = new);
            if !t.extend {
                push_with(doc, out, |c| {
                    for d in &mut c.defs {
                        if let Definition::Type(x) = d {
                            if x.name == t.name && x.kind == t.kind {
                                x.kind = new;
                            }
                        }
                    }
                });
            }
        }
    }
}

fn op_remove_definition(doc: &Document, _: &Ctx, out: &mut Vec<Document>) {
    for i in 0..doc.defs.len() {
        push_with(doc, out, |c| {
            c.defs.remove(i);
        });
    }
}

fn op_add_executable_definition(doc: &Document, _: &Ctx, out: &mut Vec<Document>) {
    let mut short = Operation::query(vec![Selection::field("a")]);
    short.shorthand = true;
    let mut named = Operation::query(vec![Selection::field("a")]);
    named.name = Some("Q".into());
    let frag = Fragment { name: "F".into(), on: "Query".into(), directives: vec![], selection: vec![Selection::field("a")] };
    push_with(doc, out, |c| c.defs.push(Definition::Operation(short)));
    push_with(doc, out, |c| c.defs.insert(0, Definition::Operation(named)));
    push_with(doc, out, |c| c.defs.push(Definition::Fragment(frag)));
}

fn op_add_schema_extension_directive(doc: &Document, _: &Ctx, out: &mut Vec<Document>) {
    for n in directive_names(doc) {
        push_with(doc, out, |c| {
            c.defs.push(Definition::Schema(SchemaDef {
                extend: true,
                description: None,
                directives: vec![Directive::new(&n)],
                roots: vec![],
            }))
        });
    }
}

pub const OPS: &[Op] = &[
    Op { name: "drop-query-root", compose: true, apply: op_drop_query_root },
    Op { name: "retarget-root", compose: true, apply: op_retarget_root },
    Op { name: "dup-root-entry", compose: true, apply: op_dup_root_entry },
    Op { name: "add-root-in-extension", compose: true, apply: op_add_root_in_extension },
    Op { name: "dup-schema-definition", compose: true, apply: op_dup_schema_definition },
    Op { name: "add-schema-definition", compose: true, apply: op_add_schema_definition },
    Op { name: "retarget-type-ref", compose: true, apply: op_retarget_type_ref },
    Op { name: "toggle-non-null", compose: true, apply: op_toggle_non_null },
    Op { name: "wrap-unwrap-list", compose: true, apply: op_wrap_unwrap_list },
    Op { name: "clear-members", compose: true, apply: op_clear_members },
    Op { name: "remove-member", compose: true, apply: op_remove_member },
    Op { name: "retarget-union-member", compose: true, apply: op_retarget_union_member },
    Op { name: "dup-definition", compose: true, apply: op_dup_definition },
    Op { name: "dup-member", compose: true, apply: op_dup_member },
    Op { name: "reserved-names", compose: true, apply: op_reserved_names },
    Op { name: "add-implements", compose: true, apply: op_add_implements },
    Op { name: "implementation-type-pair", compose: false, apply: op_implementation_type_pair },
    Op { name: "add-argument", compose: true, apply: op_add_argument },
    Op { name: "add-field", compose: true, apply: op_add_field },
    Op { name: "add-directive-application", compose: true, apply: op_add_directive_application },
    Op { name: "dup-remove-directive-application", compose: true, apply: op_dup_remove_directive_application },
    Op { name: "directive-arguments", compose: true, apply: op_directive_arguments },
    Op { name: "set-directive-argument-value", compose: true, apply: op_set_directive_argument_value },
    Op { name: "default-values", compose: true, apply: op_default_values },
    Op { name: "non-null-input-link-with-default", compose: true, apply: op_non_null_input_link_with_default },
    Op { name: "directive-definition", compose: true, apply: op_directive_definition },
    Op { name: "redefine-builtin-directive", compose: true, apply: op_redefine_builtin_directive },
    Op { name: "add-extension", compose: true, apply: op_add_extension },
    Op { name: "mismatch-extension", compose: true, apply: op_mismatch_extension },
    Op { name: "move-definition", compose: true, apply: op_move_definition },
    Op { name: "swap-kind", compose: true, apply: op_swap_kind },
    Op { name: "remove-definition", compose: true, apply: op_remove_definition },
    Op { name: "add-executable-definition", compose: true, apply: op_add_executable_definition },
    Op { name: "add-schema-extension-directive", compose: true, apply: op_add_schema_extension_directive },
];

/// All one-step mutants of `doc`: (operator index, mutant), in operator then site order.
/// `composing`: skip operators that are k = 1 only.
pub fn mutants(doc: &Document, ctx: &Ctx, composing: bool) -> Vec<(u16, Document)> {
    let mut all = Vec::new();
    let mut buf = Vec::new();
    for (oi, op) in OPS.iter().enumerate() {
        if composing && !op.compose {
            continue;
        }
        buf.clear();
        (op.apply)(doc, ctx, &mut buf);
        for m in buf.drain(..) {
            if m != *doc {
                all.push((oi as u16, m));
            }
        }
    }
    all
}

// ---------------------------------------------------------------------------------
// Tiny-scope exhaustive space
// ---------------------------------------------------------------------------------

const TINY_TYPES: [&str; 5] = ["Int", "A", "B", "[A]", "A!"];

/// All shapes of the type named `name` (None = the type is absent).
fn tiny_type_options(name: &str, small: bool, may_be_absent: bool) -> Vec<Option<TypeDef>> {
    let mut out: Vec<Option<TypeDef>> = Vec::new();
    if may_be_absent {
        out.push(None);
    }
    let tys: Vec<Ty> = TINY_TYPES.iter().map(|t| Ty::parse(t)).collect();
    // field lists: none, {a}, {a, b}; `a` may take one argument
    let mut field_lists: Vec<Vec<FieldDef>> = vec![vec![]];
    let arg_options: Vec<Option<Ty>> =
        if small { vec![None] } else { vec![None, Some(Ty::parse("Int")), Some(Ty::parse("A!"))] };
    for ta in &tys {
        for arg in &arg_options {
            let mut a = FieldDef::new("a", ta.clone());
            if let Some(at) = arg {
                a.args.push(InputValueDef::new("x", at.clone()));
            }
            field_lists.push(vec![a.clone()]);
            if !small {
                for tb in &tys {
                    field_lists.push(vec![a.clone(), FieldDef::new("b", tb.clone())]);
                }
            }
        }
    }
    let implements: [&[&str]; 4] = [&[], &["A"], &["B"], &["A", "B"]];
    let kinds: &[TypeKind] = if small {
        &[TypeKind::Object]
    } else {
        &[TypeKind::Object, TypeKind::Interface, TypeKind::Union, TypeKind::Input, TypeKind::Enum]
    };
    for &k in kinds {
        match k {
            TypeKind::Object | TypeKind::Interface => {
                for fl in &field_lists {
                    for im in implements {
                        let mut t = TypeDef::new(k, name);
                        t.fields = fl.clone();
                        t.implements = im.iter().map(|s| s.to_string()).collect();
                        out.push(Some(t));
                    }
                }
            }
            TypeKind::Union => {
                for mask in 0..8u32 {
                    let mut t = TypeDef::new(k, name);
                    for (bit, n) in ["Query", "A", "B"].iter().enumerate() {
                        if mask & (1 << bit) != 0 {
                            t.members.push(n.to_string());
                        }
                    }
                    out.push(Some(t));
                }
            }
            TypeKind::Input => {
                let mut lists: Vec<Vec<InputValueDef>> = vec![vec![]];
                for ta in &tys {
                    lists.push(vec![InputValueDef::new("a", ta.clone())]);
                    for tb in &tys {
                        lists.push(vec![InputValueDef::new("a", ta.clone()), InputValueDef::new("b", tb.clone())]);
                    }
                }
                for l in lists {
                    let mut t = TypeDef::new(k, name);
                    t.input_fields = l;
                    out.push(Some(t));
                }
            }
            TypeKind::Enum => {
                out.push(Some(TypeDef::new(k, name)));
                let mut t = TypeDef::new(k, name);
                t.values.push(EnumValueDef { description: None, name: "V".into(), directives: vec![] });
                out.push(Some(t));
            }
            TypeKind::Scalar => {}
        }
    }
    out
}

pub struct TinySpace {
    pub query: Vec<Option<TypeDef>>,
    pub a: Vec<Option<TypeDef>>,
    pub b: Vec<Option<TypeDef>>,
}

impl TinySpace {
    pub fn new() -> TinySpace {
        TinySpace {
            query: tiny_type_options("Query", true, false),
            a: tiny_type_options("A", false, false),
            b: tiny_type_options("B", false, true),
        }
    }
    pub fn total(&self) -> u64 {
        (self.query.len() * self.a.len() * self.b.len()) as u64
    }
    pub fn nth(&self, idx: u64) -> Document {
        let nb = self.b.len() as u64;
        let na = self.a.len() as u64;
        let b = &self.b[(idx % nb) as usize];
        let a = &self.a[((idx / nb) % na) as usize];
        let q = &self.query[(idx / nb / na) as usize];
        Document { defs: [q, a, b].into_iter().flatten().map(|t| Definition::Type(t.clone())).collect() }
    }
}

impl Default for TinySpace {
    fn default() -> Self {
        Self::new()
    }
}

// ---------------------------------------------------------------------------------
// The sweep driver
// ---------------------------------------------------------------------------------

pub struct Case<'a> {
    /// `mutation` or `tiny-scope`
    pub space: &'static str,
    /// base name and operator path, or the tiny-scope index
    pub origin: String,
    pub doc: &'a Document,
    pub text: &'a str,
}

fn fnv(s: &str) -> u64 {
    let mut h: u64 = 0xcbf29ce484222325;
    for b in s.bytes() {
        h ^= b as u64;
        h = h.wrapping_mul(0x100000001b3);
    }
    // second mixing round so that 64 bits are well spread
    h ^ (h >> 29)
}

/// Run `f` on every in-alphabet schema of the tier's spaces; returns the statistics and the
/// bounds description. Cases excluded by the alphabet filter are counted per reason.
pub fn sweep<F>(tier: Tier, f: F) -> (Stats, serde_json::Value)
where
    F: Fn(&Case<'_>, &mut Stats) + Sync,
{
    let ctx = Ctx { tier };
    let bases = base_documents();
    let mut total = Stats::default();
    let run = |space: &'static str, origin: String, doc: &Document, st: &mut Stats| {
        // (the tiny-scope alphabet has no directives, default values, schema definitions or
        // extensions: nothing in it can be an excluded shape — unit-tested below)
        if space != "tiny-scope" {
            if let Some(reason) = excluded(doc) {
                st.count(&format!("excluded:{reason}"), 1);
                return;
            }
        }
        let text = doc.print();
        f(&Case { space, origin, doc, text: &text }, st);
    };
    // --- k = 0 and k = 1
    let mut level1: Vec<(usize, u16, Document)> = Vec::new();
    let mut seen: HashSet<u64> = HashSet::new();
    let mut st0 = Stats::default();
    for (bi, (name, doc)) in bases.iter().enumerate() {
        seen.insert(fnv(&doc.print()));
        run("mutation", format!("{name}"), doc, &mut st0);
        for (oi, m) in mutants(doc, &ctx, false) {
            level1.push((bi, oi, m));
        }
    }
    total = total.merge(st0);
    // global de-duplication by text, first occurrence wins (deterministic: sequential, in order)
    let level1: Vec<(usize, u16, Document)> =
        level1.into_iter().filter(|(_, _, m)| seen.insert(fnv(&m.print()))).collect();
    let s1 = vcore::par_items(&level1, |(bi, oi, m), st| {
        st.count(&format!("op:{}", OPS[*oi as usize].name), 1);
        run("mutation", format!("{} / {}", bases[*bi].0, OPS[*oi as usize].name), m, st);
    });
    total = total.merge(s1);
    let n1 = level1.len();
    let mut n2 = 0usize;
    // --- k = 2
    if tier == Tier::Thorough {
        use rayon::prelude::*;
        // phase A: hashes of every 2-mutant, in generation order
        // (mutants made by a k = 1-only operator are not mutated further)
        let second = |oi: u16, m1: &Document| -> Vec<(u16, Document)> {
            if OPS[oi as usize].compose {
                mutants(m1, &ctx, true)
            } else {
                Vec::new()
            }
        };
        let hashes: Vec<Vec<u64>> = level1
            .par_iter()
            .map(|(_, oi, m1)| second(*oi, m1).iter().map(|(_, m2)| fnv(&m2.print())).collect())
            .collect();
        // first occurrence masks
        let masks: Vec<Vec<bool>> = hashes.iter().map(|hs| hs.iter().map(|h| seen.insert(*h)).collect()).collect();
        n2 = masks.iter().map(|m| m.iter().filter(|b| **b).count()).sum();
        drop(hashes);
        let items: Vec<(usize, &(usize, u16, Document))> = level1.iter().enumerate().collect();
        let s2 = vcore::par_items(&items, |(idx, (bi, oi, m1)), st| {
            for (j, (oj, m2)) in second(*oi, m1).into_iter().enumerate() {
                if masks[*idx][j] {
                    run(
                        "mutation",
                        format!("{} / {} / {}", bases[*bi].0, OPS[*oi as usize].name, OPS[oj as usize].name),
                        &m2,
                        st,
                    );
                }
            }
        });
        total = total.merge(s2);
    }
    // --- tiny scope
    let mut tiny_total = 0;
    if tier == Tier::Thorough {
        let space = TinySpace::new();
        tiny_total = space.total();
        let s3 = vcore::par_sweep(tiny_total, 4096, |i, st| {
            let doc = space.nth(i);
            run("tiny-scope", format!("tiny #{i}"), &doc, st);
        });
        total = total.merge(s3);
    }
    let bounds = json!({
        "base_schemas": BASES.iter().map(|(n, _)| *n).collect::<Vec<_>>(),
        "operators": OPS.iter().map(|o| o.name).collect::<Vec<_>>(),
        "operators_k1_only": OPS.iter().filter(|o| !o.compose).map(|o| o.name).collect::<Vec<_>>(),
        "k": if tier == Tier::Thorough { 2 } else { 1 },
        "distinct_mutants_k1": n1,
        "distinct_mutants_k2": n2,
        "tiny_scope_schemas": tiny_total,
        "tiny_scope": "Query (object, ≤1 field, implements ⊆ {A,B}) × A × B-or-absent; A/B: object|interface (≤2 fields a,b; a may take one argument x: Int|A!; implements ⊆ {A,B}) | union (members ⊆ {Query,A,B}) | input (≤2 fields) | enum (≤1 value); field types from {Int, A, B, [A], A!}",
    });
    (total, bounds)
}

#[cfg(test)]
mod tests {
    use super::*;

    #[test]
    fn base_schemas_round_trip_and_are_valid() {
        for (name, doc) in base_documents() {
            assert_eq!(refmodel::sdl::must(&doc.print()), doc, "{name}");
            assert_eq!(excluded(&doc), None, "{name}");
            let v = typesys::validate(&doc, &typesys::Params::apollo_documented());
            assert!(v.is_empty(), "{name}: {v:?}");
        }
    }

    #[test]
    fn tiny_space_counts() {
        let s = TinySpace::new();
        assert_eq!(s.query.len(), 24);
        assert_eq!(s.total(), (s.query.len() * s.a.len() * s.b.len()) as u64);
        assert_eq!(s.b.len(), s.a.len() + 1);
        let d = s.nth(s.total() - 1);
        assert!(d.defs.len() == 3);
        let mut i = 0;
        while i < s.total() {
            assert_eq!(excluded(&s.nth(i)), None);
            i += 4099;
        }
    }
}
