//! Code shared between the per-property check binaries (`src/bin/cNN.rs`).
