//! Code shared between the per-property check binaries (`src/bin/cNN.rs`).
pub mod hist;
pub mod grammar;
pub mod parsing;
pub mod childproc;
pub mod astproj;
pub mod schemas;
pub mod execdocs;
pub mod execharness;
