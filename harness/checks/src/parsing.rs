//! Input spaces shared by the parser checks C01, C02, C04, C07 (DESIGN.md §5.1, §5.2, §6):
//! the Σlex alphabet, the token alphabet T (and T plus one lexically invalid token), the affix
//! alphabet T′ of C07, the "every production once" documents, the single-token edit
//! enumerator, and small helpers around the apollo-parser CST that several checks need.
//!
//! Everything here is deterministic and index-addressable; no apollo behaviour is *judged*
//! here (oracles live in the check binaries and in `refmodel`).

use apollo_parser::cst::CstNode;
use apollo_parser::SyntaxKind;
use std::collections::BTreeSet;

/// Σlex of DESIGN §5.1 (20 symbols).
pub const SIGMA_LEX: &[&str] = &[
    "a", "e", "0", "1", "-", "+", ".", "\"", "\\", "u", "n", " ", "\n", "\r", "#", "{", "!", ",",
    "é", "\u{feff}",
];

/// Token alphabet T of DESIGN §5.2: the 40 tokens listed there plus `false` (41).
pub const T: &[&str] = &[
    "{", "}", "(", ")", "[", "]", ":", "=", "!", "$", "@", "|", "&", "...",
    "query", "mutation", "subscription", "fragment", "on", "schema", "extend", "scalar", "type",
    "interface", "union", "enum", "input", "directive", "repeatable", "implements",
    "true", "false", "null", "a",
    "1", "1.5", "\"s\"", "\"\"\"b\"\"\"",
    "FIELD", "QUERY", "OBJECT",
];

/// T plus one lexically invalid token (a lexer error fragment between two valid tokens is the
/// shape behind the `pending` queue of the parser): 42 symbols. Used by C01 and C02.
pub const TX: &[&str] = &[
    "{", "}", "(", ")", "[", "]", ":", "=", "!", "$", "@", "|", "&", "...",
    "query", "mutation", "subscription", "fragment", "on", "schema", "extend", "scalar", "type",
    "interface", "union", "enum", "input", "directive", "repeatable", "implements",
    "true", "false", "null", "a",
    "1", "1.5", "\"s\"", "\"\"\"b\"\"\"",
    "FIELD", "QUERY", "OBJECT",
    "é",
];

/// Affix alphabet T′ of C07: T plus a comment (with its line terminator), a comma, a BOM and a
/// newline — 45 symbols. Symbols are joined with one space.
pub const T_AFFIX: &[&str] = &[
    "{", "}", "(", ")", "[", "]", ":", "=", "!", "$", "@", "|", "&", "...",
    "query", "mutation", "subscription", "fragment", "on", "schema", "extend", "scalar", "type",
    "interface", "union", "enum", "input", "directive", "repeatable", "implements",
    "true", "false", "null", "a",
    "1", "1.5", "\"s\"", "\"\"\"b\"\"\"",
    "FIELD", "QUERY", "OBJECT",
    "#c\n", ",", "\u{feff}", "\n",
];

/// Type cores of C07.
pub const TYPE_CORES: &[&str] = &["a", "a !", "[ a ]", "[ a ! ] !", "[ [ a ] ]"];
/// Field-set cores of C07.
pub const FIELD_SET_CORES: &[&str] = &[
    "a",
    "{ a }",
    "a { a }",
    "a a",
    "... a",
    "... on a { a }",
    "a ( a : 1 )",
    "a @ a",
];

/// "Every production once": small grammatical documents, written as tokens separated by single
/// spaces (no token contains a space), that together use every production of the October 2021
/// grammar — checked at run time against the node kinds of the real CST (`production_coverage`).
/// Small documents keep each production next to few others, so a single-token edit puts each
/// error shape into each grammar position.
pub const PRODUCTION_DOCS: &[&str] = &[
    // operations
    "{ a }",
    "query { a }",
    "mutation a { a }",
    "subscription a @ a { a }",
    "query a ( $ a : a ) { a }",
    "query ( $ a : [ a ! ] ! = [ 1 ] @ a , $ b : a = 1 ) @ a ( a : 1 ) { a }",
    // fields, aliases, arguments, directives, nesting
    "{ a : a }",
    "{ a ( a : 1 ) }",
    "{ a ( a : 1 , b : $ a ) @ a @ b ( a : 1 ) { a } }",
    "{ a { a { a } } a }",
    // fragments
    "{ ... a }",
    "{ ... a @ a }",
    "{ ... on a { a } }",
    "{ ... @ a { a } }",
    "{ ... { a } }",
    "{ ... on a @ a ( a : 1 ) { a } }",
    "fragment a on a { a }",
    "fragment a on a @ a { a ... a }",
    // values
    "{ a ( a : 1.5 b : \"s\" c : \"\"\"b\"\"\" d : true e : false f : null g : a h : $ a ) }",
    "{ a ( a : [ ] b : [ 1 ] c : [ 1 , [ a ] ] ) }",
    "{ a ( d : { } e : { a : 1 } f : { a : { a : [ 1 ] } b : 1 } ) }",
    "query ( $ a : a = { a : [ 1 1.5 \"s\" true null a { } ] } ) { a }",
    // schema
    "schema { query : a }",
    "\"s\" schema @ a { query : a mutation : a subscription : a }",
    "extend schema @ a",
    "extend schema { mutation : a }",
    "extend schema @ a { query : a }",
    // scalars
    "scalar a",
    "\"s\" scalar a @ a",
    "extend scalar a @ a",
    // objects
    "type a",
    "type a { a : a }",
    "\"\"\"b\"\"\" type a implements a @ a { \"s\" a ( \"s\" a : a = 1 @ a , a : [ a ] ) : [ a ! ] ! @ a a : a }",
    "type a implements & a & a { a : a ! }",
    "extend type a implements a",
    "extend type a @ a",
    "extend type a { a : a }",
    // interfaces
    "interface a { a : a }",
    "\"s\" interface a implements a & a @ a { a ( a : a ) : a }",
    "extend interface a implements a @ a { a : a }",
    "extend interface a @ a",
    // unions
    "union a",
    "union a = a",
    "\"s\" union a @ a = | a | a",
    "extend union a = a | a",
    "extend union a @ a",
    // enums
    "enum a { a }",
    "\"s\" enum a @ a { \"s\" a @ a a }",
    "extend enum a { a }",
    "extend enum a @ a",
    // input objects
    "input a { a : a }",
    "\"s\" input a @ a { \"s\" a : [ a ] = [ 1 ] @ a a : a ! }",
    "extend input a { a : a }",
    "extend input a @ a",
    // directive definitions
    "directive @ a on FIELD",
    "\"s\" directive @ a ( a : a = 1 @ a , \"s\" a : a ) repeatable on | QUERY | OBJECT",
    "directive @ a on FIELD | FRAGMENT_SPREAD | INPUT_FIELD_DEFINITION",
    // several definitions in one document
    "query a { a } fragment a on a { a } type a { a : a } { a }",
];

pub fn tokens_of(doc: &str) -> Vec<&str> {
    doc.split(' ').collect()
}

pub fn join(tokens: &[&str]) -> String {
    tokens.join(" ")
}

/// Node kinds (not token kinds) of apollo-parser's CST that correspond to grammar productions.
/// `production_coverage` reports which of them the production documents never produce.
pub const PRODUCTION_NODE_KINDS: &[SyntaxKind] = &[
    SyntaxKind::DOCUMENT,
    SyntaxKind::OPERATION_DEFINITION,
    SyntaxKind::OPERATION_TYPE,
    SyntaxKind::SELECTION_SET,
    SyntaxKind::FIELD,
    SyntaxKind::ALIAS,
    SyntaxKind::ARGUMENTS,
    SyntaxKind::ARGUMENT,
    SyntaxKind::FRAGMENT_SPREAD,
    SyntaxKind::INLINE_FRAGMENT,
    SyntaxKind::FRAGMENT_DEFINITION,
    SyntaxKind::FRAGMENT_NAME,
    SyntaxKind::TYPE_CONDITION,
    SyntaxKind::VARIABLE,
    SyntaxKind::STRING_VALUE,
    SyntaxKind::FLOAT_VALUE,
    SyntaxKind::INT_VALUE,
    SyntaxKind::BOOLEAN_VALUE,
    SyntaxKind::NULL_VALUE,
    SyntaxKind::ENUM_VALUE,
    SyntaxKind::LIST_VALUE,
    SyntaxKind::OBJECT_VALUE,
    SyntaxKind::OBJECT_FIELD,
    SyntaxKind::VARIABLE_DEFINITIONS,
    SyntaxKind::VARIABLE_DEFINITION,
    SyntaxKind::DEFAULT_VALUE,
    SyntaxKind::NAMED_TYPE,
    SyntaxKind::LIST_TYPE,
    SyntaxKind::NON_NULL_TYPE,
    SyntaxKind::DIRECTIVES,
    SyntaxKind::DIRECTIVE,
    SyntaxKind::SCHEMA_DEFINITION,
    SyntaxKind::ROOT_OPERATION_TYPE_DEFINITION,
    SyntaxKind::SCHEMA_EXTENSION,
    SyntaxKind::DESCRIPTION,
    SyntaxKind::SCALAR_TYPE_DEFINITION,
    SyntaxKind::SCALAR_TYPE_EXTENSION,
    SyntaxKind::OBJECT_TYPE_DEFINITION,
    SyntaxKind::IMPLEMENTS_INTERFACES,
    SyntaxKind::FIELDS_DEFINITION,
    SyntaxKind::FIELD_DEFINITION,
    SyntaxKind::ARGUMENTS_DEFINITION,
    SyntaxKind::INPUT_VALUE_DEFINITION,
    SyntaxKind::OBJECT_TYPE_EXTENSION,
    SyntaxKind::INTERFACE_TYPE_DEFINITION,
    SyntaxKind::INTERFACE_TYPE_EXTENSION,
    SyntaxKind::UNION_TYPE_DEFINITION,
    SyntaxKind::UNION_MEMBER_TYPES,
    SyntaxKind::UNION_TYPE_EXTENSION,
    SyntaxKind::ENUM_TYPE_DEFINITION,
    SyntaxKind::ENUM_VALUES_DEFINITION,
    SyntaxKind::ENUM_VALUE_DEFINITION,
    SyntaxKind::ENUM_TYPE_EXTENSION,
    SyntaxKind::INPUT_OBJECT_TYPE_DEFINITION,
    SyntaxKind::INPUT_FIELDS_DEFINITION,
    SyntaxKind::INPUT_OBJECT_TYPE_EXTENSION,
    SyntaxKind::DIRECTIVE_DEFINITION,
    SyntaxKind::DIRECTIVE_LOCATIONS,
    SyntaxKind::DIRECTIVE_LOCATION,
    SyntaxKind::NAME,
];

/// (documents that parse with errors, production node kinds never produced) for the production
/// documents on the current apollo-parser. Both lists are expected to be empty; a check reports
/// them as notes (they weaken the "every grammar position" claim, they are not verdicts).
pub fn production_coverage() -> (Vec<String>, Vec<String>) {
    let mut seen: BTreeSet<u16> = BTreeSet::new();
    let mut bad = Vec::new();
    for d in PRODUCTION_DOCS {
        let tree = apollo_parser::Parser::new(d).parse();
        if tree.errors().len() > 0 {
            bad.push(d.to_string());
        }
        let doc = tree.document();
        for n in doc.syntax().descendants() {
            seen.insert(n.kind() as u16);
        }
    }
    let missing = PRODUCTION_NODE_KINDS
        .iter()
        .filter(|k| !seen.contains(&(**k as u16)))
        .map(|k| format!("{k:?}"))
        .collect();
    (bad, missing)
}

// ---------------------------------------------------------------------------------
// Single-token edits
// ---------------------------------------------------------------------------------

/// All single-token edits of `base` with insert/replace symbols from `alphabet`: delete at every
/// position, insert every symbol at every gap, replace every position by every other symbol,
/// swap every pair of unequal neighbours. Rendered, de-duplicated, sorted (so the number of
/// *distinct* mutants is what gets counted). The base itself is not included.
pub fn single_edits(base: &[&str], alphabet: &[&str]) -> Vec<String> {
    let mut out: BTreeSet<String> = BTreeSet::new();
    for_each_edit(base, alphabet, &mut |v| {
        out.insert(join(v));
    });
    out.remove(&join(base));
    out.into_iter().collect()
}

/// Calls `f` with every single-token edit of `base` (not de-duplicated).
pub fn for_each_edit<'a>(base: &[&'a str], alphabet: &[&'a str], f: &mut dyn FnMut(&[&'a str])) {
    let n = base.len();
    let mut v: Vec<&str> = Vec::with_capacity(n + 1);
    for i in 0..n {
        v.clear();
        v.extend_from_slice(&base[..i]);
        v.extend_from_slice(&base[i + 1..]);
        f(&v);
    }
    for i in 0..=n {
        for t in alphabet {
            v.clear();
            v.extend_from_slice(&base[..i]);
            v.push(t);
            v.extend_from_slice(&base[i..]);
            f(&v);
        }
    }
    for i in 0..n {
        for t in alphabet {
            if base[i] != *t {
                v.clear();
                v.extend_from_slice(base);
                v[i] = t;
                f(&v);
            }
        }
    }
    for i in 0..n.saturating_sub(1) {
        if base[i] != base[i + 1] {
            v.clear();
            v.extend_from_slice(base);
            v.swap(i, i + 1);
            f(&v);
        }
    }
}

/// Number of edit scripts `for_each_edit` produces for a base of `n` tokens whose tokens are
/// all in the alphabet of size `k` (upper bound otherwise).
pub fn edit_count_upper(n: usize, k: usize) -> usize {
    n + (n + 1) * k + n * k + n.saturating_sub(1)
}

// ---------------------------------------------------------------------------------
// CST helpers
// ---------------------------------------------------------------------------------

/// Number of leaf tokens of a tree.
pub fn leaf_count(root: &apollo_parser::SyntaxNode) -> usize {
    root.descendants_with_tokens()
        .filter(|e| e.as_token().is_some())
        .count()
}

/// Index of the first parser/lexer error that is a limit error, and its message.
pub fn first_limit_error<'a>(
    errors: impl Iterator<Item = &'a apollo_parser::Error>,
) -> Option<(usize, String)> {
    for (i, e) in errors.enumerate() {
        if e.is_limit() {
            return Some((i, e.message().to_string()));
        }
    }
    None
}

#[cfg(test)]
mod tests {
    use super::*;
    #[test]
    fn alphabets() {
        assert_eq!(SIGMA_LEX.len(), 20);
        assert_eq!(T.len(), 41);
        assert_eq!(TX.len(), 42);
        assert_eq!(T_AFFIX.len(), 45);
        assert_eq!(&TX[..41], T);
        assert_eq!(&T_AFFIX[..41], T);
        for d in PRODUCTION_DOCS {
            assert!(d.split(' ').all(|t| !t.is_empty()));
        }
    }
    #[test]
    fn edits() {
        let base = tokens_of("{ a }");
        let mut n = 0;
        for_each_edit(&base, T, &mut |_| n += 1);
        assert_eq!(n, 3 + 4 * 41 + 3 * 40 + 2);
        let e = single_edits(&base, T);
        assert!(e.len() < n && !e.contains(&"{ a }".to_string()));
        assert!(e.contains(&"{ }".to_string()) && e.contains(&"a { }".to_string()));
    }
    #[test]
    fn coverage() {
        let (bad, missing) = production_coverage();
        assert!(bad.is_empty(), "{bad:?}");
        assert!(missing.is_empty(), "{missing:?}");
    }
}
