//! The (schema, executable document) space shared by C17, C18, C19 and C20 (DESIGN.md §6 C17
//! "Explored" (1) and (2)):
//!
//! 1. base (schema, valid operation) pairs as mini-AST values × mutation operators (one per
//!    graphql-js rule and per branch of it) applied at EVERY applicable site, k = 1 (quick)
//!    or k ≤ 2 (thorough);
//! 2. the tiny-scope exhaustive operation enumerator over one schema (object + interface +
//!    union + two objects with same-named fields of different types), where field merging is
//!    decided.
//!
//! Everything is deterministic: operators enumerate sites in document order, the k = 2 level is
//! de-duplicated through 64-bit text hashes owned by the smallest producing first-level index,
//! and the sweep is index-sharded. No apollo behaviour is judged here.

use apollo_compiler::validation::Valid;
use apollo_compiler::Schema;
use rayon::prelude::*;
use refmodel::ast::*;
use refmodel::execval::{self, SchemaView};
use std::collections::{BTreeMap, BTreeSet};
use vcore::{Stats, Tier};

// =================================================================================
// Schemas and base pairs
// =================================================================================

pub const SCHEMA_1: &str = "interface I { a: Int i: I } \
type T implements I { a: Int i: I t: T b: String } \
type V implements I { a: Int i: I b: Int } \
type W { a: Int } \
union U = T | V \
enum E { A B } \
input In { r: Int! o: Int = 1 n: In l: [Int!] } \
scalar Any \
directive @d(x: Int) on FIELD | QUERY | FRAGMENT_SPREAD | INLINE_FRAGMENT | FRAGMENT_DEFINITION | VARIABLE_DEFINITION \
directive @rep repeatable on FIELD \
type Query { a: Int f(x: Int, y: Int! = 1, z: Int!): Int g(l: [Int], e: E, i: In, s: String, b: Boolean, id: ID, fl: Float, nn: [Int!], ll: [[Int]]): Int c(s: Any): Any cn(s: Any!): Any t: T u: U i: I w: W } \
type Mutation { m: Int } \
type Subscription { s: Int s2: Int t: T }";

/// explicit schema definition + schema / type extensions, non-default root names, an interface
/// implementing an interface, no subscription type, a decoy type called `Query`
pub const SCHEMA_2: &str = "schema { query: Q } \
extend schema { mutation: M } \
type Q { n: Node e: Int } \
extend type Q { x(id: ID!): Named } \
type M { set(v: Float = 1.5, on: Boolean, s: String, k: Int): Q } \
interface Node { id: ID! } \
interface Named implements Node { id: ID! name: String } \
type P implements Named & Node { id: ID! name: String friends(first: Int = 10): [P!]! } \
type R implements Node { id: ID! name: Int } \
type Query { decoy: Int }";

/// response shapes: same-named fields of different nullability / list-ness / kind
pub const SCHEMA_3: &str = "type Query { ab: AB n: Int s: String fl: Float id: ID b: Boolean lq(x: [Int!]!, y: [Int]! = [1]): Int } \
union AB = A | B \
type A { n: Int nn: Int! l: [Int] ln: [Int!] s: String o: A } \
type B { n: Int nn: Int! l: [Int] ln: [Int!] s: String o: B }";

/// the tiny-scope schema: object + interface + union + two objects whose same-named field `b`
/// has different types (`String` / `String!`)
pub const SCHEMA_TINY: &str = "interface I { a(x: [Int]): Int b(x: [Int]): String } \
type T implements I { a(x: [Int]): Int b(x: [Int]): String } \
type V implements I { a(x: [Int]): Int b(x: [Int]): String! } \
union U = T | V \
type Query { i: I u: U fl: Float id: ID bo: Boolean }";

pub const BASE_PAIRS: &[(usize, &str, &str)] = &[
    (0, "b01-variables-fragment", "query Q($v: Int, $b: Boolean!) { a f(x: $v, z: 1) @skip(if: $b) t { a ...F } } fragment F on T { b i { a } }"),
    (0, "b02-literals", "{ g(l: [1, 2], e: A, i: {r: 1, o: 2, n: {r: 3}}, s: \"x\", b: true, id: \"x\", fl: 1.5, nn: [1], ll: [[1]]) c(s: {k: [1, \"x\"]}) }"),
    (0, "b03-variable-positions", "query($i: In, $e: E = A, $l: [Int!], $n: Int!, $o: Int) { g(i: $i, e: $e, nn: $l) h: g(l: [$n, $o], i: {r: $n, o: $o, l: [$n]}) }"),
    (0, "b04-abstract-types", "{ i { a ... on T { b } ... on V { vb: b } } u { __typename ... on T { t { a } } ...UF } } fragment UF on U { ... on I { a } }"),
    (0, "b05-subscription-fragment", "subscription S { ...SF } fragment SF on Subscription { t { a b } }"),
    (0, "b06-subscription", "subscription { s }"),
    (0, "b07-several-operations", "mutation M { m } query A($v: Int) { ...QF } query B { a w { a } } fragment QF on Query { f(z: 1, x: $v) }"),
    (0, "b08-directives", "query Q($v: Int @d(x: 1)) @d { a @d(x: 1) @rep @rep ...QF @d ... @d { f(z: 2, x: $v) } } fragment QF on Query @d { a }"),
    (0, "b09-introspection", "{ __schema { types { name } } __type(name: \"T\") { name kind } __typename }"),
    (0, "b10-merging", "{ x: f(z: 1, x: 2) x: f(x: 2, z: 1) t { a } t { b } i { ... on T { k: b } ... on V { k2: b } } g(i: {r: 1, o: 2}) g(i: {o: 2, r: 1}) }"),
    (0, "b11-merging-lists", "query($v: [Int]) { g(l: [1, 2]) g(l: [1, 2]) a1: g(l: $v) a1: g(l: $v) }"),
    (1, "b12-interfaces-extensions", "query($id: ID!) { n { id ... on Named { name } ... on P { friends(first: 2) { id } } } x(id: $id) { id name } e }"),
    (1, "b13-mutation-explicit-root", "mutation { set(v: 2, on: true) { e n { id } } }"),
    (2, "b14-response-shapes", "{ ab { ... on A { k: n o { x: n } l } ... on B { k: n o { x: n } l } } }"),
    (0, "b16-abstract-parent-merging", "{ i { x: a ... on T { x: a } ... on V { x: a } } u { ... on I { y: a } ... on V { y: a } ... on T { y: a } } }"),
    (0, "b17-custom-scalar-literals", "{ cn(s: [null, 1, {k: null}]) c(s: [null]) x: cn(s: {k: [null]}) y: cn(s: A) }"),
    (2, "b18-leaf-and-composite-under-type-conditions", "{ ab { ... on A { k: n } ... on B { j: o { s } k: n } } }"),
    (2, "b19-leaf-beside-composite-disjoint-parents", "{ ab { ... on A { k: n } ... on B { j: o { s } } } }"),
    (0, "b20-fragment-spread-twice-with-directive-variable", "query Q($v: Int) { t { ...F ...F @d(x: $v) } } fragment F on T { a }"),
    (2, "b21-nullable-list-variables-in-non-null-list-positions", "query($v: [Int!] = [1], $w: [Int!]) { lq(x: $v, y: $w) }"),
    (2, "b15-response-shapes-fragments", "{ ab { ...FA ...FB } } fragment FA on A { v: ln o { o { s } } } fragment FB on B { v: ln o { o { s } } }"),
];

/// A schema in its three forms: text, mini-AST + reference view, apollo's `Valid<Schema>`.
pub struct SchemaEnv {
    pub name: String,
    pub sdl: String,
    pub doc: Document,
    pub view: SchemaView,
    pub apollo: Valid<Schema>,
}

impl SchemaEnv {
    /// `sdl` is read by the harness's own reader; apollo gets the mini-AST *printed*.
    pub fn new(name: &str, sdl: &str) -> Result<SchemaEnv, String> {
        let doc = execval::text::parse(sdl)?;
        let printed = doc.print();
        let apollo = Schema::parse_and_validate(printed.clone(), "schema.graphql")
            .map_err(|e| format!("schema {name} does not validate: {}", e.errors))?;
        Ok(SchemaEnv { name: name.to_string(), sdl: printed, view: SchemaView::new(&doc), doc, apollo })
    }
}

pub fn schema_envs() -> Vec<SchemaEnv> {
    [("S1", SCHEMA_1), ("S2", SCHEMA_2), ("S3", SCHEMA_3), ("TINY", SCHEMA_TINY)]
        .iter()
        .map(|(n, s)| SchemaEnv::new(n, s).unwrap_or_else(|e| vcore::machinery_error(&e)))
        .collect()
}

pub const TINY_SCHEMA_INDEX: usize = 3;

pub struct BasePair {
    pub schema: usize,
    pub name: &'static str,
    pub doc: Document,
}

pub fn base_pairs() -> Vec<BasePair> {
    BASE_PAIRS
        .iter()
        .map(|(s, n, t)| BasePair { schema: *s, name: n, doc: execval::text::must(t) })
        .collect()
}

// =================================================================================
// Sites: one traversal numbers every site of a document; the same traversal applies a patch
// =================================================================================

pub enum Site<'a> {
    Doc(&'a mut Document),
    Op(&'a mut Operation),
    Frag(&'a mut Fragment),
    Var(&'a mut VarDef),
    /// a selection set and the type it selects on
    Sels(&'a mut Vec<Selection>, Option<String>),
    /// one selection and the type of the enclosing selection set
    Sel(&'a mut Selection, Option<String>),
    Dirs(&'a mut Vec<Directive>, &'static str),
    /// an argument list and the argument definitions it is checked against (None: unknown owner)
    Args(&'a mut Vec<(Name, Value)>, Option<Vec<InputValueDef>>),
    /// a value, the expected type of its position, and whether the position is a constant one
    /// (variable default values, arguments of directives on variable definitions)
    Val(&'a mut Value, Option<Ty>, bool),
}

pub enum Patch {
    Doc(Document),
    Op(Operation),
    Frag(Fragment),
    Var(VarDef),
    Sels(Vec<Selection>),
    Sel(Selection),
    Dirs(Vec<Directive>),
    Args(Vec<(Name, Value)>),
    Val(Value),
}

struct Walker<'v, 'c> {
    view: &'v SchemaView,
    idx: usize,
    stop: bool,
    constant: bool,
    cb: &'c mut dyn FnMut(usize, Site<'_>) -> bool,
}

impl Walker<'_, '_> {
    fn emit(&mut self, site: Site<'_>) {
        if self.stop {
            return;
        }
        let i = self.idx;
        self.idx += 1;
        if (self.cb)(i, site) {
            self.stop = true;
        }
    }
    fn doc(&mut self, d: &mut Document) {
        self.emit(Site::Doc(d));
        for def in d.defs.iter_mut() {
            if self.stop {
                return;
            }
            match def {
                Definition::Operation(op) => {
                    self.emit(Site::Op(op));
                    let loc = match op.kind {
                        OpKind::Query => "QUERY",
                        OpKind::Mutation => "MUTATION",
                        OpKind::Subscription => "SUBSCRIPTION",
                    };
                    self.dirs(&mut op.directives, loc);
                    for v in op.vars.iter_mut() {
                        self.emit(Site::Var(v));
                        self.constant = true;
                        self.dirs(&mut v.directives, "VARIABLE_DEFINITION");
                        let ty = v.ty.clone();
                        if let Some(d) = v.default.as_mut() {
                            self.val(d, Some(ty));
                        }
                        self.constant = false;
                    }
                    let root = self.view.root(op.kind).map(|s| s.to_string());
                    self.sels(&mut op.selection, root);
                }
                Definition::Fragment(f) => {
                    self.emit(Site::Frag(f));
                    self.dirs(&mut f.directives, "FRAGMENT_DEFINITION");
                    let parent = if self.view.is_composite(&f.on) { Some(f.on.clone()) } else { None };
                    self.sels(&mut f.selection, parent);
                }
                _ => {}
            }
        }
    }
    fn sels(&mut self, list: &mut Vec<Selection>, parent: Option<String>) {
        self.emit(Site::Sels(list, parent.clone()));
        for s in list.iter_mut() {
            if self.stop {
                return;
            }
            self.emit(Site::Sel(s, parent.clone()));
            match s {
                Selection::Field(f) => {
                    let def = parent.as_deref().and_then(|p| self.view.field(p, &f.name)).cloned();
                    let adefs = def.as_ref().map(|d| d.args.clone());
                    self.args(&mut f.args, adefs);
                    self.dirs(&mut f.directives, "FIELD");
                    if !f.selection.is_empty() {
                        let child = def.as_ref().map(|d| d.ty.inner_name().to_string()).filter(|n| self.view.is_composite(n));
                        self.sels(&mut f.selection, child);
                    }
                }
                Selection::Spread { directives, .. } => self.dirs(directives, "FRAGMENT_SPREAD"),
                Selection::Inline { on, directives, selection } => {
                    self.dirs(directives, "INLINE_FRAGMENT");
                    let child = match on {
                        Some(t) => {
                            if self.view.is_composite(t) {
                                Some(t.clone())
                            } else {
                                None
                            }
                        }
                        None => parent.clone(),
                    };
                    self.sels(selection, child);
                }
            }
        }
    }
    fn dirs(&mut self, list: &mut Vec<Directive>, loc: &'static str) {
        self.emit(Site::Dirs(list, loc));
        for d in list.iter_mut() {
            let adefs = self.view.directives.get(&d.name).map(|dd| dd.args.clone());
            self.args(&mut d.args, adefs);
        }
    }
    fn args(&mut self, list: &mut Vec<(Name, Value)>, defs: Option<Vec<InputValueDef>>) {
        self.emit(Site::Args(list, defs.clone()));
        for (n, v) in list.iter_mut() {
            let ty = defs.as_ref().and_then(|ds| ds.iter().find(|a| a.name == *n)).map(|a| a.ty.clone());
            self.val(v, ty);
        }
    }
    fn val(&mut self, v: &mut Value, ty: Option<Ty>) {
        self.emit(Site::Val(v, ty.clone(), self.constant));
        if self.stop {
            return;
        }
        match v {
            Value::List(items) => {
                let item = ty.as_ref().map(|t| match t.nullable() {
                    Ty::List(i) => (**i).clone(),
                    other => other.clone(),
                });
                for it in items.iter_mut() {
                    self.val(it, item.clone());
                }
            }
            Value::Object(fields) => {
                let named = ty.as_ref().map(|t| t.inner_name().to_string());
                for (k, fv) in fields.iter_mut() {
                    let fty = named
                        .as_deref()
                        .and_then(|n| self.view.ty(n))
                        .filter(|t| t.kind == TypeKind::Input)
                        .and_then(|t| t.input_fields.iter().find(|f| f.name == *k))
                        .map(|f| f.ty.clone());
                    self.val(fv, fty);
                }
            }
            _ => {}
        }
    }
}

/// Visit every site of `doc` in document order; the callback returns `true` to stop.
pub fn walk_sites(view: &SchemaView, doc: &mut Document, cb: &mut dyn FnMut(usize, Site<'_>) -> bool) {
    let mut w = Walker { view, idx: 0, stop: false, constant: false, cb };
    w.doc(doc);
}

/// `doc` with the node at site `index` replaced.
pub fn apply_patch(view: &SchemaView, doc: &Document, index: usize, patch: Patch) -> Document {
    let mut out = doc.clone();
    let mut patch = Some(patch);
    walk_sites(view, &mut out, &mut |i, site| {
        if i != index {
            return false;
        }
        match (site, patch.take().expect("one patch")) {
            (Site::Doc(d), Patch::Doc(n)) => *d = n,
            (Site::Op(d), Patch::Op(n)) => *d = n,
            (Site::Frag(d), Patch::Frag(n)) => *d = n,
            (Site::Var(d), Patch::Var(n)) => *d = n,
            (Site::Sels(d, _), Patch::Sels(n)) => *d = n,
            (Site::Sel(d, _), Patch::Sel(n)) => *d = n,
            (Site::Dirs(d, _), Patch::Dirs(n)) => *d = n,
            (Site::Args(d, _), Patch::Args(n)) => *d = n,
            (Site::Val(d, _, _), Patch::Val(n)) => *d = n,
            _ => panic!("patch kind does not match site kind at {index}"),
        }
        true
    });
    assert!(patch.is_none(), "site {index} not found");
    out
}

// =================================================================================
// Mutation operators
// =================================================================================

/// What an operator can look at besides the site itself.
pub struct GenCx<'a> {
    pub view: &'a SchemaView,
    /// user-defined type names of the schema (no built-ins), plus `Int`
    pub type_names: Vec<String>,
    pub composite_names: Vec<String>,
    pub fragment_names: Vec<String>,
    pub variable_names: Vec<String>,
    pub operation_names: Vec<String>,
    pub n_operations: usize,
    /// directive applications offered at every directive list
    pub directive_menu: Vec<Directive>,
}

impl<'a> GenCx<'a> {
    pub fn new(view: &'a SchemaView, doc: &Document) -> GenCx<'a> {
        let mut type_names: Vec<String> = view.types.values().filter(|t| !t.builtin).map(|t| t.name.clone()).collect();
        type_names.push("Int".into());
        let composite_names = type_names.iter().filter(|n| view.is_composite(n)).cloned().collect();
        let mut fragment_names = vec![];
        let mut variable_names = vec![];
        let mut operation_names = vec![];
        for d in &doc.defs {
            match d {
                Definition::Fragment(f) => {
                    if !fragment_names.contains(&f.name) {
                        fragment_names.push(f.name.clone())
                    }
                }
                Definition::Operation(op) => {
                    if let Some(n) = &op.name {
                        if !operation_names.contains(n) {
                            operation_names.push(n.clone());
                        }
                    }
                    for v in &op.vars {
                        if !variable_names.contains(&v.name) {
                            variable_names.push(v.name.clone());
                        }
                    }
                }
                _ => {}
            }
        }
        let mut directive_menu = vec![
            Directive::with("skip", &[("if", Value::Bool(true))]),
            Directive::with("include", &[("if", Value::Bool(false))]),
            Directive::new("nope__"),
            Directive::with("deprecated", &[]),
        ];
        for dd in view.directives.values() {
            if !matches!(dd.name.as_str(), "skip" | "include" | "deprecated" | "specifiedBy") {
                directive_menu.push(Directive::new(&dd.name));
            }
        }
        GenCx {
            view,
            type_names,
            composite_names,
            fragment_names,
            variable_names,
            operation_names,
            n_operations: doc.operations().count(),
            directive_menu,
        }
    }
    /// one valid literal of an input type, shallow
    fn literal_for(&self, ty: &Ty) -> Value {
        if let Some(item) = ty.item() {
            return Value::List(vec![self.literal_for(item)]);
        }
        let n = ty.inner_name();
        match n {
            "Int" => Value::int(7),
            "Float" => Value::Float("2.5".into()),
            "String" => Value::str("lit"),
            "Boolean" => Value::Bool(false),
            "ID" => Value::str("id7"),
            _ => match self.view.ty(n) {
                Some(t) if t.kind == TypeKind::Enum => Value::Enum(t.values.first().cloned().unwrap_or_else(|| "X".into())),
                Some(t) if t.kind == TypeKind::Input => Value::Object(
                    t.input_fields
                        .iter()
                        .filter(|f| f.ty.is_non_null() && f.default.is_none())
                        .map(|f| (f.name.clone(), self.literal_for(&f.ty)))
                        .collect(),
                ),
                _ => Value::int(7),
            },
        }
    }
}

pub struct Mutation {
    pub operator: &'static str,
    pub detail: String,
    pub site: usize,
    pub patch: Patch,
}

type Out<'o> = &'o mut Vec<(&'static str, String, Patch)>;

fn selection_key(s: &Selection) -> Option<&str> {
    match s {
        Selection::Field(f) => Some(f.key()),
        _ => None,
    }
}

fn field_sel(name: &str, view: &SchemaView, parent: &str) -> Selection {
    let mut f = Field::new(name);
    if let Some(def) = view.field(parent, name) {
        if view.is_composite(def.ty.inner_name()) {
            f.selection = vec![Selection::field("__typename")];
        }
    }
    Selection::Field(f)
}

/// All operators at one site. Every `out.push` is one mutant; labels name the operator (and so
/// the rule / branch it is aimed at).
fn operators_at(site: &Site<'_>, cx: &GenCx<'_>, out: Out<'_>) {
    let view = cx.view;
    match site {
        // ---------------------------------------------------------------- document level
        Site::Doc(doc) => {
            let with = |extra: Definition| {
                let mut d: Document = (**doc).clone();
                d.defs.push(extra);
                Patch::Doc(d)
            };
            // ExecutableDefinitions
            let mut t = TypeDef::new(TypeKind::Object, "Extra__");
            t.fields.push(FieldDef::new("a", Ty::named("Int")));
            out.push(("doc.add-type-definition", String::new(), with(Definition::Type(t))));
            if let Some(q) = view.root(OpKind::Query) {
                let mut t = TypeDef::new(TypeKind::Object, q);
                t.extend = true;
                t.fields.push(FieldDef::new("zz__", Ty::named("Int")));
                out.push(("doc.add-type-extension", String::new(), with(Definition::Type(t))));
            }
            out.push((
                "doc.add-directive-definition",
                String::new(),
                with(Definition::Directive(DirectiveDef { description: None, name: "extra__".into(), args: vec![], repeatable: false, locations: vec!["FIELD".into()] })),
            ));
            // LoneAnonymousOperation
            let mut anon = Operation::query(vec![Selection::field("__typename")]);
            anon.shorthand = true;
            out.push(("doc.add-anonymous-operation", String::new(), with(Definition::Operation(anon))));
            let mut named = Operation::query(vec![Selection::field("__typename")]);
            named.name = Some("Added__".into());
            out.push(("doc.add-named-operation", String::new(), with(Definition::Operation(named))));
            // NoUnusedFragments
            if let Some(q) = view.root(OpKind::Query) {
                out.push((
                    "doc.add-unused-fragment",
                    String::new(),
                    with(Definition::Fragment(Fragment { name: "Unused__".into(), on: q.to_string(), directives: vec![], selection: vec![Selection::field("__typename")] })),
                ));
            }
            for (i, def) in doc.defs.iter().enumerate() {
                // UniqueOperationNames / LoneAnonymousOperation / UniqueFragmentNames
                let label = match def {
                    Definition::Operation(_) => "doc.duplicate-operation",
                    _ => "doc.duplicate-fragment",
                };
                out.push((label, format!("#{i}"), with(def.clone())));
                // KnownFragmentNames / NoUnusedFragments / NoUnusedVariables
                if doc.defs.len() > 1 {
                    let mut d: Document = (**doc).clone();
                    d.defs.remove(i);
                    let label = match def {
                        Definition::Operation(_) => "doc.remove-operation",
                        _ => "doc.remove-fragment",
                    };
                    out.push((label, format!("#{i}"), Patch::Doc(d)));
                }
                // order of definitions is irrelevant (valid-preserving)
                if i + 1 < doc.defs.len() {
                    let mut d: Document = (**doc).clone();
                    d.defs.swap(i, i + 1);
                    out.push(("doc.swap-definitions", format!("#{i}"), Patch::Doc(d)));
                }
            }
        }
        // ---------------------------------------------------------------- operations
        Site::Op(op) => {
            for n in &cx.operation_names {
                if op.name.as_ref() != Some(n) {
                    let mut o: Operation = (**op).clone();
                    o.name = Some(n.clone());
                    o.shorthand = false;
                    out.push(("op.rename-to-existing-name", n.clone(), Patch::Op(o)));
                }
            }
            if op.name.is_some() {
                let mut o: Operation = (**op).clone();
                o.name = None;
                out.push(("op.drop-name", String::new(), Patch::Op(o)));
            } else {
                let mut o: Operation = (**op).clone();
                o.name = Some("Named__".into());
                o.shorthand = false;
                out.push(("op.add-name", String::new(), Patch::Op(o)));
                let mut o: Operation = (**op).clone();
                o.shorthand = !o.shorthand;
                out.push(("op.toggle-shorthand", String::new(), Patch::Op(o)));
            }
            for k in [OpKind::Query, OpKind::Mutation, OpKind::Subscription] {
                if k != op.kind {
                    let mut o: Operation = (**op).clone();
                    o.kind = k;
                    o.shorthand = false;
                    out.push(("op.change-kind", k.keyword().to_string(), Patch::Op(o)));
                }
            }
            // NoUnusedVariables
            let mut o: Operation = (**op).clone();
            o.shorthand = false;
            o.vars.push(VarDef { name: "unused__".into(), ty: Ty::named("Int"), default: None, directives: vec![] });
            out.push(("op.add-unused-variable", String::new(), Patch::Op(o)));
            for (i, v) in op.vars.iter().enumerate() {
                // UniqueVariableNames
                let mut o: Operation = (**op).clone();
                o.vars.push(v.clone());
                out.push(("op.duplicate-variable", v.name.clone(), Patch::Op(o)));
                // NoUndefinedVariables
                let mut o: Operation = (**op).clone();
                o.vars.remove(i);
                out.push(("op.remove-variable", v.name.clone(), Patch::Op(o)));
                if i + 1 < op.vars.len() {
                    let mut o: Operation = (**op).clone();
                    o.vars.swap(i, i + 1);
                    out.push(("op.swap-variables", v.name.clone(), Patch::Op(o)));
                }
            }
        }
        Site::Var(v) => {
            let mut tys: Vec<Ty> = vec![
                Ty::named("Nope__"),
                v.ty.clone().non_null(),
                v.ty.nullable().clone(),
                v.ty.clone().list(),
                v.ty.nullable().clone().list().non_null(),
            ];
            if let Some(item) = v.ty.item() {
                tys.push(item.clone());
                tys.push(item.nullable().clone().list());
                tys.push(item.clone().non_null().list());
            }
            for n in &cx.type_names {
                tys.push(Ty::named(n));
            }
            for n in ["String", "Boolean", "Float", "ID"] {
                tys.push(Ty::named(n));
            }
            let mut seen = BTreeSet::new();
            for t in tys {
                if t != v.ty && seen.insert(t.clone()) {
                    let mut n: VarDef = (**v).clone();
                    n.ty = t.clone();
                    out.push(("var.change-type", t.to_string(), Patch::Var(n)));
                }
            }
            let defaults: Vec<Option<Value>> = vec![None, Some(Value::Null), Some(cx.literal_for(&v.ty)), Some(Value::str("wrong")), Some(Value::int(1)), Some(Value::List(vec![]))];
            for d in defaults {
                if d != v.default {
                    let mut n: VarDef = (**v).clone();
                    n.default = d.clone();
                    out.push(("var.change-default", d.map(|d| value_to_string(&d)).unwrap_or_else(|| "none".into()), Patch::Var(n)));
                }
            }
            let mut n: VarDef = (**v).clone();
            n.name = "renamed__".into();
            out.push(("var.rename", String::new(), Patch::Var(n)));
        }
        // ---------------------------------------------------------------- fragments
        Site::Frag(f) => {
            for t in cx.type_names.iter().map(|s| s.as_str()).chain(["Nope__"]) {
                if t != f.on {
                    let mut n: Fragment = (**f).clone();
                    n.on = t.to_string();
                    out.push(("frag.change-type-condition", t.to_string(), Patch::Frag(n)));
                }
            }
            let mut n: Fragment = (**f).clone();
            n.name = "Renamed__".into();
            out.push(("frag.rename", String::new(), Patch::Frag(n)));
            for other in &cx.fragment_names {
                if *other != f.name {
                    let mut n: Fragment = (**f).clone();
                    n.name = other.clone();
                    out.push(("frag.rename-to-existing-name", other.clone(), Patch::Frag(n)));
                }
            }
        }
        // ---------------------------------------------------------------- selection sets
        Site::Sels(list, parent) => {
            let clone = || -> Vec<Selection> { (**list).clone() };
            // KnownFragmentNames / NoFragmentCycles (direct and indirect) / PossibleFragmentSpreads
            for f in cx.fragment_names.iter().map(|s| s.as_str()).chain(["Undefined__"]) {
                for at_end in [false, true] {
                    let mut l = clone();
                    if at_end {
                        l.push(Selection::spread(f));
                    } else {
                        l.insert(0, Selection::spread(f));
                    }
                    out.push(("sels.insert-spread", format!("{f}{}", if at_end { "@end" } else { "" }), Patch::Sels(l)));
                }
            }
            if let Some(p) = parent.as_deref() {
                // FieldsOnCorrectType / ScalarLeafs / ProvidedRequiredArguments / SingleFieldSubscriptions
                let mut names: Vec<String> = view.ty(p).map(|t| t.fields.iter().map(|f| f.name.clone()).collect()).unwrap_or_default();
                names.push("__typename".into());
                names.push("nope__".into());
                for n in &names {
                    let mut l = clone();
                    l.push(field_sel(n, view, p));
                    out.push(("sels.insert-field", n.clone(), Patch::Sels(l)));
                }
                // OverlappingFieldsCanBeMerged: another field under an existing response key
                let keys: BTreeSet<String> = list.iter().filter_map(|s| selection_key(s).map(|k| k.to_string())).collect();
                for k in &keys {
                    for n in &names {
                        if n == "nope__" {
                            continue;
                        }
                        let mut s = field_sel(n, view, p);
                        if let Selection::Field(f) = &mut s {
                            if f.name != *k {
                                f.alias = Some(k.clone());
                            }
                        }
                        for at_end in [false, true] {
                            let mut l = clone();
                            if at_end {
                                l.push(s.clone());
                            } else {
                                l.insert(0, s.clone());
                            }
                            out.push(("sels.insert-field-under-existing-key", format!("{k}: {n}{}", if at_end { "@end" } else { "" }), Patch::Sels(l)));
                        }
                    }
                }
            }
            for i in 0..list.len() {
                // identical selections merge; selection counts (subscriptions)
                let mut l = clone();
                l.insert(i, list[i].clone());
                out.push(("sels.duplicate-selection", format!("#{i}"), Patch::Sels(l)));
                if list.len() > 1 {
                    let mut l = clone();
                    l.remove(i);
                    out.push(("sels.remove-selection", format!("#{i}"), Patch::Sels(l)));
                }
                if i + 1 < list.len() {
                    let mut l = clone();
                    l.swap(i, i + 1);
                    out.push(("sels.swap-selections", format!("#{i}"), Patch::Sels(l)));
                }
                // PossibleFragmentSpreads / FieldsOnCorrectType through an inline fragment
                let mut conds: Vec<Option<String>> = vec![None];
                conds.extend(cx.composite_names.iter().cloned().map(Some));
                conds.push(Some("Nope__".into()));
                conds.push(Some("Int".into()));
                for c in conds {
                    let mut l = clone();
                    l[i] = Selection::Inline { on: c.clone(), directives: vec![], selection: vec![list[i].clone()] };
                    out.push(("sels.wrap-in-inline-fragment", c.unwrap_or_else(|| "(none)".into()), Patch::Sels(l)));
                }
                if let Selection::Inline { selection, .. } = &list[i] {
                    let mut l = clone();
                    l.splice(i..=i, selection.iter().cloned());
                    out.push(("sels.unwrap-inline-fragment", format!("#{i}"), Patch::Sels(l)));
                }
            }
        }
        // ---------------------------------------------------------------- single selections
        Site::Sel(sel, parent) => match &**sel {
            Selection::Field(f) => {
                if let Some(p) = parent.as_deref() {
                    let mut names: Vec<String> = view.ty(p).map(|t| t.fields.iter().map(|f| f.name.clone()).collect()).unwrap_or_default();
                    names.push("__typename".into());
                    names.push("nope__".into());
                    for n in names {
                        if n != f.name {
                            // keep the response key: the renamed field meets its old partners
                            for keep_key in [false, true] {
                                let mut g = f.clone();
                                if keep_key && g.alias.is_none() {
                                    g.alias = Some(f.name.clone());
                                } else if keep_key {
                                    continue;
                                }
                                g.name = n.clone();
                                out.push(("field.rename", format!("{n}{}", if keep_key { "+key" } else { "" }), Patch::Sel(Selection::Field(g))));
                            }
                        }
                    }
                }
                if f.alias.is_some() {
                    let mut g = f.clone();
                    g.alias = None;
                    out.push(("field.drop-alias", String::new(), Patch::Sel(Selection::Field(g))));
                }
                for a in ["x", "a", "b", "k"] {
                    if f.key() != a {
                        let mut g = f.clone();
                        g.alias = Some(a.to_string());
                        out.push(("field.set-alias", a.to_string(), Patch::Sel(Selection::Field(g))));
                    }
                }
                if f.selection.is_empty() {
                    // ScalarLeafs: selection on a leaf
                    for inner in ["__typename", "a"] {
                        let mut g = f.clone();
                        g.selection = vec![Selection::field(inner)];
                        out.push(("field.add-selection", inner.to_string(), Patch::Sel(Selection::Field(g))));
                    }
                } else {
                    // ScalarLeafs: composite without selection
                    let mut g = f.clone();
                    g.selection = vec![];
                    out.push(("field.drop-selection", String::new(), Patch::Sel(Selection::Field(g))));
                }
            }
            Selection::Spread { name, directives } => {
                for other in cx.fragment_names.iter().map(|s| s.as_str()).chain(["Undefined__"]) {
                    if other != name {
                        out.push(("spread.retarget", other.to_string(), Patch::Sel(Selection::Spread { name: other.to_string(), directives: directives.clone() })));
                    }
                }
            }
            Selection::Inline { on, directives, selection } => {
                let mut conds: Vec<Option<String>> = vec![None];
                conds.extend(cx.type_names.iter().cloned().map(Some));
                conds.push(Some("Nope__".into()));
                for c in conds {
                    if c != *on {
                        out.push((
                            "inline.change-type-condition",
                            c.clone().unwrap_or_else(|| "(none)".into()),
                            Patch::Sel(Selection::Inline { on: c, directives: directives.clone(), selection: selection.clone() }),
                        ));
                    }
                }
            }
        },
        // ---------------------------------------------------------------- directive lists
        Site::Dirs(list, _loc) => {
            for d in &cx.directive_menu {
                for at_end in [false, true] {
                    if list.is_empty() && at_end {
                        continue;
                    }
                    let mut l: Vec<Directive> = (**list).clone();
                    if at_end {
                        l.push(d.clone());
                    } else {
                        l.insert(0, d.clone());
                    }
                    out.push(("dirs.add", format!("@{}{}", d.name, if at_end { "@end" } else { "" }), Patch::Dirs(l)));
                }
            }
            for i in 0..list.len() {
                let mut l: Vec<Directive> = (**list).clone();
                l.insert(i, list[i].clone());
                out.push(("dirs.duplicate", format!("@{}", list[i].name), Patch::Dirs(l)));
                let mut l: Vec<Directive> = (**list).clone();
                l.remove(i);
                out.push(("dirs.remove", format!("@{}", list[i].name), Patch::Dirs(l)));
                let mut l: Vec<Directive> = (**list).clone();
                l[i].name = "nope__".into();
                out.push(("dirs.rename-to-undefined", format!("@{}", list[i].name), Patch::Dirs(l)));
                if i + 1 < list.len() {
                    let mut l: Vec<Directive> = (**list).clone();
                    l.swap(i, i + 1);
                    out.push(("dirs.swap", format!("#{i}"), Patch::Dirs(l)));
                }
            }
        }
        // ---------------------------------------------------------------- argument lists
        Site::Args(list, defs) => {
            let clone = || -> Vec<(Name, Value)> { (**list).clone() };
            // KnownArgumentNames
            let mut l = clone();
            l.push(("nope__".into(), Value::int(1)));
            out.push(("args.add-unknown", String::new(), Patch::Args(l)));
            if let Some(defs) = defs {
                for a in defs {
                    if !list.iter().any(|(n, _)| *n == a.name) {
                        // differing argument sets (merging); valid otherwise
                        let mut l = clone();
                        l.push((a.name.clone(), cx.literal_for(&a.ty)));
                        out.push(("args.add-defined", a.name.clone(), Patch::Args(l)));
                        let mut l = clone();
                        l.insert(0, (a.name.clone(), Value::Null));
                        out.push(("args.add-defined-null", a.name.clone(), Patch::Args(l)));
                    }
                }
            }
            for i in 0..list.len() {
                // ProvidedRequiredArguments / NoUnusedVariables / merging
                let mut l = clone();
                l.remove(i);
                out.push(("args.remove", list[i].0.clone(), Patch::Args(l)));
                // UniqueArgumentNames
                let mut l = clone();
                l.push(list[i].clone());
                out.push(("args.duplicate", list[i].0.clone(), Patch::Args(l)));
                if i + 1 < list.len() {
                    let mut l = clone();
                    l.swap(i, i + 1);
                    out.push(("args.swap", format!("#{i}"), Patch::Args(l)));
                }
                if let Some(defs) = defs {
                    for a in defs {
                        if a.name != list[i].0 && !list.iter().any(|(n, _)| *n == a.name) {
                            let mut l = clone();
                            l[i].0 = a.name.clone();
                            out.push(("args.rename-to-defined", format!("{}->{}", list[i].0, a.name), Patch::Args(l)));
                        }
                    }
                }
            }
        }
        // ---------------------------------------------------------------- values
        Site::Val(v, ty, constant) => {
            let mut menu: Vec<Value> = vec![
                Value::Null,
                Value::int(1),
                Value::int(2),
                Value::Int("2147483648".into()),
                Value::Int("-2147483648".into()),
                Value::Float("1.5".into()),
                Value::str("s"),
                Value::Bool(true),
                Value::en("A"),
                Value::en("NOPE__"),
                Value::List(vec![]),
                Value::List(vec![Value::int(1)]),
                Value::List(vec![Value::Null]),
                Value::Object(vec![]),
                Value::obj(&[("r", Value::int(1))]),
            ];
            if !*constant {
                menu.push(Value::var("undefined__"));
                for n in &cx.variable_names {
                    menu.push(Value::var(n));
                }
            }
            if let Some(t) = ty {
                menu.push(cx.literal_for(t));
            }
            menu.push(Value::List(vec![(**v).clone()]));
            let mut seen = BTreeSet::new();
            for m in menu {
                if m != **v && seen.insert(m.clone()) {
                    out.push(("value.replace", value_to_string(&m), Patch::Val(m)));
                }
            }
            match &**v {
                Value::List(items) => {
                    // list lengths (argument equality), item nullability
                    if let Some(last) = items.last() {
                        let mut l = items.clone();
                        l.push(last.clone());
                        out.push(("value.list-append-copy", String::new(), Patch::Val(Value::List(l))));
                        let mut l = items.clone();
                        l.pop();
                        out.push(("value.list-remove-last", String::new(), Patch::Val(Value::List(l))));
                        if items.len() == 1 {
                            out.push(("value.list-unwrap", String::new(), Patch::Val(items[0].clone())));
                        }
                    }
                    let mut l = items.clone();
                    l.push(Value::Null);
                    out.push(("value.list-append-null", String::new(), Patch::Val(Value::List(l))));
                    let mut l = items.clone();
                    l.push(Value::int(3));
                    out.push(("value.list-append-int", String::new(), Patch::Val(Value::List(l))));
                }
                Value::Object(fields) => {
                    for i in 0..fields.len() {
                        // UniqueInputFieldNames (same value, different value, null)
                        for (tag, dupval) in [("same", fields[i].1.clone()), ("string", Value::str("s")), ("null", Value::Null), ("undefined-variable", Value::var("undefined__"))] {
                            if *constant && tag == "undefined-variable" {
                                continue;
                            }
                            let mut l = fields.clone();
                            l.push((fields[i].0.clone(), dupval));
                            out.push(("value.object-duplicate-field", format!("{}:{tag}", fields[i].0), Patch::Val(Value::Object(l))));
                        }
                        // required input fields
                        let mut l = fields.clone();
                        l.remove(i);
                        out.push(("value.object-remove-field", fields[i].0.clone(), Patch::Val(Value::Object(l))));
                        if i + 1 < fields.len() {
                            let mut l = fields.clone();
                            l.swap(i, i + 1);
                            out.push(("value.object-swap-fields", format!("#{i}"), Patch::Val(Value::Object(l))));
                        }
                    }
                    let mut l = fields.clone();
                    l.push(("nope__".into(), Value::int(1)));
                    out.push(("value.object-add-unknown-field", String::new(), Patch::Val(Value::Object(l))));
                    if let Some(info) = ty.as_ref().and_then(|t| view.ty(t.inner_name())).filter(|t| t.kind == TypeKind::Input) {
                        for fd in &info.input_fields {
                            if !fields.iter().any(|(k, _)| *k == fd.name) {
                                let mut l = fields.clone();
                                l.push((fd.name.clone(), cx.literal_for(&fd.ty)));
                                out.push(("value.object-add-defined-field", fd.name.clone(), Patch::Val(Value::Object(l))));
                            }
                        }
                    }
                }
                _ => {}
            }
        }
    }
}

pub const OPERATORS: &[&str] = &[
    "doc.add-type-definition",
    "doc.add-type-extension",
    "doc.add-directive-definition",
    "doc.add-anonymous-operation",
    "doc.add-named-operation",
    "doc.add-unused-fragment",
    "doc.duplicate-operation",
    "doc.duplicate-fragment",
    "doc.remove-operation",
    "doc.remove-fragment",
    "doc.swap-definitions",
    "op.rename-to-existing-name",
    "op.drop-name",
    "op.add-name",
    "op.toggle-shorthand",
    "op.change-kind",
    "op.add-unused-variable",
    "op.duplicate-variable",
    "op.remove-variable",
    "op.swap-variables",
    "var.change-type",
    "var.change-default",
    "var.rename",
    "frag.change-type-condition",
    "frag.rename",
    "frag.rename-to-existing-name",
    "sels.insert-spread",
    "sels.insert-field",
    "sels.insert-field-under-existing-key",
    "sels.duplicate-selection",
    "sels.remove-selection",
    "sels.swap-selections",
    "sels.wrap-in-inline-fragment",
    "sels.unwrap-inline-fragment",
    "field.rename",
    "field.drop-alias",
    "field.set-alias",
    "field.add-selection",
    "field.drop-selection",
    "spread.retarget",
    "inline.change-type-condition",
    "dirs.add",
    "dirs.duplicate",
    "dirs.remove",
    "dirs.rename-to-undefined",
    "dirs.swap",
    "args.add-unknown",
    "args.add-defined",
    "args.add-defined-null",
    "args.remove",
    "args.duplicate",
    "args.swap",
    "args.rename-to-defined",
    "value.replace",
    "value.list-append-copy",
    "value.list-remove-last",
    "value.list-unwrap",
    "value.list-append-null",
    "value.list-append-int",
    "value.object-duplicate-field",
    "value.object-remove-field",
    "value.object-swap-fields",
    "value.object-add-unknown-field",
    "value.object-add-defined-field",
];

/// Every (operator, site, variant) applicable to `doc`, in site order.
pub fn mutations(view: &SchemaView, doc: &Document) -> Vec<Mutation> {
    let cx = GenCx::new(view, doc);
    let mut scratch = doc.clone();
    let mut all = vec![];
    walk_sites(view, &mut scratch, &mut |i, site| {
        let mut out = vec![];
        operators_at(&site, &cx, &mut out);
        for (operator, detail, patch) in out {
            all.push(Mutation { operator, detail, site: i, patch });
        }
        false
    });
    all
}

/// All single-mutation mutants of `doc`: (operator, detail, mutant).
pub fn mutants(view: &SchemaView, doc: &Document) -> Vec<(&'static str, String, Document)> {
    mutations(view, doc)
        .into_iter()
        .map(|m| {
            let d = apply_patch(view, doc, m.site, m.patch);
            (m.operator, m.detail, d)
        })
        .collect()
}

pub fn fnv64(s: &str) -> u64 {
    let mut h: u64 = 0xcbf29ce484222325;
    for b in s.as_bytes() {
        h ^= *b as u64;
        h = h.wrapping_mul(0x100000001b3);
    }
    h
}

// =================================================================================
// Tiny-scope exhaustive operations
// =================================================================================

/// The argument menu of the tiny scope.
fn tiny_args() -> Vec<Vec<(Name, Value)>> {
    vec![
        vec![],
        vec![("x".into(), Value::int(1))],
        vec![("x".into(), Value::int(2))],
        vec![("x".into(), Value::List(vec![Value::int(1)]))],
        vec![("x".into(), Value::List(vec![Value::int(1), Value::int(2)]))],
        vec![("x".into(), Value::var("v"))],
    ]
}

pub struct TinyScope {
    pub max_nodes: usize,
    /// field forms: `a`, `b`, `b: a`, `a: b` × argument menu
    fields: Vec<Selection>,
    inline_types: Vec<Option<&'static str>>,
    fragment_types: Vec<&'static str>,
    /// named fragments that may be spread (`F`, `G`; none in the core / field-set variants)
    spreads: Vec<&'static str>,
    /// emit only operations with exactly `max_nodes` selection nodes
    exact: bool,
    pub with_variables: bool,
}

impl TinyScope {
    pub fn new(max_nodes: usize) -> TinyScope {
        let mut fields = vec![];
        for (alias, name) in [(None, "a"), (None, "b"), (Some("b"), "a"), (Some("a"), "b")] {
            for args in tiny_args() {
                let mut f = Field::new(name);
                f.alias = alias.map(|s: &str| s.to_string());
                f.args = args;
                fields.push(Selection::Field(f));
            }
        }
        TinyScope {
            max_nodes,
            fields,
            inline_types: vec![None, Some("I"), Some("T"), Some("V"), Some("U")],
            fragment_types: vec!["I", "T", "V"],
            spreads: vec!["F", "G"],
            exact: false,
            with_variables: true,
        }
    }
    /// The core variant used one node deeper: no named fragments, no variables, arguments
    /// {none, (x:1), (x:[1]), (x:[1,2])}; only operations with exactly `max_nodes` nodes.
    pub fn core_exact(max_nodes: usize) -> TinyScope {
        let mut t = TinyScope::new(max_nodes);
        t.fields.retain(|s| match s {
            Selection::Field(f) => !f.args.iter().any(|(_, v)| matches!(v, Value::Var(_)) || *v == Value::int(2)),
            _ => true,
        });
        t.spreads = vec![];
        t.exact = true;
        t.with_variables = false;
        t
    }
    /// the field-set variant (no named fragments, no variables)
    pub fn field_sets(max_nodes: usize) -> TinyScope {
        let mut t = TinyScope::new(max_nodes);
        t.fields.retain(|s| match s {
            Selection::Field(f) => !f.args.iter().any(|(_, v)| matches!(v, Value::Var(_))),
            _ => true,
        });
        t.spreads = vec![];
        t.with_variables = false;
        t
    }

    /// every selection list of 1..=budget nodes; `emit(list, remaining budget)`
    fn lists(&self, cur: &mut Vec<Selection>, budget: usize, spreads: &[&str], emit: &mut dyn FnMut(&mut Vec<Selection>, usize)) {
        if !cur.is_empty() {
            emit(cur, budget);
        }
        if budget == 0 {
            return;
        }
        for f in &self.fields {
            cur.push(f.clone());
            self.lists(cur, budget - 1, spreads, emit);
            cur.pop();
        }
        for s in spreads {
            cur.push(Selection::spread(s));
            self.lists(cur, budget - 1, spreads, emit);
            cur.pop();
        }
        if budget >= 2 {
            for t in &self.inline_types {
                let mut body = vec![];
                self.lists(&mut body, budget - 1, spreads, &mut |b, rem| {
                    cur.push(Selection::Inline { on: t.map(|s| s.to_string()), directives: vec![], selection: b.clone() });
                    self.lists(cur, rem, spreads, &mut *emit);
                    cur.pop();
                });
            }
        }
    }

    fn first_spread(list: &[Selection]) -> Option<&str> {
        for s in list {
            match s {
                Selection::Spread { name, .. } => return Some(name),
                Selection::Inline { selection, .. } => {
                    if let Some(n) = Self::first_spread(selection) {
                        return Some(n);
                    }
                }
                Selection::Field(_) => {}
            }
        }
        None
    }
    fn spreads_name(list: &[Selection], name: &str) -> bool {
        list.iter().any(|s| match s {
            Selection::Spread { name: n, .. } => n == name,
            Selection::Inline { selection, .. } => Self::spreads_name(selection, name),
            Selection::Field(_) => false,
        })
    }
    fn uses_variable(list: &[Selection]) -> bool {
        list.iter().any(|s| match s {
            Selection::Field(f) => f.args.iter().any(|(_, v)| matches!(v, Value::Var(_))),
            Selection::Inline { selection, .. } => Self::uses_variable(selection),
            Selection::Spread { .. } => false,
        })
    }

    fn assemble(main: &[Selection], frags: &[(&str, &str, &[Selection])]) -> Document {
        let uses_v = Self::uses_variable(main) || frags.iter().any(|(_, _, b)| Self::uses_variable(b));
        let mut op = Operation::query(vec![Selection::Field(Field::new("i").sel(main.to_vec()))]);
        if uses_v {
            op.vars.push(VarDef { name: "v".into(), ty: Ty::parse("[Int]"), default: None, directives: vec![] });
        }
        let mut defs = vec![Definition::Operation(op)];
        for (name, on, body) in frags {
            defs.push(Definition::Fragment(Fragment { name: name.to_string(), on: on.to_string(), directives: vec![], selection: body.to_vec() }));
        }
        Document { defs }
    }

    /// The top-level work items: the first selection of the main list (each is explored
    /// independently, so the sweep can be index-sharded).
    pub fn n_items(&self) -> usize {
        self.fields.len() + 1 + self.inline_types.len()
    }
    /// sub-shards per item (main lists are dealt round-robin)
    pub const SUBSHARDS: usize = 8;

    /// Every operation of the scope whose main selection list starts with item `item`:
    /// `query[($v: [Int])] { i { MAIN } } [fragment F on c { .. }] [fragment G on c { .. }]`
    /// with |MAIN| + |F| + |G| ≤ max_nodes; fragment definitions exist iff they are spread; `G`
    /// is only used in documents that also use `F` (symmetry); `$v` is declared iff used.
    pub fn for_each(&self, item: usize, f: &mut dyn FnMut(&Document)) {
        self.for_each_shard(item, 0, 1, f)
    }

    /// `for_each` restricted to the main lists number `shard`, `shard + nshards`, ... of item `item`.
    pub fn for_each_shard(&self, item: usize, shard: usize, nshards: usize, f: &mut dyn FnMut(&Document)) {
        let spreads: &[&str] = &self.spreads;
        let mut counter = 0usize;
        let mut emit_main = |main: &mut Vec<Selection>, rem: usize| {
            if self.exact && rem != 0 {
                return;
            }
            counter += 1;
            if (counter - 1) % nshards != shard {
                return;
            }
            match Self::first_spread(main) {
                None => f(&Self::assemble(main, &[])),
                Some("G") => {} // symmetric to the document with F and G exchanged
                Some(_) => {
                    // F is spread by MAIN; choose its definition
                    for fc in &self.fragment_types {
                        let mut fb = vec![];
                        self.lists(&mut fb, rem, spreads, &mut |fbody, rem2| {
                            let g_used = Self::spreads_name(main, "G") || Self::spreads_name(fbody, "G");
                            if !g_used {
                                f(&Self::assemble(main, &[("F", fc, fbody)]));
                            } else {
                                for gc in &self.fragment_types {
                                    let mut gb = vec![];
                                    self.lists(&mut gb, rem2, spreads, &mut |gbody, _| {
                                        f(&Self::assemble(main, &[("F", fc, fbody), ("G", gc, gbody)]));
                                    });
                                }
                            }
                        });
                    }
                }
            }
        };
        let budget = self.max_nodes;
        let nf = self.fields.len();
        let mut cur: Vec<Selection> = vec![];
        if item < nf {
            cur.push(self.fields[item].clone());
            self.lists(&mut cur, budget - 1, spreads, &mut emit_main);
        } else if item == nf {
            if !spreads.is_empty() {
                cur.push(Selection::spread("F"));
                self.lists(&mut cur, budget - 1, spreads, &mut emit_main);
            }
        } else if budget >= 2 {
            let t = self.inline_types[item - nf - 1];
            let mut body = vec![];
            self.lists(&mut body, budget - 1, spreads, &mut |b, rem| {
                let mut cur = vec![Selection::Inline { on: t.map(|s| s.to_string()), directives: vec![], selection: b.clone() }];
                self.lists(&mut cur, rem, spreads, &mut emit_main);
            });
        }
    }

    /// Every selection list of the field-set variant with ≤ max_nodes selections.
    pub fn for_each_field_set(&self, f: &mut dyn FnMut(&[Selection])) {
        let mut cur = vec![];
        self.lists(&mut cur, self.max_nodes, &[], &mut |l, _| f(l));
    }
}

// =================================================================================
// The sweep shared by C17–C20
// =================================================================================

pub struct Case<'a> {
    pub env: &'a SchemaEnv,
    pub doc: &'a Document,
    pub text: &'a str,
    /// "base" | "k1" | "k2" | "tiny"
    pub family: &'static str,
    /// base-pair name, or "tiny"
    pub base: &'a str,
    /// operators applied (empty for bases and the tiny scope)
    pub operators: &'a [&'static str],
}

pub struct SweepInfo {
    pub bases: usize,
    pub k1: u64,
    pub k2_executed: u64,
    pub k2_generated: u64,
    pub tiny: u64,
    pub tiny_core: u64,
    pub tiny_max_nodes: usize,
    pub k: u32,
    pub per_base_k1: BTreeMap<String, u64>,
}

pub fn tiny_nodes(tier: Tier) -> usize {
    match std::env::var("VERIF_TINY_NODES").ok().and_then(|s| s.parse().ok()) {
        Some(n) => n,
        None => tier.pick(4, 4),
    }
}

/// Run `f` on every case of the space for `tier`. Deterministic: items are processed in
/// parallel but merged in index order; a k = 2 mutant that several first-level mutants produce
/// is executed once, by the first-level mutant with the smallest index.
pub fn sweep(envs: &[SchemaEnv], tier: Tier, f: &(dyn Fn(&Case<'_>, &mut Stats) + Sync)) -> (Stats, SweepInfo) {
    let bases = base_pairs();
    let mut total = Stats::default();
    let mut info = SweepInfo {
        bases: bases.len(),
        k1: 0,
        k2_executed: 0,
        k2_generated: 0,
        tiny: 0,
        tiny_core: 0,
        tiny_max_nodes: tiny_nodes(tier),
        k: tier.pick(1, 2),
        per_base_k1: BTreeMap::new(),
    };
    for b in &bases {
        let env = &envs[b.schema];
        // the base itself
        let mut st = Stats::default();
        let text = b.doc.print();
        f(&Case { env, doc: &b.doc, text: &text, family: "base", base: b.name, operators: &[] }, &mut st);
        total = total.merge(st);
        // k = 1, de-duplicated by text (first producer wins)
        let all = mutants(&env.view, &b.doc);
        let mut seen: BTreeSet<u64> = BTreeSet::new();
        seen.insert(fnv64(&text));
        let mut k1: Vec<(&'static str, Document, String)> = vec![];
        for (op, _detail, d) in all {
            let t = d.print();
            if seen.insert(fnv64(&t)) {
                k1.push((op, d, t));
            }
        }
        info.k1 += k1.len() as u64;
        info.per_base_k1.insert(b.name.to_string(), k1.len() as u64);
        let parts: Vec<Stats> = k1
            .par_iter()
            .map(|(op, d, t)| {
                let mut st = Stats::default();
                f(&Case { env, doc: d, text: t, family: "k1", base: b.name, operators: &[*op] }, &mut st);
                st
            })
            .collect();
        total = parts.into_iter().fold(total, Stats::merge);
        if info.k < 2 {
            continue;
        }
        // k = 2: phase A, who produces what
        let produced: Vec<Vec<u64>> = k1
            .par_iter()
            .map(|(_, d, _)| mutants(&env.view, d).into_iter().map(|(_, _, d2)| fnv64(&d2.print())).collect())
            .collect();
        let mut owner: BTreeMap<u64, u32> = BTreeMap::new();
        for (i, hs) in produced.iter().enumerate() {
            info.k2_generated += hs.len() as u64;
            for h in hs {
                if !seen.contains(h) {
                    owner.entry(*h).or_insert(i as u32);
                }
            }
        }
        drop(produced);
        info.k2_executed += owner.len() as u64;
        // phase B: each owner executes its documents once
        let parts: Vec<Stats> = k1
            .par_iter()
            .enumerate()
            .map(|(i, (op1, d, _))| {
                let mut st = Stats::default();
                let mut done: BTreeSet<u64> = BTreeSet::new();
                for (op2, _, d2) in mutants(&env.view, d) {
                    let t2 = d2.print();
                    let h = fnv64(&t2);
                    if owner.get(&h) == Some(&(i as u32)) && done.insert(h) {
                        f(&Case { env, doc: &d2, text: &t2, family: "k2", base: b.name, operators: &[*op1, op2] }, &mut st);
                    }
                }
                st
            })
            .collect();
        total = parts.into_iter().fold(total, Stats::merge);
    }
    // tiny scope (+ in the thorough tier its core variant one node deeper)
    let env = &envs[TINY_SCHEMA_INDEX];
    let mut scopes = vec![("tiny", TinyScope::new(info.tiny_max_nodes))];
    if tier == Tier::Thorough {
        scopes.push(("tiny-core", TinyScope::core_exact(info.tiny_max_nodes + 1)));
    }
    for (family, tiny) in &scopes {
        let items: Vec<(usize, usize)> = (0..tiny.n_items()).flat_map(|i| (0..TinyScope::SUBSHARDS).map(move |s| (i, s))).collect();
        let parts: Vec<(Stats, u64)> = items
            .par_iter()
            .map(|&(it, shard)| {
                let mut st = Stats::default();
                let mut n = 0u64;
                tiny.for_each_shard(it, shard, TinyScope::SUBSHARDS, &mut |d| {
                    n += 1;
                    let t = d.print();
                    f(&Case { env, doc: d, text: &t, family: *family, base: "tiny", operators: &[] }, &mut st);
                });
                (st, n)
            })
            .collect();
        for (st, n) in parts {
            if *family == "tiny" {
                info.tiny += n;
            } else {
                info.tiny_core += n;
            }
            total = total.merge(st);
        }
    }
    (total, info)
}

pub fn bounds_json(info: &SweepInfo) -> serde_json::Value {
    serde_json::json!({
        "base_pairs": info.bases,
        "mutation_operators": OPERATORS.len(),
        "k": info.k,
        "k1_mutants_distinct": info.k1,
        "k1_per_base": info.per_base_k1,
        "k2_mutants_generated": info.k2_generated,
        "k2_mutants_distinct_executed": info.k2_executed,
        "tiny_scope_max_selection_nodes": info.tiny_max_nodes,
        "tiny_scope_operations": info.tiny,
        "tiny_core_scope_operations_one_node_deeper": info.tiny_core,
        "tiny_core_scope": "thorough only: exactly max+1 selection nodes, no named fragments, no variables, arguments {none,(x:1),(x:[1]),(x:[1,2])}",
        "tiny_scope": "query[($v:[Int])] { i { MAIN } } + fragments F,G (on I|T|V) iff spread; selections: a|b|b:a|a:b × {none,(x:1),(x:2),(x:[1]),(x:[1,2]),(x:$v)}, ...F, ...G, inline fragments on (none)|I|T|V|U",
    })
}

/// A replay case is self-contained: schema text + document text, both in the harness printer's
/// form; this re-reads them with the harness's own reader.
pub fn replay_env_and_doc(case: &serde_json::Value) -> Result<(SchemaEnv, Document), String> {
    let sdl = case["schema"].as_str().ok_or("replay case has no schema")?;
    let text = case["document"].as_str().ok_or("replay case has no document")?;
    let env = SchemaEnv::new("replay", sdl)?;
    let doc = execval::text::parse(text)?;
    Ok((env, doc))
}

pub fn case_json(c: &Case<'_>) -> serde_json::Value {
    serde_json::json!({"schema": c.env.sdl, "document": c.text, "family": c.family, "base": c.base, "operators": c.operators})
}

#[cfg(test)]
mod tests {
    use super::*;

    #[test]
    fn identity_patches_keep_the_document_and_numbering_is_stable() {
        let envs = schema_envs();
        for b in base_pairs() {
            let view = &envs[b.schema].view;
            let mut scratch = b.doc.clone();
            let mut n = 0;
            let mut patches = vec![];
            walk_sites(view, &mut scratch, &mut |i, site| {
                assert_eq!(i, n);
                n += 1;
                patches.push(match site {
                    Site::Doc(d) => Patch::Doc(d.clone()),
                    Site::Op(d) => Patch::Op(d.clone()),
                    Site::Frag(d) => Patch::Frag(d.clone()),
                    Site::Var(d) => Patch::Var(d.clone()),
                    Site::Sels(d, _) => Patch::Sels(d.clone()),
                    Site::Sel(d, _) => Patch::Sel(d.clone()),
                    Site::Dirs(d, _) => Patch::Dirs(d.clone()),
                    Site::Args(d, _) => Patch::Args(d.clone()),
                    Site::Val(d, _, _) => Patch::Val(d.clone()),
                });
                false
            });
            assert_eq!(scratch, b.doc);
            for (i, p) in patches.into_iter().enumerate() {
                assert_eq!(apply_patch(view, &b.doc, i, p), b.doc, "{} site {i}", b.name);
            }
        }
    }

    #[test]
    fn bases_are_valid_for_the_reference_model_and_every_operator_is_used() {
        let envs = schema_envs();
        let mut used = BTreeSet::new();
        for b in base_pairs() {
            let r = execval::validate_with(&envs[b.schema].view, &b.doc, &execval::Params::default());
            assert!(r.is_valid(), "{}: {:?}", b.name, r.violations);
            for (op, _, d) in mutants(&envs[b.schema].view, &b.doc) {
                used.insert(op);
                // mutants print and re-read to themselves
                let t = d.print();
                assert_eq!(execval::text::parse(&t).map(|x| x.print()), Ok(t));
            }
        }
        for op in OPERATORS {
            assert!(used.contains(op), "operator {op} never applicable");
        }
        for op in &used {
            assert!(OPERATORS.contains(op), "operator {op} not listed");
        }
    }

    #[test]
    #[ignore]
    fn tiny_scope_sizes() {
        for n in 1..=5 {
            let t = TinyScope::new(n);
            let total: u64 = (0..t.n_items())
                .into_par_iter()
                .map(|it| {
                    let mut c = 0u64;
                    t.for_each(it, &mut |_| c += 1);
                    c
                })
                .sum();
            println!("tiny scope max_nodes={n}: {total} operations");
        }
    }

    #[test]
    fn tiny_scope_counts() {
        let t = TinyScope::new(2);
        let mut n = 0u64;
        let mut texts = BTreeSet::new();
        for it in 0..t.n_items() {
            t.for_each(it, &mut |d| {
                n += 1;
                texts.insert(d.print());
            });
        }
        assert_eq!(n as usize, texts.len(), "tiny scope enumerates a document twice");
        assert!(texts.contains("query { i { a b: a } }"));
        assert!(texts.contains("query { i { ...F } }\nfragment F on T { a }"));
        assert!(texts.contains("query($v: [Int]) { i { ... on V { a(x: $v) } } }"));
    }
}
