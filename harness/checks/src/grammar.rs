//! Token-level input spaces of C05 (DESIGN.md §5.2, §6 C05) on top of `crate::parsing` (token
//! alphabet T, the small production documents): additional hand-written documents that complete
//! the coverage of the reference recogniser's production counters (all 19 directive locations,
//! keywords used as names, every alternative of every `extend` form), and a compact (u8-coded)
//! k-edit neighbourhood enumerator (delete / insert t∈T / replace by t∈T / swap neighbours,
//! k = 1 or 2, de-duplicated).
//! Every document is written as tokens separated by single spaces (no token contains a space).

pub use crate::parsing::T;

pub struct BaseDoc {
    pub name: &'static str,
    pub text: &'static str,
}

/// Hand-written grammatical documents that together use every production of the October 2021
/// grammar at least once (verified at run time with the recogniser's production counters).
pub const BASE_DOCS: &[BaseDoc] = &[
    BaseDoc { name: "exec-query", text:
        "query Q ( $ v : [ Int ! ] ! = [ 1 ] @ d ( a : 1 ) $ w : T ) @ d { b : a ( x : $ v y : 1.5 ) @ d ( z : \"s\" ) { a } ... F @ d ... on T @ d { a } ... { a } }" },
    BaseDoc { name: "exec-values", text:
        "mutation { a ( x : [ $ v [ ] { } ] y : { k : $ v l : { m : true } } z : E n : null f : false s : \"\"\"b\"\"\" i : 1 ) }" },
    BaseDoc { name: "exec-defs", text:
        "subscription S { a } fragment F on T @ d { a } { a }" },
    BaseDoc { name: "const-values", text:
        "query ( $ v : I = { a : [ 1 1.5 \"s\" \"\"\"b\"\"\" true false null E [ ] { } ] } ) { a }" },
    BaseDoc { name: "schema", text:
        "\"s\" schema @ d { query : Q mutation : M subscription : S } extend schema @ d extend schema { query : Q } extend schema @ d { mutation : M }" },
    BaseDoc { name: "scalar-union", text:
        "\"\"\"b\"\"\" scalar S @ d ( a : 1 ) scalar R extend scalar S @ d union U @ d = | A | B union V = A union W extend union U = C extend union U @ d extend union U @ d = | A" },
    BaseDoc { name: "object", text:
        "\"s\" type T implements & I & J @ d { \"s\" a ( \"s\" x : Int = 1 @ d y : [ Int ] ! ) : [ T ! ] @ d b : Int } type E type F implements I extend type T { c : Int } extend type T @ d extend type T implements I extend type T implements I @ d { a : Int ! }" },
    BaseDoc { name: "interface", text:
        "\"s\" interface I implements J @ d { a : Int } interface K interface L implements & J & M extend interface I { b : Int } extend interface I @ d extend interface I implements J" },
    BaseDoc { name: "enum", text:
        "\"s\" enum E @ d { \"s\" A @ d B } enum N extend enum E { C } extend enum E @ d extend enum E @ d { D }" },
    BaseDoc { name: "input", text:
        "\"s\" input In @ d { \"s\" a : Int = 1 @ d b : [ In ! ] ! = [ { a : 1 } ] } input J extend input In { c : Int } extend input In @ d" },
    BaseDoc { name: "directive", text:
        "\"s\" directive @ d ( a : Int = 1 ) repeatable on | QUERY | MUTATION | SUBSCRIPTION | FIELD | FRAGMENT_DEFINITION | FRAGMENT_SPREAD | INLINE_FRAGMENT | VARIABLE_DEFINITION | SCHEMA | SCALAR | OBJECT | FIELD_DEFINITION | ARGUMENT_DEFINITION | INTERFACE | UNION | ENUM | ENUM_VALUE | INPUT_OBJECT | INPUT_FIELD_DEFINITION directive @ e on FIELD" },
    BaseDoc { name: "keywords-as-names", text:
        "query query ( $ on : type = fragment ) { query : mutation ( schema : extend ) { ... fragment ... on on { on } } } fragment fragment on on { a } type type implements implements { type ( input : input ) : type } enum enum { enum on } directive @ repeatable repeatable on FIELD input input { input : input } union union = union scalar scalar interface interface { interface : interface }" },
    // ---- small, boundary-dense (the 2-edit neighbourhood is explored for documents up to a token bound)
    BaseDoc { name: "s-anon", text: "{ a }" },
    BaseDoc { name: "s-query", text: "query a ( $ a : a = 1 ) { a ( a : $ a ) }" },
    BaseDoc { name: "s-spreads", text: "{ ... a ... on a { a } }" },
    BaseDoc { name: "s-fragment", text: "fragment a on a @ a ( a : [ $ a ] ) { a }" },
    BaseDoc { name: "s-object", text: "type a implements a & a { a ( a : a ) : [ a ! ] }" },
    BaseDoc { name: "s-extend-object", text: "extend type a implements a @ a" },
    BaseDoc { name: "s-directive", text: "\"s\" directive @ a repeatable on FIELD | QUERY" },
    BaseDoc { name: "s-extend-schema", text: "extend schema @ a { query : a }" },
    BaseDoc { name: "s-union", text: "union a = | a | a extend union a = a" },
    BaseDoc { name: "s-enum", text: "enum a { \"s\" a @ a } extend enum a @ a" },
    BaseDoc { name: "s-input", text: "input a { a : a = { a : [ 1 ] } @ a }" },
    BaseDoc { name: "s-scalar-then-op", text: "\"\"\"b\"\"\" scalar a @ a ( a : null ) { a }" },
    BaseDoc { name: "s-schema-interface", text: "schema { query : a } interface a { a : a ! }" },
    BaseDoc { name: "s-vardef-directive", text: "query ( $ a : a = [ 1 ] @ a ( a : true ) ) { a }" },
    // zero literals in front of a Name, a punctuator and a string (the lexer's look-ahead after `0` / `-0`)
    BaseDoc { name: "s-zero-literals", text: "{ a ( a : 0 b : -0 c : [ 0 E 0.5 ] d : { a : 0 b : \"s\" } ) }" },
];

/// Boundary documents: the fine points of DESIGN A.2 written out, most of them one step
/// OUTSIDE the grammar (an emptied `+` list, an `extend` form without components, a variable in
/// a Const context, a description where none is allowed, …), a few just inside. They are
/// explored like the base documents (the document itself and its k-edit neighbourhood); the
/// reference recogniser decides on which side each one is.
pub const BOUNDARY_DOCS: &[&str] = &[
    // emptied `+` lists
    "{ }",
    "{ a { } }",
    "{ a ( ) }",
    "{ a @ a ( ) }",
    "query ( ) { a }",
    "type a { }",
    "type a { a ( ) : a }",
    "interface a { }",
    "enum a { }",
    "input a { }",
    "schema { }",
    "extend schema { }",
    "directive @ a ( ) on FIELD",
    "scalar a @ a ( )",
    "extend type a { }",
    "extend enum a { }",
    "extend input a { }",
    // lists that may be empty
    "{ a ( a : [ ] a : { } ) }",
    "query ( $ a : a = [ ] $ a : a = { } ) { a }",
    // `extend` forms without components
    "extend schema",
    "extend scalar a",
    "extend type a",
    "extend interface a",
    "extend union a",
    "extend enum a",
    "extend input a",
    // descriptions where the grammar has none
    "\"s\" { a }",
    "\"s\" query { a }",
    "\"s\" fragment a on a { a }",
    "\"s\" extend type a @ a",
    "\"s\" extend schema @ a",
    "\"s\" \"s\" type a",
    "{ \"s\" a }",
    "schema { \"s\" query : a }",
    "query ( \"s\" $ a : a ) { a }",
    "union a = \"s\" a",
    // FragmentName / EnumValue restrictions
    "fragment on on a { a }",
    "{ ... on }",
    "{ ... on on { a } }",
    "enum a { true }",
    "enum a { false }",
    "enum a { null }",
    "{ a ( a : true a : null a : on ) }",
    // Const contexts
    "query ( $ a : a = $ a ) { a }",
    "query ( $ a : a = [ $ a ] ) { a }",
    "query ( $ a : a = [ [ $ a ] ] ) { a }",
    "query ( $ a : a = { a : $ a } ) { a }",
    "query ( $ a : a = { a : [ $ a ] } ) { a }",
    "query ( $ a : a @ a ( a : $ a ) ) { a }",
    "type a @ a ( a : $ a )",
    "type a { a ( a : a = $ a ) : a }",
    "type a { a ( a : a @ a ( a : [ $ a ] ) ) : a }",
    "type a { a : a @ a ( a : $ a ) }",
    "scalar a @ a ( a : $ a )",
    "schema @ a ( a : $ a ) { query : a }",
    "enum a { a @ a ( a : $ a ) }",
    "input a { a : a = { a : $ a } }",
    "directive @ a ( a : a = $ a ) on FIELD",
    "extend type a @ a ( a : $ a )",
    "fragment a on a @ a ( a : $ a ) { a }",
    // separators: leading / trailing / doubled
    "type a implements & a",
    "type a implements",
    "type a implements a &",
    "type a implements a a",
    "union a = | a",
    "union a =",
    "union a = a |",
    "directive @ a on | FIELD",
    "directive @ a on",
    "directive @ a on FIELD |",
    // directive definitions
    "directive @ a FIELD",
    "directive a on FIELD",
    "directive @ a on a",
    "directive @ a on repeatable FIELD",
    "directive @ a repeatable repeatable on FIELD",
    // missing mandatory pieces
    "type a { a }",
    "type a { a : }",
    "type a { a ( a ) : a }",
    "input a { a }",
    "query ( $ a ) { a }",
    "query ( $ a : ) { a }",
    "query ( $ a : a = ) { a }",
    "{ a : }",
    "{ a ( a : ) }",
    "{ a @ }",
    "fragment a { a }",
    "fragment a on { a }",
    "fragment a on a",
    "schema { query a }",
    "schema a { query : a }",
    "query a",
    "scalar",
    "union = a",
    "type a { a : a ! ! }",
    "type a { a : [ a }",
    "type a { a : [ ] }",
    // definitions that cannot take a `{`
    "scalar a { a }",
    "union a { a }",
    "union a = a { a }",
    "type a { a } { a }",
];

/// A document's vocabulary: T (indices 0..41) followed by the document's other tokens in order
/// of first appearance; and the document as indices into it.
pub fn encode(text: &'static str) -> (Vec<&'static str>, Vec<u8>) {
    assert!(T.len() == 41);
    let mut vocab: Vec<&'static str> = T.to_vec();
    let mut seq = Vec::new();
    for tok in text.split(' ') {
        assert!(!tok.is_empty(), "base documents are single-space separated");
        let i = match vocab.iter().position(|t| *t == tok) {
            Some(i) => i,
            None => {
                vocab.push(tok);
                vocab.len() - 1
            }
        };
        assert!(i < 255);
        seq.push(i as u8);
    }
    (vocab, seq)
}

pub fn render(vocab: &[&str], seq: &[u8], out: &mut String) {
    out.clear();
    for (n, &i) in seq.iter().enumerate() {
        if n > 0 {
            out.push(' ');
        }
        out.push_str(vocab[i as usize]);
    }
}

/// Every single-token edit of `seq`: delete at every position, insert every t∈T at every gap,
/// replace every position by every other t∈T, swap every pair of unequal neighbours.
pub fn edits1(seq: &[u8], out: &mut Vec<Vec<u8>>) {
    let n = seq.len();
    let nt = T.len() as u8;
    for i in 0..n {
        let mut v = seq.to_vec();
        v.remove(i);
        out.push(v);
    }
    for i in 0..=n {
        for t in 0..nt {
            let mut v = Vec::with_capacity(n + 1);
            v.extend_from_slice(&seq[..i]);
            v.push(t);
            v.extend_from_slice(&seq[i..]);
            out.push(v);
        }
    }
    for i in 0..n {
        for t in 0..nt {
            if seq[i] != t {
                let mut v = seq.to_vec();
                v[i] = t;
                out.push(v);
            }
        }
    }
    for i in 0..n.saturating_sub(1) {
        if seq[i] != seq[i + 1] {
            let mut v = seq.to_vec();
            v.swap(i, i + 1);
            out.push(v);
        }
    }
}

/// All distinct token sequences within `k` (1 or 2) single-token edits of `base` (the base
/// itself included), sorted.
pub fn neighbourhood(base: &[u8], k: u32) -> Vec<Vec<u8>> {
    use rayon::prelude::*;
    let mut l1 = vec![base.to_vec()];
    edits1(base, &mut l1);
    l1.par_sort_unstable();
    l1.dedup();
    if k <= 1 {
        return l1;
    }
    let mut l2: Vec<Vec<u8>> = l1
        .par_iter()
        .flat_map_iter(|s| {
            let mut o = Vec::new();
            edits1(s, &mut o);
            o
        })
        .collect();
    l2.extend(l1);
    l2.par_sort_unstable();
    l2.dedup();
    l2
}

#[cfg(test)]
mod tests {
    use super::*;
    #[test]
    fn alphabet_and_docs() {
        let mut t = T.to_vec();
        t.sort();
        t.dedup();
        assert_eq!(t.len(), 41);
        for d in BASE_DOCS {
            let (_, seq) = encode(d.text);
            assert!(!seq.is_empty(), "{}", d.name);
        }
    }
    #[test]
    fn edit_counts() {
        // n deletes + (n+1)*41 inserts + replaces + swaps
        let (_, seq) = encode("{ a }");
        let mut o = Vec::new();
        edits1(&seq, &mut o);
        assert_eq!(o.len(), 3 + 4 * 41 + 3 * 40 + 2);
        let nb = neighbourhood(&seq, 1);
        assert!(nb.contains(&seq));
        assert!(nb.len() <= o.len() + 1);
    }
}
