//! E-HIST shared code (DESIGN.md §4 E-HIST; used by C12, C13, C16).
//!
//! * the menu of colliding definition / extension source texts, with a hand-written structural
//!   description of every item (what it defines or extends, how many components of each kind it
//!   contributes) — the predictive classifiers of C12 / C13 reason on these descriptions, i.e. on
//!   the *input history*, never on apollo's output;
//! * history enumeration (index-addressed, length-then-lexicographic = breadth-first order),
//!   contiguous splits and definition relocations;
//! * replay of a history on fresh real objects (`Schema::builder()`);
//! * the order-sensitive schema fingerprint;
//! * deterministic index-sharded sweep with a mergeable side accumulator, and a level-synchronous
//!   BFS with de-duplication on a canonical state.

use apollo_compiler::ast;
use apollo_compiler::schema::{Component, ExtendedType};
use apollo_compiler::Schema;
use rayon::prelude::*;
use std::collections::BTreeSet;
use std::fmt::Write;
use vcore::{enumerate as en, Stats};

// ---------------------------------------------------------------------------------------------
// Menu
// ---------------------------------------------------------------------------------------------

#[derive(Clone, Copy, PartialEq, Eq, Debug)]
pub enum Kind {
    Scalar,
    Object,
    Interface,
    Union,
    Enum,
    Input,
    Schema,
    Directive,
}

impl Kind {
    /// apollo's wording in `TypeExtensionKindMismatch` ("adding {ext}, but `X` is {def}").
    pub fn describe_def(self) -> &'static str {
        match self {
            Kind::Scalar => "a scalar type",
            Kind::Object => "an object type",
            Kind::Interface => "an interface type",
            Kind::Union => "a union type",
            Kind::Enum => "an enum type",
            Kind::Input => "an input object type",
            Kind::Schema => "a schema",
            Kind::Directive => "a directive",
        }
    }
    pub fn describe_ext(self) -> &'static str {
        match self {
            Kind::Scalar => "a scalar type extension",
            Kind::Object => "an object type extension",
            Kind::Interface => "an interface type extension",
            Kind::Union => "a union type extension",
            Kind::Enum => "an enum type extension",
            Kind::Input => "an input object type extension",
            Kind::Schema => "a schema extension",
            Kind::Directive => "a directive",
        }
    }
}

#[derive(Clone, Copy, PartialEq, Eq, Debug)]
pub enum Role {
    Def,
    Ext,
}

/// One menu entry: a source text plus its structure as the harness sees it.
#[derive(Clone, Copy, Debug)]
pub struct Item {
    pub text: &'static str,
    pub role: Role,
    pub kind: Kind,
    /// type name; `"schema"` for schema definition / extensions; `"@name"` for directive definitions
    pub target: &'static str,
    /// number of directive applications the item contributes to its target
    pub ndirs: usize,
    /// number of `implements` entries
    pub nifaces: usize,
    /// number of fields / enum values / union members / input fields / root operations
    pub nmembers: usize,
}

const fn it(
    text: &'static str,
    role: Role,
    kind: Kind,
    target: &'static str,
    ndirs: usize,
    nifaces: usize,
    nmembers: usize,
) -> Item {
    Item { text, role, kind, target, ndirs, nifaces, nmembers }
}

/// The first `C12_MENU` entries are DESIGN §6 C12's 22-item menu; the remaining four are the
/// kind-mismatched and duplicate items C13 adds.
pub const C12_MENU: usize = 22;
pub const MENU: &[Item] = &[
    it("type Q{f:Int}", Role::Def, Kind::Object, "Q", 0, 0, 1),
    it("extend type Q{a:Int}", Role::Ext, Kind::Object, "Q", 0, 0, 1),
    it("extend type Q @d{b:Int}", Role::Ext, Kind::Object, "Q", 1, 0, 1),
    it("extend type Q implements I", Role::Ext, Kind::Object, "Q", 0, 1, 0),
    it("interface I{f:Int}", Role::Def, Kind::Interface, "I", 0, 0, 1),
    it("extend interface I @d", Role::Ext, Kind::Interface, "I", 1, 0, 0),
    it("type R{r(x:Int y:Int=1):Int}", Role::Def, Kind::Object, "R", 0, 0, 1),
    it("union U=Q", Role::Def, Kind::Union, "U", 0, 0, 1),
    it("extend union U=R", Role::Ext, Kind::Union, "U", 0, 0, 1),
    it("enum E{A}", Role::Def, Kind::Enum, "E", 0, 0, 1),
    it("extend enum E{B}", Role::Ext, Kind::Enum, "E", 0, 0, 1),
    it("extend enum E @d", Role::Ext, Kind::Enum, "E", 1, 0, 0),
    it("input In{x:Int}", Role::Def, Kind::Input, "In", 0, 0, 1),
    it("extend input In{y:Int}", Role::Ext, Kind::Input, "In", 0, 0, 1),
    it("scalar S", Role::Def, Kind::Scalar, "S", 0, 0, 0),
    it("extend scalar S @d", Role::Ext, Kind::Scalar, "S", 1, 0, 0),
    it("schema{query:Q}", Role::Def, Kind::Schema, "schema", 0, 0, 1),
    it("extend schema @d", Role::Ext, Kind::Schema, "schema", 1, 0, 0),
    it("extend schema{mutation:R}", Role::Ext, Kind::Schema, "schema", 0, 0, 1),
    it(
        "directive @d repeatable on OBJECT|INTERFACE|ENUM|SCALAR|SCHEMA",
        Role::Def,
        Kind::Directive,
        "@d",
        0,
        0,
        0,
    ),
    it(
        "directive @skip(if:Boolean!,why:String=\"x\") on FIELD|FRAGMENT_SPREAD",
        Role::Def,
        Kind::Directive,
        "@skip",
        0,
        0,
        0,
    ),
    it("type Query{q:Int}", Role::Def, Kind::Object, "Query", 0, 0, 1),
    // --- C13 only: kind mismatch, duplicate member, second definitions
    it("extend union Q=R", Role::Ext, Kind::Union, "Q", 0, 0, 1),
    it("extend enum E{A}", Role::Ext, Kind::Enum, "E", 0, 0, 1),
    it("type Q{g:Int}", Role::Def, Kind::Object, "Q", 0, 0, 1),
    it("schema{query:R}", Role::Def, Kind::Schema, "schema", 0, 0, 1),
    it("extend schema{query:R}", Role::Ext, Kind::Schema, "schema", 0, 0, 1),
];

/// Start-up self-test: the hand-written item descriptions agree with the syntax of the texts
/// (checked with apollo's AST parser; a disagreement is a harness bug, i.e. a machinery error).
pub fn menu_self_test(menu: &[Item]) -> Result<(), String> {
    use ast::Definition as D;
    for (i, item) in menu.iter().enumerate() {
        let doc = ast::Document::parse(item.text, "menu.graphql")
            .map_err(|e| format!("menu item {i} {:?} does not parse: {}", item.text, e.errors))?;
        if doc.definitions.len() != 1 {
            return Err(format!("menu item {i} is not exactly one definition"));
        }
        let (role, kind, target, nd, ni, nm): (Role, Kind, String, usize, usize, usize) =
            match &doc.definitions[0] {
                D::ObjectTypeDefinition(d) => (
                    Role::Def,
                    Kind::Object,
                    d.name.to_string(),
                    d.directives.len(),
                    d.implements_interfaces.len(),
                    d.fields.len(),
                ),
                D::ObjectTypeExtension(d) => (
                    Role::Ext,
                    Kind::Object,
                    d.name.to_string(),
                    d.directives.len(),
                    d.implements_interfaces.len(),
                    d.fields.len(),
                ),
                D::InterfaceTypeDefinition(d) => (
                    Role::Def,
                    Kind::Interface,
                    d.name.to_string(),
                    d.directives.len(),
                    d.implements_interfaces.len(),
                    d.fields.len(),
                ),
                D::InterfaceTypeExtension(d) => (
                    Role::Ext,
                    Kind::Interface,
                    d.name.to_string(),
                    d.directives.len(),
                    d.implements_interfaces.len(),
                    d.fields.len(),
                ),
                D::UnionTypeDefinition(d) => {
                    (Role::Def, Kind::Union, d.name.to_string(), d.directives.len(), 0, d.members.len())
                }
                D::UnionTypeExtension(d) => {
                    (Role::Ext, Kind::Union, d.name.to_string(), d.directives.len(), 0, d.members.len())
                }
                D::EnumTypeDefinition(d) => {
                    (Role::Def, Kind::Enum, d.name.to_string(), d.directives.len(), 0, d.values.len())
                }
                D::EnumTypeExtension(d) => {
                    (Role::Ext, Kind::Enum, d.name.to_string(), d.directives.len(), 0, d.values.len())
                }
                D::InputObjectTypeDefinition(d) => {
                    (Role::Def, Kind::Input, d.name.to_string(), d.directives.len(), 0, d.fields.len())
                }
                D::InputObjectTypeExtension(d) => {
                    (Role::Ext, Kind::Input, d.name.to_string(), d.directives.len(), 0, d.fields.len())
                }
                D::ScalarTypeDefinition(d) => {
                    (Role::Def, Kind::Scalar, d.name.to_string(), d.directives.len(), 0, 0)
                }
                D::ScalarTypeExtension(d) => {
                    (Role::Ext, Kind::Scalar, d.name.to_string(), d.directives.len(), 0, 0)
                }
                D::SchemaDefinition(d) => (
                    Role::Def,
                    Kind::Schema,
                    "schema".to_string(),
                    d.directives.len(),
                    0,
                    d.root_operations.len(),
                ),
                D::SchemaExtension(d) => (
                    Role::Ext,
                    Kind::Schema,
                    "schema".to_string(),
                    d.directives.len(),
                    0,
                    d.root_operations.len(),
                ),
                D::DirectiveDefinition(d) => {
                    (Role::Def, Kind::Directive, format!("@{}", d.name), 0, 0, 0)
                }
                D::OperationDefinition(_) | D::FragmentDefinition(_) => {
                    return Err(format!("menu item {i} is an executable definition"))
                }
            };
        let ok = role == item.role
            && kind == item.kind
            && target == item.target
            && nd == item.ndirs
            && ni == item.nifaces
            && nm == item.nmembers;
        if !ok {
            return Err(format!(
                "menu item {i} {:?}: described as {:?}, syntax says {:?}",
                item.text,
                (item.role, item.kind, item.target, item.ndirs, item.nifaces, item.nmembers),
                (role, kind, target, nd, ni, nm)
            ));
        }
    }
    Ok(())
}

// ---------------------------------------------------------------------------------------------
// Histories
// ---------------------------------------------------------------------------------------------

/// Number of histories of length `0..=depth` over a `k`-item menu.
pub fn history_count(k: usize, depth: u32) -> u64 {
    en::count_upto(k as u64, depth)
}

/// The `idx`-th history in breadth-first (length, then lexicographic) order.
pub fn nth_history(k: usize, idx: u64, out: &mut Vec<usize>) {
    en::nth_upto(k as u64, idx, out)
}

pub fn history_texts(menu: &[Item], hist: &[usize]) -> Vec<&'static str> {
    hist.iter().map(|&i| menu[i].text).collect()
}

/// The history as one source text (items separated by a newline).
pub fn render_history(menu: &[Item], hist: &[usize]) -> String {
    history_texts(menu, hist).join("\n")
}

/// Compact rendering for witnesses.
pub fn show_history(menu: &[Item], hist: &[usize]) -> String {
    history_texts(menu, hist).join(" ; ")
}

/// Cut a list of item texts into contiguous source texts: bit `i` of `mask` set = a source-file
/// boundary after item `i`. `mask` ranges over `0 .. 2^(n-1)`; mask 0 is the concatenation.
pub fn split_texts(texts: &[&str], mask: u32) -> Vec<String> {
    let mut out = Vec::new();
    let mut cur = String::new();
    for (i, t) in texts.iter().enumerate() {
        if !cur.is_empty() {
            cur.push('\n');
        }
        cur.push_str(t);
        if i + 1 == texts.len() || mask & (1 << i) != 0 {
            out.push(std::mem::take(&mut cur));
        }
    }
    out
}

pub fn split_count(n: usize) -> u32 {
    if n == 0 {
        1
    } else {
        1 << (n - 1)
    }
}

/// One definition relocation (DESIGN §6 C13 (ii)).
#[derive(Clone, Debug)]
pub struct Relocation {
    /// position of the moved definition in the original history
    pub from: usize,
    /// position (in the original history) of the extension it is moved behind
    pub after: usize,
    /// the relocated history
    pub hist: Vec<usize>,
    /// positions *in the relocated history* of extensions of the same target that now precede
    /// the definition although they followed it before
    pub jumped_exts: Vec<usize>,
}

/// All definition relocations of `hist`: for every type or schema definition D of X that is
/// followed by extensions of X, D moved to just after the k-th of them — D jumps only over items
/// that are not definitions, and no extension moves relative to another extension.
pub fn relocations(menu: &[Item], hist: &[usize]) -> Vec<Relocation> {
    let mut out = Vec::new();
    for (i, &di) in hist.iter().enumerate() {
        let d = &menu[di];
        if d.role != Role::Def || d.kind == Kind::Directive {
            continue;
        }
        let mut jumped = Vec::new();
        for j in i + 1..hist.len() {
            let e = &menu[hist[j]];
            if e.role == Role::Def {
                break;
            }
            if e.target == d.target {
                // extension of X (of whatever kind): D may be put right behind it
                jumped.push(j - 1); // its position once D has been removed from in front of it
                let mut h: Vec<usize> = Vec::with_capacity(hist.len());
                h.extend_from_slice(&hist[..i]);
                h.extend_from_slice(&hist[i + 1..=j]);
                h.push(di);
                h.extend_from_slice(&hist[j + 1..]);
                out.push(Relocation { from: i, after: j, hist: h, jumped_exts: jumped.clone() });
            }
        }
    }
    out
}

/// All *extension* relocations of `hist`: an extension X of a type (or of the schema) that stands
/// before the first following definition D of its target is moved to just behind D, provided no
/// other extension of the same target lies between X and D (same-target extensions never change
/// their relative order) and X does not jump over a definition of another target. This is the
/// statement's "moving an extension before its definition instead of after it", with everything
/// else (extensions of other, possibly never-defined, types) staying where it is.
/// Returns (position of X, position of D, relocated history).
pub fn ext_relocations(menu: &[Item], hist: &[usize]) -> Vec<(usize, usize, Vec<usize>)> {
    let mut out = Vec::new();
    for (p, &xi) in hist.iter().enumerate() {
        let x = &menu[xi];
        if x.role != Role::Ext {
            continue;
        }
        // an earlier definition of the target: X is not an orphan on arrival
        if hist[..p].iter().any(|&j| menu[j].role == Role::Def && menu[j].target == x.target) {
            continue;
        }
        for d in p + 1..hist.len() {
            let e = &menu[hist[d]];
            if e.target == x.target {
                if e.role == Role::Def && e.kind != Kind::Directive {
                    let mut h: Vec<usize> = Vec::with_capacity(hist.len());
                    h.extend_from_slice(&hist[..p]);
                    h.extend_from_slice(&hist[p + 1..=d]);
                    h.push(xi);
                    h.extend_from_slice(&hist[d + 1..]);
                    out.push((p, d, h));
                }
                break; // another extension of the same target, or the definition: stop
            }
            if e.role == Role::Def && e.kind != Kind::Directive {
                break; // do not jump over a definition of another target (type-map order)
            }
        }
    }
    out
}

// ---------------------------------------------------------------------------------------------
// Replay on real objects
// ---------------------------------------------------------------------------------------------

pub struct Built {
    pub schema: Schema,
    /// diagnostic messages in the order apollo reports them
    pub messages: Vec<String>,
}

impl Built {
    pub fn ok(&self) -> bool {
        self.messages.is_empty()
    }
}

/// Add the source texts one after another to a fresh `Schema::builder()` and build.
pub fn build_sources<S: AsRef<str>>(texts: &[S]) -> Built {
    let mut b = Schema::builder();
    for (i, t) in texts.iter().enumerate() {
        b = b.parse(t.as_ref(), format!("s{i}.graphql"));
    }
    match b.build() {
        Ok(schema) => Built { schema, messages: Vec::new() },
        Err(e) => Built {
            messages: e.errors.iter().map(|d| d.error.to_string()).collect(),
            schema: e.partial,
        },
    }
}

pub fn sorted(mut v: Vec<String>) -> Vec<String> {
    v.sort();
    v
}

// ---------------------------------------------------------------------------------------------
// Order-sensitive fingerprint
// ---------------------------------------------------------------------------------------------

/// What the harness observes of one type (or of the schema definition): every list in the
/// iteration order of apollo's collections.
#[derive(Clone, PartialEq, Eq, Debug, Default)]
pub struct TypeFp {
    pub name: String,
    /// kind, description, built-in flag
    pub head: String,
    pub dirs: Vec<String>,
    pub ifaces: Vec<String>,
    /// fields (with their arguments in order) / enum values / union members / input fields /
    /// root operations
    pub members: Vec<String>,
}

#[derive(Clone, PartialEq, Eq, Debug, Default)]
pub struct SchemaFp {
    pub schema_def: TypeFp,
    /// directive definitions in map order (built-in ones by name only)
    pub directive_defs: Vec<String>,
    /// types in map order
    pub types: Vec<TypeFp>,
}

fn desc(d: &Option<apollo_compiler::Node<str>>) -> String {
    match d {
        Some(s) => format!("{:?}", &**s),
        None => "-".to_string(),
    }
}

fn input_value(out: &mut String, v: &ast::InputValueDefinition) {
    let _ = write!(out, "{}:{}", v.name, *v.ty);
    if v.description.is_some() {
        let _ = write!(out, " desc={}", desc(&v.description));
    }
    if let Some(dv) = &v.default_value {
        let _ = write!(out, "={}", **dv);
    }
    for d in v.directives.iter() {
        let _ = write!(out, " {}", **d);
    }
}

fn field(f: &ast::FieldDefinition) -> String {
    let mut out = String::new();
    out.push_str(f.name.as_str());
    if f.description.is_some() {
        let _ = write!(out, " desc={}", desc(&f.description));
    }
    out.push('(');
    for (i, a) in f.arguments.iter().enumerate() {
        if i > 0 {
            out.push(',');
        }
        input_value(&mut out, a);
    }
    let _ = write!(out, "):{}", f.ty);
    for d in f.directives.iter() {
        let _ = write!(out, " {}", **d);
    }
    out
}

fn dirs_of(list: &apollo_compiler::schema::DirectiveList) -> Vec<String> {
    list.iter().map(|d: &Component<ast::Directive>| d.node.to_string()).collect()
}

fn directive_def(d: &ast::DirectiveDefinition) -> String {
    let mut out = format!("@{} desc={} (", d.name, desc(&d.description));
    for (i, a) in d.arguments.iter().enumerate() {
        if i > 0 {
            out.push(',');
        }
        input_value(&mut out, a);
    }
    out.push(')');
    if d.repeatable {
        out.push_str(" repeatable");
    }
    out.push_str(" on");
    for l in &d.locations {
        let _ = write!(out, " {l}");
    }
    out
}

/// `detail_builtins`: render built-in types (introspection types, built-in scalars) in full
/// instead of by name and kind only.
pub fn fingerprint(s: &Schema, detail_builtins: bool) -> SchemaFp {
    let sd = &s.schema_definition;
    let schema_def = TypeFp {
        name: "schema".into(),
        head: format!("schema desc={}", desc(&sd.description)),
        dirs: dirs_of(&sd.directives),
        ifaces: Vec::new(),
        members: sd.iter_root_operations().map(|(op, name)| format!("{op}:{}", name.name)).collect(),
    };
    let directive_defs = s
        .directive_definitions
        .iter()
        .map(|(k, d)| {
            if d.is_built_in() && !detail_builtins {
                format!("builtin @{k}")
            } else {
                format!("{k}={}", directive_def(d))
            }
        })
        .collect();
    let types = s
        .types
        .iter()
        .map(|(k, t)| {
            let kind = match t {
                ExtendedType::Scalar(_) => "scalar",
                ExtendedType::Object(_) => "type",
                ExtendedType::Interface(_) => "interface",
                ExtendedType::Union(_) => "union",
                ExtendedType::Enum(_) => "enum",
                ExtendedType::InputObject(_) => "input",
            };
            let builtin = t.is_built_in();
            let mut fp = TypeFp {
                name: k.to_string(),
                head: format!(
                    "{kind} {}{} desc={}",
                    t.name(),
                    if builtin { " builtin" } else { "" },
                    if builtin && !detail_builtins { "-".to_string() } else { desc(&t.description().cloned()) }
                ),
                ..Default::default()
            };
            if builtin && !detail_builtins {
                return fp;
            }
            fp.dirs = dirs_of(t.directives());
            match t {
                ExtendedType::Scalar(_) => {}
                ExtendedType::Object(o) => {
                    fp.ifaces = o.implements_interfaces.iter().map(|c| c.name.to_string()).collect();
                    fp.members = o.fields.iter().map(|(k, f)| format!("{k}={}", field(f))).collect();
                }
                ExtendedType::Interface(o) => {
                    fp.ifaces = o.implements_interfaces.iter().map(|c| c.name.to_string()).collect();
                    fp.members = o.fields.iter().map(|(k, f)| format!("{k}={}", field(f))).collect();
                }
                ExtendedType::Union(u) => {
                    fp.members = u.members.iter().map(|c| c.name.to_string()).collect();
                }
                ExtendedType::Enum(e) => {
                    fp.members = e
                        .values
                        .iter()
                        .map(|(k, v)| {
                            let mut out = format!("{k}={}", v.value);
                            if v.description.is_some() {
                                let _ = write!(out, " desc={}", desc(&v.description));
                            }
                            for d in v.directives.iter() {
                                let _ = write!(out, " {}", **d);
                            }
                            out
                        })
                        .collect();
                }
                ExtendedType::InputObject(o) => {
                    fp.members = o
                        .fields
                        .iter()
                        .map(|(k, v)| {
                            let mut out = format!("{k}=");
                            input_value(&mut out, v);
                            out
                        })
                        .collect();
                }
            }
            fp
        })
        .collect();
    SchemaFp { schema_def, directive_defs, types }
}

impl TypeFp {
    fn render_into(&self, out: &mut String) {
        let _ = writeln!(
            out,
            "{} [{}] dirs[{}] implements[{}] members[{}]",
            self.name,
            self.head,
            self.dirs.join(" "),
            self.ifaces.join(" "),
            self.members.join(" | ")
        );
    }
    /// Short rendering for messages: only the ordered lists.
    pub fn brief(&self) -> String {
        format!(
            "{} dirs[{}] implements[{}] members[{}]",
            self.name,
            self.dirs.join(" "),
            self.ifaces.join(" "),
            self.members.join(" | ")
        )
    }
}

impl SchemaFp {
    pub fn render(&self) -> String {
        let mut out = String::new();
        self.schema_def.render_into(&mut out);
        for d in &self.directive_defs {
            let _ = writeln!(out, "directive {d}");
        }
        for t in &self.types {
            t.render_into(&mut out);
        }
        out
    }
    pub fn hash(&self) -> u128 {
        fnv128(self.render().as_bytes())
    }
    /// First point where two fingerprints differ, for messages.
    pub fn first_difference(&self, other: &SchemaFp) -> String {
        if self.schema_def != other.schema_def {
            return format!("schema definition: {} vs {}", self.schema_def.brief(), other.schema_def.brief());
        }
        if self.directive_defs != other.directive_defs {
            return format!("directive definitions: {:?} vs {:?}", self.directive_defs, other.directive_defs);
        }
        let a: Vec<&str> = self.types.iter().map(|t| t.name.as_str()).collect();
        let b: Vec<&str> = other.types.iter().map(|t| t.name.as_str()).collect();
        if a != b {
            return format!("type order: {a:?} vs {b:?}");
        }
        for (x, y) in self.types.iter().zip(&other.types) {
            if x != y {
                if x.head != y.head {
                    return format!("type {}: {} vs {}", x.name, x.head, y.head);
                }
                return format!("type {} vs {}", x.brief(), y.brief());
            }
        }
        "(equal)".into()
    }
}

/// FNV-1a, 128 bit (canonical-state identity for the `seen` sets; the full rendering is far
/// longer than needed to keep).
pub fn fnv128(bytes: &[u8]) -> u128 {
    let mut h: u128 = 0x6c62272e07bb014262b821756295c58d;
    for &b in bytes {
        h ^= b as u128;
        h = h.wrapping_mul(0x0000000001000000000000000000013b);
    }
    h
}

// ---------------------------------------------------------------------------------------------
// C12 known-finding model: extension discovery order
// ---------------------------------------------------------------------------------------------

/// Reorder the per-extension blocks of one component list from history order to `order`.
/// `counts[e]` = how many entries extension `e` contributes; the definition's `ndef` entries stay
/// in front. Returns `None` if the list length is not what the history predicts.
fn reorder(list: &[String], ndef: usize, counts: &[usize], order: &[usize]) -> Option<Vec<String>> {
    if ndef + counts.iter().sum::<usize>() != list.len() {
        return None;
    }
    let mut starts = Vec::with_capacity(counts.len());
    let mut pos = ndef;
    for &c in counts {
        starts.push(pos);
        pos += c;
    }
    let mut out: Vec<String> = list[..ndef].to_vec();
    for &e in order {
        out.extend_from_slice(&list[starts[e]..starts[e] + counts[e]]);
    }
    // extensions that contribute nothing to any list do not exist syntactically; those not in
    // `order` contribute nothing to this list either
    if out.len() != list.len() {
        return None;
    }
    Some(out)
}

/// Model of the recorded defect `C12-extension-order`, computed from the *history* (the menu
/// items' hand-written shapes) and the fingerprint of the originally built schema:
/// `Schema::to_string` emits the extensions of a type in the order in which `extensions()`
/// discovers them — all directive origins first, then `implements` origins, then member origins —
/// instead of source order; re-parsing that text therefore yields, for every component list, the
/// definition's entries followed by the extensions' entries in discovery order.
///
/// Returns the fingerprint the round-tripped schema is predicted to have, or `None` when the
/// history does not describe the built schema (duplicates, missing definition …) — then nothing
/// is attributed to the finding.
pub fn predict_discovery_order_roundtrip(menu: &[Item], hist: &[usize], built: &SchemaFp) -> Option<SchemaFp> {
    let mut predicted = built.clone();
    for t in predicted.types.iter_mut() {
        let items: Vec<&Item> = hist
            .iter()
            .map(|&i| &menu[i])
            .filter(|it| it.target == t.name && it.kind != Kind::Schema && it.kind != Kind::Directive)
            .collect();
        if items.is_empty() {
            continue; // built-in or otherwise not from the history
        }
        let defs: Vec<&&Item> = items.iter().filter(|it| it.role == Role::Def).collect();
        if defs.len() != 1 {
            return None;
        }
        let def = defs[0];
        let exts: Vec<&&Item> = items.iter().filter(|it| it.role == Role::Ext).collect();
        if exts.iter().any(|e| e.kind != def.kind) {
            return None;
        }
        // discovery order: first-seen over directives, then interfaces, then members; within one
        // list the extensions appear in history order
        let mut order: Vec<usize> = Vec::new();
        for pick in [0usize, 1, 2] {
            for (e, x) in exts.iter().enumerate() {
                let n = [x.ndirs, x.nifaces, x.nmembers][pick];
                if n > 0 && !order.contains(&e) {
                    order.push(e);
                }
            }
        }
        let nd: Vec<usize> = exts.iter().map(|x| x.ndirs).collect();
        let ni: Vec<usize> = exts.iter().map(|x| x.nifaces).collect();
        let nm: Vec<usize> = exts.iter().map(|x| x.nmembers).collect();
        t.dirs = reorder(&t.dirs, def.ndirs, &nd, &order)?;
        t.ifaces = reorder(&t.ifaces, def.nifaces, &ni, &order)?;
        t.members = reorder(&t.members, def.nmembers, &nm, &order)?;
    }
    // The schema definition: its only ordered list is the directive list, which is the first one
    // scanned, so discovery order cannot reorder it; root operations are fixed slots.
    Some(predicted)
}

// ---------------------------------------------------------------------------------------------
// Sweeps
// ---------------------------------------------------------------------------------------------

/// Like `vcore::par_sweep`, with a side accumulator per chunk (e.g. the set of canonical states
/// seen) merged in index order.
pub fn par_sweep_acc<A, F, M>(n: u64, chunk: u64, f: F, merge: M) -> (Stats, A)
where
    A: Default + Send,
    F: Fn(u64, &mut Stats, &mut A) + Sync,
    M: Fn(&mut A, A),
{
    let chunk = chunk.max(1);
    let nchunks = n.div_ceil(chunk);
    let parts: Vec<(Stats, A)> = (0..nchunks)
        .into_par_iter()
        .map(|c| {
            let mut st = Stats::default();
            let mut acc = A::default();
            let lo = c * chunk;
            let hi = (lo + chunk).min(n);
            for i in lo..hi {
                f(i, &mut st, &mut acc);
            }
            (st, acc)
        })
        .collect();
    let mut stats = Stats::default();
    let mut acc = A::default();
    for (s, a) in parts {
        stats = stats.merge(s);
        merge(&mut acc, a);
    }
    (stats, acc)
}

pub fn merge_sets(into: &mut BTreeSet<u128>, from: BTreeSet<u128>) {
    into.extend(from);
}

#[derive(Clone, Debug, Default)]
pub struct BfsReport {
    /// distinct canonical states (root included)
    pub states: u64,
    /// enabled operations executed from distinct states
    pub transitions: u64,
    /// number of new canonical states found at each depth (index 0 = the root)
    pub levels: Vec<u64>,
    /// whether the frontier was empty before the depth bound (the reachable space is closed)
    pub closed: bool,
}

/// Level-synchronous breadth-first search over operation histories, de-duplicated on a canonical
/// state. A state is represented by the first history (in BFS order) that reaches it and is
/// re-created by replaying that history on fresh objects inside `expand`.
///
/// `expand(history, stats)` replays `history`, applies every enabled operation, evaluates the
/// oracle on each step (recording into `stats`) and returns `(operation, canonical successor)`
/// for every enabled operation. Work is sharded by frontier index and merged in index order.
pub fn bfs<F>(root: u128, depth: u32, expand: F) -> (Stats, BfsReport)
where
    F: Fn(&[usize], &mut Stats) -> Vec<(usize, u128)> + Sync,
{
    let mut seen: BTreeSet<u128> = BTreeSet::new();
    seen.insert(root);
    let mut frontier: Vec<Vec<usize>> = vec![Vec::new()];
    let mut stats = Stats::default();
    let mut rep = BfsReport { states: 1, transitions: 0, levels: vec![1], closed: false };
    for _ in 0..depth {
        if frontier.is_empty() {
            rep.closed = true;
            break;
        }
        // fixed-size chunks of the frontier: one `Stats` per chunk, merged in index order
        let parts: Vec<(Stats, Vec<Vec<(usize, u128)>>)> = frontier
            .par_chunks(64)
            .map(|chunk| {
                let mut st = Stats::default();
                let succ = chunk.iter().map(|h| expand(h, &mut st)).collect();
                (st, succ)
            })
            .collect();
        let mut next = Vec::new();
        let mut hs = frontier.iter();
        for (st, succs) in parts {
            stats = stats.merge(st);
            for succ in succs {
                let h = hs.next().expect("one successor list per frontier state");
                for (op, canon) in succ {
                    rep.transitions += 1;
                    if seen.insert(canon) {
                        let mut h2 = h.clone();
                        h2.push(op);
                        next.push(h2);
                    }
                }
            }
        }
        rep.levels.push(next.len() as u64);
        rep.states += next.len() as u64;
        frontier = next;
    }
    if frontier.is_empty() {
        rep.closed = true;
    }
    (stats, rep)
}
