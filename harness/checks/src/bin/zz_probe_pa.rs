use apollo_parser::Parser;
fn main() {
    std::panic::set_hook(Box::new(|i| { eprintln!("   PANIC at {:?}: {}", i.location().map(|l| format!("{}:{}", l.file(), l.line())), vcore_msg(i)); }));
    for s in ["", "é", "!", " Int", "Int", "éa", "éa!", "é[a]", "éé a", " ", "a", "Int ]] x", "[!", "[", "[a", "#c\nInt", ",Int", "\u{feff}Int", "1"] {
        println!("parse_type({s:?})");
        let r = std::panic::catch_unwind(|| { let t = Parser::new(s).parse_type(); format!("{:?} errs={:?} text={:?}", t.ty(), t.errors().collect::<Vec<_>>(), t.ty().to_string_()) });
        println!("   {r:?}");
    }
    for s in ["", "é", "é a", " a", "a", "{a}", "a } b", "éé a", "!", "{", "1", " é a", "a é"] {
        println!("parse_selection_set({s:?})");
        let r = std::panic::catch_unwind(|| { let t = Parser::new(s).parse_selection_set(); use apollo_parser::cst::CstNode; format!("errs={:?} text={:?}", t.errors().collect::<Vec<_>>(), t.field_set().syntax().to_string()) });
        println!("   {r:?}");
    }
}
fn vcore_msg(i: &std::panic::PanicHookInfo) -> String { if let Some(s) = i.payload().downcast_ref::<&str>() { s.to_string() } else if let Some(s) = i.payload().downcast_ref::<String>() { s.clone() } else { "?".into() } }
trait TS { fn to_string_(&self) -> String; }
impl TS for apollo_parser::cst::Type { fn to_string_(&self) -> String { use apollo_parser::cst::CstNode; self.syntax().to_string() } }
